//! C13 — symmetric hash join against a nested-loop relational join.
//!
//! (a) incremental `SymmetricHashJoin` over scripted inputs (independent scripts with Pendings, and
//!     *gated* inputs that realise every global arrival interleaving),
//! (b) the `symmetric_hash_join(is_new_tick = true)` drain-then-`NewTickJoinIter` path on the same inputs,
//! (c) multi-tick histories with persisted (`'static`) or cleared (`'tick`) `&mut` state per side,
//!     replaying and incremental paths, set / multiset / mixed states.

use std::cell::RefCell;
use std::collections::VecDeque;
use std::pin::{Pin, pin};
use std::rc::Rc;
use std::task::{Context as TaskCx, Waker};

use dfir_pipes::pull::{self, FusedPull, HalfJoinState, HalfMultisetJoinState, HalfSetJoinState, Pull, PullStep};
use dfir_pipes::{Context, Yes};
use vcommon::{Args, Reporter, Rng, Tier, Value, catch, hash_of, json};

use crate::drive::{drive_future, script_json};
use crate::script::{Ev, ScriptPull, Shared, items_of};
use crate::{all_scripts_over, parse_script};

/// The reporter's set of distinct hashes is capped (memory); the true total is in the counters.
const DISTINCT_CAP: usize = 2_000_000;

type KV = (i32, i32);
type Out3 = (i32, i32, i32);

/// Item code -> (key, value).
fn conv(x: i32) -> KV {
    (x / 100, x % 100)
}
fn kvs(s: &[Ev]) -> Vec<KV> {
    items_of(s).into_iter().map(conv).collect()
}

// ---------------------------------------------------------------------------------------------
// Oracle: nested loops

fn absorb(state: &mut Vec<KV>, new: &[KV], set: bool) {
    for x in new {
        if !set || !state.contains(x) {
            state.push(*x);
        }
    }
}

fn join(l: &[KV], r: &[KV]) -> Vec<Out3> {
    let mut out = vec![];
    for a in l {
        for b in r {
            if a.0 == b.0 {
                out.push((a.0, a.1, b.1));
            }
        }
    }
    out.sort();
    out
}

/// Sorted multiset difference a - b.
fn minus(a: &[Out3], b: &[Out3]) -> Vec<Out3> {
    let mut out = vec![];
    let (mut i, mut j) = (0, 0);
    while i < a.len() {
        if j >= b.len() || a[i] < b[j] {
            out.push(a[i]);
            i += 1;
        } else if a[i] == b[j] {
            i += 1;
            j += 1;
        } else {
            j += 1;
        }
    }
    out
}

fn cls(lset: bool, rset: bool) -> &'static str {
    match (lset, rset) {
        (true, true) => "set-set",
        (false, false) => "multi-multi",
        (true, false) => "set-multi",
        (false, true) => "multi-set",
    }
}

// ---------------------------------------------------------------------------------------------
// Gated inputs: one global arrival schedule shared by both sides

#[derive(Clone, Copy, PartialEq, Eq, Hash, Debug)]
enum GEv {
    It(u8, i32),
    P,
}

struct GatePull {
    side: u8,
    q: Rc<RefCell<VecDeque<GEv>>>,
    sh: Rc<Shared>,
}

impl Pull for GatePull {
    type Ctx<'ctx> = ();
    type Item = KV;
    type Meta = ();
    type CanPend = Yes;
    type CanEnd = Yes;
    fn pull(self: Pin<&mut Self>, _ctx: &mut ()) -> PullStep<KV, (), Yes, Yes> {
        let mut q = self.q.borrow_mut();
        match q.front().copied() {
            Some(GEv::It(s, x)) if s == self.side => {
                q.pop_front();
                PullStep::Ready(conv(x), ())
            }
            Some(GEv::P) => {
                q.pop_front();
                self.sh.bump_pend();
                PullStep::Pending(Yes)
            }
            Some(GEv::It(..)) if q.iter().any(|e| matches!(e, GEv::It(s, _) if *s == self.side)) => {
                self.sh.bump_pend();
                PullStep::Pending(Yes)
            }
            _ => PullStep::Ended(Yes),
        }
    }
    fn size_hint(&self) -> (usize, Option<usize>) {
        let n = self.q.borrow().iter().filter(|e| matches!(e, GEv::It(s, _) if *s == self.side)).count();
        (n, Some(n))
    }
}
impl FusedPull for GatePull {}

fn gate_pair(sh: &Rc<Shared>, global: &[GEv]) -> (GatePull, GatePull) {
    let q = Rc::new(RefCell::new(global.iter().copied().collect::<VecDeque<_>>()));
    (GatePull { side: 0, q: q.clone(), sh: sh.clone() }, GatePull { side: 1, q, sh: sh.clone() })
}

/// What one side sees of a global schedule, as an independent script (other side's arrivals and stalls
/// become Pendings).
fn side_script(global: &[GEv], side: u8) -> Vec<Ev> {
    let mut s: Vec<Ev> = global.iter().map(|e| match e { GEv::It(sd, x) if *sd == side => Ev::It(*x), _ => Ev::Pend }).collect();
    while matches!(s.last(), Some(Ev::Pend)) {
        s.pop();
    }
    s
}

fn global_json(g: &[GEv]) -> Value {
    Value::Array(g.iter().map(|e| match e { GEv::It(s, x) => json!([s, x]), GEv::P => json!("P") }).collect())
}
fn parse_global(v: &Value) -> Vec<GEv> {
    v.as_array()
        .map(|a| a.iter().map(|e| if e.is_string() { GEv::P } else { GEv::It(e[0].as_u64().unwrap() as u8, e[1].as_i64().unwrap() as i32) }).collect())
        .unwrap_or_default()
}

// ---------------------------------------------------------------------------------------------
// Observation

#[derive(Default, Debug)]
struct Obs {
    out: Vec<Out3>,
    cap_hit: bool,
    spurious: Option<usize>,
    pulls: usize,
}

fn drive_join<P>(p: P, sh: &Shared, cap: usize) -> Obs
where
    P: Pull<Item = (i32, (i32, i32))>,
{
    let mut p = pin!(p);
    let mut cx = TaskCx::from_waker(Waker::noop());
    let mut o = Obs::default();
    loop {
        if o.pulls >= cap {
            o.cap_hit = true;
            return o;
        }
        let before = sh.pend.get();
        let ctx = <P::Ctx<'_> as Context<'_>>::from_task(&mut cx);
        let st = p.as_mut().pull(ctx);
        o.pulls += 1;
        match st {
            PullStep::Ready((k, (v1, v2)), _) => o.out.push((k, v1, v2)),
            PullStep::Pending(_) => {
                if sh.pend.get() == before && o.spurious.is_none() {
                    o.spurious = Some(o.pulls - 1);
                }
            }
            PullStep::Ended(_) => return o,
        }
    }
}

fn run_incremental_owned<L, R, LS, RS>(l: L, r: R, sh: &Shared, cap: usize) -> Obs
where
    L: FusedPull<Item = KV, Meta = ()>,
    R: FusedPull<Item = KV, Meta = ()>,
    LS: HalfJoinState<i32, i32, i32> + Default,
    RS: HalfJoinState<i32, i32, i32> + Default,
{
    drive_join(l.symmetric_hash_join(r, LS::default(), RS::default()), sh, cap)
}

/// `symmetric_hash_join(.., is_new_tick)` on external state: await the constructor future, then pull.
fn run_fn_path<'a, L, R, LS, RS>(l: L, r: R, ls: &'a mut LS, rs: &'a mut RS, new_tick: bool, sh: &Shared, cap: usize) -> Obs
where
    L: 'a + FusedPull<Item = KV, Meta = ()>,
    R: 'a + FusedPull<Item = KV, Meta = ()>,
    LS: HalfJoinState<i32, i32, i32>,
    RS: HalfJoinState<i32, i32, i32>,
{
    let (polls, out) = drive_future(pull::symmetric_hash_join(l, r, ls, rs, new_tick), sh, cap);
    let spurious = polls.iter().position(|(ready, d)| !ready && *d == 0);
    match out {
        None => Obs { cap_hit: true, pulls: polls.len(), spurious, ..Obs::default() },
        Some(p) => {
            let mut o = drive_join(p, sh, cap);
            o.spurious = spurious.or(o.spurious);
            o
        }
    }
}

fn run_state_method<L, R, LS, RS>(l: L, r: R, ls: &mut LS, rs: &mut RS, sh: &Shared, cap: usize) -> Obs
where
    L: FusedPull<Item = KV, Meta = ()>,
    R: FusedPull<Item = KV, Meta = ()>,
    LS: HalfJoinState<i32, i32, i32>,
    RS: HalfJoinState<i32, i32, i32>,
{
    drive_join(l.symmetric_hash_join_state(r, ls, rs), sh, cap)
}

// ---------------------------------------------------------------------------------------------
// Judging

struct J<'a> {
    rep: &'a mut Reporter,
}

impl J<'_> {
    fn compare(&mut self, site: &str, class: &str, o: &Obs, exp: &[Out3], case: &dyn Fn() -> Value) -> bool {
        self.rep.eval();
        if o.cap_hit {
            self.rep.violation(&format!("C13|{site}|step-cap-reached|{class}"), &format!("no Ended within {} pulls; emitted so far {:?}", o.pulls, o.out), case());
            return false;
        }
        if let Some(i) = o.spurious {
            self.rep.violation(&format!("C13|{site}|spurious-pending|{class}"), &format!("pull/poll #{i} answered Pending although no input did"), case());
        }
        let mut got = o.out.clone();
        got.sort();
        if got == exp {
            return true;
        }
        let missing = minus(exp, &got);
        let extra = minus(&got, exp);
        let kind = match (missing.is_empty(), extra.is_empty()) {
            (false, true) => "pairs-missing",
            (true, false) => "pairs-repeated-or-extra",
            _ => "pairs-differ",
        };
        self.rep.violation(
            &format!("C13|{site}|{kind}|{class}"),
            &format!("expected {exp:?}; emitted (in order) {:?}; missing {missing:?}; extra {extra:?}", o.out),
            case(),
        );
        false
    }
}

fn nontrivial_join(l: &[KV], r: &[KV], exp: &[Out3]) -> bool {
    // a matching key that has >= 2 arrivals on one side: buffering of further matches / dedup matters
    !exp.is_empty()
        && exp.iter().any(|(k, _, _)| l.iter().filter(|x| x.0 == *k).count() >= 2 || r.iter().filter(|x| x.0 == *k).count() >= 2)
}

// ---------------------------------------------------------------------------------------------
// (a) + (b): one tick, fresh state

struct Single<'a> {
    fam: &'static str,
    l: &'a [Ev],
    r: &'a [Ev],
    global: Option<&'a [GEv]>,
    lset: bool,
    rset: bool,
}

impl Single<'_> {
    fn json(&self) -> Value {
        json!({"engine":"mon_pull","prop":"C13","family":self.fam,"lset":self.lset,"rset":self.rset,
               "l":script_json(self.l),"r":script_json(self.r),
               "global": self.global.map(global_json).unwrap_or(Value::Null)})
    }
}

fn check_single(rep: &mut Reporter, c: &Single) {
    match (c.lset, c.rset) {
        (true, true) => check_single_t::<HalfSetJoinState<i32, i32, i32>, HalfSetJoinState<i32, i32, i32>>(rep, c),
        (false, false) => check_single_t::<HalfMultisetJoinState<i32, i32, i32>, HalfMultisetJoinState<i32, i32, i32>>(rep, c),
        (true, false) => check_single_t::<HalfSetJoinState<i32, i32, i32>, HalfMultisetJoinState<i32, i32, i32>>(rep, c),
        (false, true) => check_single_t::<HalfMultisetJoinState<i32, i32, i32>, HalfSetJoinState<i32, i32, i32>>(rep, c),
    }
}

fn check_single_t<LS, RS>(rep: &mut Reporter, c: &Single)
where
    LS: HalfJoinState<i32, i32, i32> + Default,
    RS: HalfJoinState<i32, i32, i32> + Default,
{
    let (lk, rk) = (kvs(c.l), kvs(c.r));
    let (mut a, mut b) = (vec![], vec![]);
    absorb(&mut a, &lk, c.lset);
    absorb(&mut b, &rk, c.rset);
    let exp = join(&a, &b);
    let class = cls(c.lset, c.rset);
    let n_ev = c.l.len() + c.r.len() + c.global.map_or(0, |g| 2 * g.len());
    let cap = 3 * (n_ev.max(exp.len()) + n_ev) + 16;
    let case = || c.json();
    if nontrivial_join(&lk, &rk, &exp) {
        if rep.distinct_count() < DISTINCT_CAP {
            rep.nontrivial(hash_of(&(c.fam, c.l, c.r, c.global, c.lset, c.rset)));
        }
        rep.count("nontrivial_cases_total");
        rep.sample(|| c.json());
    }
    rep.count(c.fam);

    // (a) incremental
    let res = catch(|| {
        let sh = Shared::new(&[]);
        match c.global {
            Some(g) => {
                let (l, r) = gate_pair(&sh, g);
                run_incremental_owned::<_, _, LS, RS>(l, r, &sh, cap)
            }
            None => {
                let l = ScriptPull::<KV, true>::new(&sh, 0, c.l, 0, conv);
                let r = ScriptPull::<KV, true>::new(&sh, 1, c.r, 0, conv);
                run_incremental_owned::<_, _, LS, RS>(l, r, &sh, cap)
            }
        }
    });
    let inc = match res {
        Ok(o) => {
            J { rep: &mut *rep }.compare("incremental", class, &o, &exp, &case);
            Some(o)
        }
        Err(m) => {
            rep.eval();
            rep.violation(&format!("C13|incremental|panic|{class}"), &m, case());
            None
        }
    };

    // (b) new-tick path on the same inputs (always independent scripts: the drain finishes one side first)
    let res = catch(|| {
        let sh = Shared::new(&[]);
        let l = ScriptPull::<KV, true>::new(&sh, 0, c.l, 0, conv);
        let r = ScriptPull::<KV, true>::new(&sh, 1, c.r, 0, conv);
        let (mut ls, mut rs) = (LS::default(), RS::default());
        run_fn_path(l, r, &mut ls, &mut rs, true, &sh, cap)
    });
    match res {
        Ok(o) => {
            J { rep: &mut *rep }.compare("new-tick", class, &o, &exp, &case);
            if let Some(inc) = inc {
                rep.eval();
                let (mut x, mut y) = (inc.out.clone(), o.out.clone());
                x.sort();
                y.sort();
                if x != y && !inc.cap_hit && !o.cap_hit {
                    rep.violation(&format!("C13|new-tick-vs-incremental|multisets-differ|{class}"), &format!("incremental {x:?} new-tick {y:?}"), case());
                }
            }
        }
        Err(m) => {
            rep.eval();
            rep.violation(&format!("C13|new-tick|panic|{class}"), &m, case());
        }
    }
}

// ---------------------------------------------------------------------------------------------
// (c) multi-tick histories on persisted / cleared state

#[derive(Clone, Debug, Hash)]
struct Tick {
    l: Vec<Ev>,
    r: Vec<Ev>,
    /// true: `symmetric_hash_join(.., is_new_tick = true)` (what the generated code does);
    /// false: incremental join on the persisted state
    replay: bool,
}

struct History<'a> {
    ticks: &'a [Tick],
    lstatic: bool,
    rstatic: bool,
    lset: bool,
    rset: bool,
}

impl History<'_> {
    fn json(&self) -> Value {
        json!({"engine":"mon_pull","prop":"C13","family":"ticks","lset":self.lset,"rset":self.rset,
               "lstatic":self.lstatic,"rstatic":self.rstatic,
               "ticks": self.ticks.iter().map(|t| json!({"l":script_json(&t.l),"r":script_json(&t.r),"replay":t.replay})).collect::<Vec<_>>()})
    }
}

fn check_history(rep: &mut Reporter, h: &History) {
    match (h.lset, h.rset) {
        (true, true) => check_history_t::<HalfSetJoinState<i32, i32, i32>, HalfSetJoinState<i32, i32, i32>>(rep, h),
        (false, false) => check_history_t::<HalfMultisetJoinState<i32, i32, i32>, HalfMultisetJoinState<i32, i32, i32>>(rep, h),
        (true, false) => check_history_t::<HalfSetJoinState<i32, i32, i32>, HalfMultisetJoinState<i32, i32, i32>>(rep, h),
        (false, true) => check_history_t::<HalfMultisetJoinState<i32, i32, i32>, HalfSetJoinState<i32, i32, i32>>(rep, h),
    }
}

fn check_history_t<LS, RS>(rep: &mut Reporter, h: &History)
where
    LS: HalfJoinState<i32, i32, i32> + Default,
    RS: HalfJoinState<i32, i32, i32> + Default,
{
    let class = format!("{}|{}-{}", cls(h.lset, h.rset), if h.lstatic { "static" } else { "tick" }, if h.rstatic { "static" } else { "tick" });
    let case = || h.json();
    rep.count("ticks");
    let (mut ls, mut rs) = (LS::default(), RS::default());
    let (mut a, mut b): (Vec<KV>, Vec<KV>) = (vec![], vec![]);
    let mut all_pairs_once: Vec<Out3> = vec![];
    let mut interesting = false;
    for (ti, t) in h.ticks.iter().enumerate() {
        let before = join(&a, &b);
        absorb(&mut a, &kvs(&t.l), h.lset);
        absorb(&mut b, &kvs(&t.r), h.rset);
        let full = join(&a, &b);
        // replaying path: everything persisted joined with everything new; incremental path: exactly the
        // pairs that did not exist before this tick
        let exp = if t.replay { full.clone() } else { minus(&full, &before) };
        if ti > 0 && !before.is_empty() && exp.len() > before.len().min(1) {
            interesting = true;
        }
        let n_ev = t.l.len() + t.r.len();
        let cap = 3 * (n_ev.max(exp.len()) + n_ev) + 16;
        let res = catch(|| {
            let sh = Shared::new(&[]);
            let l = ScriptPull::<KV, true>::new(&sh, 0, &t.l, 0, conv);
            let r = ScriptPull::<KV, true>::new(&sh, 1, &t.r, 0, conv);
            if t.replay {
                run_fn_path(l, r, &mut ls, &mut rs, true, &sh, cap)
            } else if ti % 2 == 0 {
                run_state_method(l, r, &mut ls, &mut rs, &sh, cap)
            } else {
                run_fn_path(l, r, &mut ls, &mut rs, false, &sh, cap)
            }
        });
        let site = if t.replay { "ticks-replay" } else { "ticks-incremental" };
        match res {
            Ok(o) => {
                if !(J { rep: &mut *rep }).compare(site, &class, &o, &exp, &|| {
                    let mut v = case();
                    v["failing_tick"] = json!(ti);
                    v
                }) {
                    return;
                }
                if !t.replay {
                    all_pairs_once.extend(o.out.iter().copied());
                }
            }
            Err(m) => {
                rep.eval();
                rep.violation(&format!("C13|{site}|panic|{class}"), &m, case());
                return;
            }
        }
        // end of tick: `'tick` persistence clears the state (generated code: write_tick_end)
        if !h.lstatic {
            <LS as HalfJoinState<i32, i32, i32>>::clear(&mut ls);
            a.clear();
        }
        if !h.rstatic {
            <RS as HalfJoinState<i32, i32, i32>>::clear(&mut rs);
            b.clear();
        }
    }
    // fully persisted, purely incremental history: every pair of the final relation exactly once overall
    if h.lstatic && h.rstatic && h.ticks.iter().all(|t| !t.replay) {
        rep.eval();
        all_pairs_once.sort();
        let fin = join(&a, &b);
        if all_pairs_once != fin {
            rep.violation(&format!("C13|ticks-incremental|whole-history-not-exactly-once|{class}"), &format!("final join {fin:?}, emitted over the history {all_pairs_once:?}"), case());
        }
    }
    if interesting {
        if rep.distinct_count() < DISTINCT_CAP {
            rep.nontrivial(hash_of(&(h.ticks, h.lstatic, h.rstatic, h.lset, h.rset)));
        }
        rep.count("nontrivial_cases_total");
        rep.sample(|| h.json());
    }
}

// ---------------------------------------------------------------------------------------------
// Workloads

fn recode(s: &[Ev]) -> Vec<Ev> {
    // alphabet index a in 0..4 -> key a/2, value a%2
    s.iter().map(|e| match e { Ev::It(a) => Ev::It((a / 2) * 100 + a % 2), Ev::Pend => Ev::Pend }).collect()
}

fn interleavings(n1: usize, n2: usize) -> Vec<Vec<u8>> {
    fn rec(a: usize, b: usize, cur: &mut Vec<u8>, out: &mut Vec<Vec<u8>>) {
        if a == 0 && b == 0 {
            out.push(cur.clone());
            return;
        }
        if a > 0 {
            cur.push(0);
            rec(a - 1, b, cur, out);
            cur.pop();
        }
        if b > 0 {
            cur.push(1);
            rec(a, b - 1, cur, out);
            cur.pop();
        }
    }
    let mut out = vec![];
    rec(n1, n2, &mut vec![], &mut out);
    out
}

fn item_seqs(max_len: usize) -> Vec<Vec<i32>> {
    all_scripts_over(max_len, 0, 4).iter().map(|s| items_of(&recode(s))).collect()
}

const KINDS: [(bool, bool); 4] = [(true, true), (false, false), (true, false), (false, true)];

fn random_kv_script(rng: &mut Rng, n_items: usize, keys: usize, vals: usize, dens: u32) -> Vec<Ev> {
    let mut s = vec![];
    for _ in 0..n_items {
        while rng.chance(dens, 100) && s.len() < 4 * n_items + 4 {
            s.push(Ev::Pend);
        }
        s.push(Ev::It((rng.below(keys) * 100 + rng.below(vals)) as i32));
    }
    while rng.chance(dens, 100) && s.len() < 4 * n_items + 8 {
        s.push(Ev::Pend);
    }
    s
}

pub fn run(args: &Args) {
    let mut rep = Reporter::new("C13", args.seed);
    if let Some(case) = args.replay_case() {
        replay(&mut rep, &case);
        rep.finish("replay", false);
        return;
    }
    let miri = args.tier == Tier::Miri;
    let mut rng = if miri { args.rng().fork(args.shard.0 as u64 + 1) } else { args.rng() };
    // Miri: every m-th case (m shrinks with the number of shards), dealt round-robin to the shards
    let (shard, nshards) = args.shard;
    let sel = move |idx: usize, m: usize| {
        let m = (m / nshards.max(1)).max(1);
        idx % m == 0 && (idx / m) % nshards.max(1) == shard
    };
    let thorough = args.tier == Tier::Thorough;
    let mut idx = 0usize;

    // ---- (a1)+(b): independent scripts, every Pending placement (<= 2 per side)
    let side_scripts: Vec<Vec<Ev>> = all_scripts_over(args.budget(3, 3, 2), args.budget(2, 2, 1), 4).iter().map(|s| recode(s)).collect();
    for l in &side_scripts {
        for r in &side_scripts {
            for (ki, &(lset, rset)) in KINDS.iter().enumerate() {
                idx += 1;
                if miri && !sel(idx, 211) {
                    continue;
                }
                // quick: the two mixed state kinds alternate; thorough: all four on every pair
                if !thorough && !miri && ki >= 2 && (idx / 4) % 2 != ki - 2 {
                    continue;
                }
                check_single(&mut rep, &Single { fam: "scripts", l, r, global: None, lset, rset });
            }
        }
    }

    // ---- (a2)+(b): gated inputs, every interleaving of the two arrival sequences (+ one stall anywhere)
    let seqs = item_seqs(args.budget(3, 3, 2));
    for ls in &seqs {
        for rs in &seqs {
            for il in interleavings(ls.len(), rs.len()) {
                let (mut i, mut j) = (0, 0);
                let global: Vec<GEv> = il
                    .iter()
                    .map(|&s| {
                        if s == 0 {
                            i += 1;
                            GEv::It(0, ls[i - 1])
                        } else {
                            j += 1;
                            GEv::It(1, rs[j - 1])
                        }
                    })
                    .collect();
                let mut variants = vec![global.clone()];
                if thorough {
                    for pos in 0..=global.len() {
                        let mut g = global.clone();
                        g.insert(pos, GEv::P);
                        variants.push(g);
                    }
                } else if !global.is_empty() {
                    let mut g = global.clone();
                    g.insert(idx % (global.len() + 1), GEv::P);
                    variants.push(g);
                }
                for g in &variants {
                    let (l, r) = (side_script(g, 0), side_script(g, 1));
                    for &(lset, rset) in &KINDS {
                        idx += 1;
                        if miri && !sel(idx, 397) {
                            continue;
                        }
                        check_single(&mut rep, &Single { fam: "gated", l: &l, r: &r, global: Some(g), lset, rset });
                    }
                }
            }
        }
    }

    // ---- (c) multi-tick histories: per tick and side nothing or one of the 4 items; every persistence
    //      combination x state kinds x {all replaying, all incremental}
    let n_ticks = args.budget(3, 4, 2);
    let opts: Vec<Vec<Ev>> = std::iter::once(vec![]).chain((0..4).map(|a| vec![Ev::It((a / 2) * 100 + a % 2)])).collect();
    let per_tick = opts.len() * opts.len();
    for nt in 1..=n_ticks {
        for code in 0..per_tick.pow(nt as u32) {
            let mut c = code;
            let mut ticks: Vec<Tick> = vec![];
            for _ in 0..nt {
                let t = c % per_tick;
                c /= per_tick;
                ticks.push(Tick { l: opts[t / opts.len()].clone(), r: opts[t % opts.len()].clone(), replay: true });
            }
            for cfg in 0..32usize {
                idx += 1;
                if miri && !sel(idx, 97) {
                    continue;
                }
                let (lstatic, rstatic) = (cfg & 1 != 0, cfg & 2 != 0);
                let (lset, rset) = KINDS[(cfg >> 2) & 3];
                let replay = cfg & 16 != 0;
                for t in &mut ticks {
                    t.replay = replay;
                }
                check_history(&mut rep, &History { ticks: &ticks, lstatic, rstatic, lset, rset });
            }
        }
    }
    // richer random histories: <= 4 ticks, <= 3 items per side and tick, Pendings, path chosen per tick
    for _ in 0..args.budget(30_000, 600_000, 40) {
        let nt = 1 + rng.below(4);
        let ticks: Vec<Tick> = (0..nt)
            .map(|_| {
                let d = rng.below(50) as u32;
                let (nl, nr) = (rng.below(4), rng.below(4));
                Tick { l: random_kv_script(&mut rng, nl, 2, 2, d), r: random_kv_script(&mut rng, nr, 2, 2, d), replay: rng.chance(1, 2) }
            })
            .collect();
        let (lset, rset) = *rng.choose(&KINDS);
        let h = History { ticks: &ticks, lstatic: rng.chance(1, 2), rstatic: rng.chance(1, 2), lset, rset };
        idx += 1;
        if miri && !args.in_shard(idx) {
            continue;
        }
        check_history(&mut rep, &h);
    }

    // ---- random large: 50 keys, up to 200 items in total
    for _ in 0..args.budget(400, 8_000, 2) {
        let n = 20 + rng.below(181);
        let nl = rng.below(n + 1);
        let (dl, dr) = (rng.below(61) as u32, rng.below(61) as u32);
        let keys = if rng.chance(1, 4) { 5 } else { 50 };
        let l = random_kv_script(&mut rng, nl, keys, 4, dl);
        let r = random_kv_script(&mut rng, n - nl, keys, 4, dr);
        let (lset, rset) = *rng.choose(&KINDS);
        idx += 1;
        if miri && !args.in_shard(idx) {
            continue;
        }
        check_single(&mut rep, &Single { fam: "random", l: &l, r: &r, global: None, lset, rset });
    }

    if !miri {
        rep.require(rep.counter("scripts") > 100_000, "fewer than 100000 independent-script cases");
        rep.require(rep.counter("gated") > 100_000, "fewer than 100000 gated interleaving cases");
        rep.require(rep.counter("ticks") > 100_000, "fewer than 100000 multi-tick histories");
        rep.require(rep.counter("random") >= 400, "fewer than 400 large random joins");
        rep.require(rep.distinct_count() > 10_000, "fewer than 10000 distinct non-trivial joins");
    }
    rep.finish(
        "one-tick joins: all left/right inputs of <=3 items over keys {0,1} x values {0,1} x every placement of <=2 Pendings per side (independent scripts), and every global arrival interleaving of the two sequences through gated inputs (+ one stall at one/every position); each run through the incremental SymmetricHashJoin and through symmetric_hash_join(is_new_tick=true), judged against a nested-loop join (set-deduplicated / multiset per side; all four state combinations) and against each other. Multi-tick: every history of <=3 (quick) / <=4 (thorough) ticks with <=1 new item per side and tick x static/tick persistence per side x state kinds x {replaying, incremental}, plus random histories (<=3 items per side and tick, Pendings, path per tick); random joins with 50 keys / <=200 items. Non-trivial = non-empty result in which some matching key arrives >=2 times on one side (one tick), or a later tick emitting more than one pair on top of a non-empty persisted join (histories); distinct hashes are capped at 2e6 (total in counters.nontrivial_cases_total)",
        !miri,
    );
}

fn replay(rep: &mut Reporter, case: &Value) {
    let fam = case["family"].as_str().unwrap_or("");
    let (lset, rset) = (case["lset"].as_bool().unwrap_or(true), case["rset"].as_bool().unwrap_or(true));
    if fam == "ticks" {
        let ticks: Vec<Tick> = case["ticks"]
            .as_array()
            .map(|a| a.iter().map(|t| Tick { l: parse_script(&t["l"]), r: parse_script(&t["r"]), replay: t["replay"].as_bool().unwrap_or(true) }).collect())
            .unwrap_or_default();
        check_history(rep, &History { ticks: &ticks, lstatic: case["lstatic"].as_bool().unwrap_or(false), rstatic: case["rstatic"].as_bool().unwrap_or(false), lset, rset });
    } else {
        let (l, r) = (parse_script(&case["l"]), parse_script(&case["r"]));
        let global = if case["global"].is_array() { Some(parse_global(&case["global"])) } else { None };
        let fam: &'static str = match fam {
            "gated" => "gated",
            "random" => "random",
            _ => "scripts",
        };
        check_single(rep, &Single { fam, l: &l, r: &r, global: global.as_deref(), lset, rset });
    }
}
