//! The observer: pulls the combinator under test to its end (step cap, never wall-clock), recording the
//! `PullStep` sequence, `size_hint()` before every pull and how many upstream `Pending`s each pull
//! consumed; and the non-generic judge for the four C11 rules.

use std::pin::pin;
use std::task::{Context as TaskCx, Poll, Waker};

use dfir_pipes::pull::{Pull, PullStep};
use dfir_pipes::{Context, EitherOrBoth};
use vcommon::{Value, json};

use crate::script::{Ev, Shared, items_of, pends_of};

// ---------------------------------------------------------------------------------------------
// The case descriptor (borrowed; owned only for replay)

#[derive(Clone, Copy, Debug)]
pub struct Case<'a> {
    pub fam: &'a str,
    pub scripts: [&'a [Ev]; 2],
    /// Per input: 0 = non-fused ScriptPull, 1 = fused ScriptPull, 2 = `pull::iter` (CanPend = No; the
    /// script must be pending-free).
    pub kinds: [u8; 2],
    pub p1: i64,
    pub p2: i64,
    /// Inner schedule: ordinals (with multiplicity) of inner-future / inner-stream / downstream answers
    /// before which one Pending is injected.
    pub inner: &'a [u32],
    /// size-hint mode of the scripts (all truthful): 0 exact, 1 (n/2, None), 2 (0, n+1), 3 (n, None)
    pub mode: u8,
}

pub fn script_json(s: &[Ev]) -> Value {
    Value::Array(s.iter().map(|e| match e { Ev::It(x) => json!(x), Ev::Pend => json!("P") }).collect())
}

impl Case<'_> {
    pub fn to_json(&self) -> Value {
        json!({"engine":"mon_pull","prop":"C11","family":self.fam,
               "scripts":[script_json(self.scripts[0]), script_json(self.scripts[1])],
               "kinds":self.kinds,"p1":self.p1,"p2":self.p2,"inner":self.inner,"mode":self.mode})
    }
    pub fn total_pends(&self) -> usize {
        pends_of(self.scripts[0]) + pends_of(self.scripts[1]) + self.inner.len()
    }
    pub fn total_items(&self) -> usize {
        items_of(self.scripts[0]).len() + items_of(self.scripts[1]).len()
    }
    /// Step cap `3·(items + pendings) + 16`; `items` also covers the expected output length because
    /// flattening combinators may emit more than they take in.
    pub fn cap(&self, expected_out: usize) -> usize {
        3 * (self.total_items().max(expected_out) + self.total_pends()) + 16
    }
}

// ---------------------------------------------------------------------------------------------
// Canonical encoding of observed items

#[derive(Clone, Copy, PartialEq, Eq, Default, Debug, Hash)]
pub struct Code {
    n: u8,
    v: [i64; 5],
}

impl Code {
    #[inline]
    pub fn push(&mut self, x: i64) {
        self.v[self.n as usize] = x;
        self.n += 1;
    }
    pub fn show(&self) -> Vec<i64> {
        self.v[..self.n as usize].to_vec()
    }
}

pub trait Enc {
    fn enc(&self, c: &mut Code);
    fn code(&self) -> Code {
        let mut c = Code::default();
        self.enc(&mut c);
        c
    }
}
impl Enc for i32 {
    fn enc(&self, c: &mut Code) {
        c.push(*self as i64)
    }
}
impl Enc for usize {
    fn enc(&self, c: &mut Code) {
        c.push(*self as i64)
    }
}
impl<A: Enc, B: Enc> Enc for (A, B) {
    fn enc(&self, c: &mut Code) {
        self.0.enc(c);
        self.1.enc(c);
    }
}
impl<A: Enc, B: Enc> Enc for EitherOrBoth<A, B> {
    fn enc(&self, c: &mut Code) {
        match self {
            EitherOrBoth::Both(a, b) => {
                c.push(-1);
                a.enc(c);
                b.enc(c);
            }
            EitherOrBoth::Left(a) => {
                c.push(-2);
                a.enc(c);
            }
            EitherOrBoth::Right(b) => {
                c.push(-3);
                b.enc(c);
            }
        }
    }
}

pub fn codes<T: Enc>(it: impl IntoIterator<Item = T>) -> Vec<Code> {
    it.into_iter().map(|x| x.code()).collect()
}

// ---------------------------------------------------------------------------------------------
// Trace

#[derive(Clone, Copy, PartialEq, Eq, Debug)]
pub enum Kind {
    R,
    P,
    E,
}

#[derive(Clone, Copy, Debug)]
pub struct Step {
    pub hint: (usize, Option<usize>),
    pub kind: Kind,
    pub code: Code,
    pub pend_delta: u32,
}

#[derive(Debug, Default)]
pub struct Trace {
    pub steps: Vec<Step>,
    pub cap_hit: bool,
}

/// Pull `p` until its first `Ended` (at most `cap` pulls), then `post_end` more times.
pub fn drive<P>(p: P, sh: &Shared, cap: usize, post_end: usize) -> Trace
where
    P: Pull,
    P::Item: Enc,
{
    let mut p = pin!(p);
    let mut cx = TaskCx::from_waker(Waker::noop());
    let mut tr = Trace { steps: Vec::with_capacity(24), cap_hit: false };
    let mut after_end: Option<usize> = None;
    loop {
        match after_end {
            None if tr.steps.len() >= cap => {
                tr.cap_hit = true;
                break;
            }
            Some(k) if k >= post_end => break,
            _ => {}
        }
        let hint = p.size_hint();
        let before = sh.pend.get();
        let ctx = <P::Ctx<'_> as Context<'_>>::from_task(&mut cx);
        let st = p.as_mut().pull(ctx);
        let pend_delta = (sh.pend.get() - before) as u32;
        let (kind, code) = match st {
            PullStep::Ready(item, _meta) => (Kind::R, item.code()),
            PullStep::Pending(_) => (Kind::P, Code::default()),
            PullStep::Ended(_) => (Kind::E, Code::default()),
        };
        tr.steps.push(Step { hint, kind, code, pend_delta });
        match (&mut after_end, kind) {
            (Some(k), _) => *k += 1,
            (None, Kind::E) => after_end = Some(0),
            _ => {}
        }
    }
    tr
}

/// Poll a future to completion (at most `cap` polls). Returns (pend_delta per poll, output).
pub fn drive_future<F: Future>(f: F, sh: &Shared, cap: usize) -> (Vec<(bool, u32)>, Option<F::Output>) {
    let mut f = pin!(f);
    let mut cx = TaskCx::from_waker(Waker::noop());
    let mut polls = vec![];
    loop {
        if polls.len() >= cap {
            return (polls, None);
        }
        let before = sh.pend.get();
        let r = f.as_mut().poll(&mut cx);
        let d = (sh.pend.get() - before) as u32;
        match r {
            Poll::Ready(x) => {
                polls.push((true, d));
                return (polls, Some(x));
            }
            Poll::Pending => polls.push((false, d)),
        }
    }
}

// ---------------------------------------------------------------------------------------------
// Judge

thread_local! {
    static FUSED_CHECKS: std::cell::Cell<u64> = const { std::cell::Cell::new(0) };
}
/// Number of runs in which the five post-`Ended` pulls of a `FusedPull` were judged.
pub fn fused_checks() -> u64 {
    FUSED_CHECKS.with(|c| c.get())
}

/// One oracle failure, buffered so that the caller can attribute it (see `main::flush`).
pub struct Finding {
    pub sig: String,
    pub what: String,
    pub case: Value,
}

/// What a catalogue entry reports for one case: judgements made, failures, coverage counters.
#[derive(Default)]
pub struct Out {
    pub evals: u64,
    pub findings: Vec<Finding>,
    pub counts: Vec<&'static str>,
}

impl Out {
    #[inline]
    pub fn eval(&mut self) {
        self.evals += 1;
    }
    pub fn violation(&mut self, sig: &str, what: &str, case: Value) {
        self.findings.push(Finding { sig: sig.to_string(), what: what.to_string(), case });
    }
    pub fn count(&mut self, name: &'static str) {
        self.counts.push(name);
    }
}

pub struct Opts {
    /// The combinator implements `FusedPull` for these input types (decided by the type system).
    pub fused: bool,
    /// Judge `lower <= remaining` (off only where the documentation leaves "remaining" open).
    pub lower: bool,
}

fn show_codes(v: &[Code]) -> Vec<Vec<i64>> {
    v.iter().map(|c| c.show()).collect()
}

fn show_trace(tr: &Trace) -> String {
    let mut s = String::new();
    for st in &tr.steps {
        match st.kind {
            Kind::R => s.push_str(&format!("R{:?}", st.code.show())),
            Kind::P => s.push('P'),
            Kind::E => s.push('E'),
        }
        s.push_str(&format!("@{:?} ", st.hint));
    }
    s
}

/// Apply the C11 rules to one trace. `site` is the combinator named in the signature.
pub fn judge(rep: &mut Out, c: &Case, site: &str, tr: &Trace, expected: &[Code], o: &Opts) {
    let sig = |kind: &str| format!("C11|{site}|{kind}");
    // progress / hang
    rep.eval();
    if tr.cap_hit {
        rep.violation(&sig("step-cap-reached"), &format!("no Ended within {} pulls: {}", tr.steps.len(), show_trace(tr)), c.to_json());
        return;
    }
    let end = tr.steps.iter().position(|s| s.kind == Kind::E).unwrap_or(tr.steps.len());
    // (1) items
    rep.eval();
    let got: Vec<Code> = tr.steps[..end].iter().filter(|s| s.kind == Kind::R).map(|s| s.code).collect();
    if got != expected {
        let kind = if got.len() < expected.len() && expected.starts_with(&got) {
            "items-missing"
        } else if got.len() > expected.len() && got.starts_with(expected) {
            "items-extra"
        } else {
            "items-differ"
        };
        rep.violation(&sig(kind), &format!("expected {:?} got {:?}; trace {}", show_codes(expected), show_codes(&got), show_trace(tr)), c.to_json());
    }
    // (2) fused: Ended forever
    if o.fused {
        rep.eval();
        FUSED_CHECKS.with(|c| c.set(c.get() + 1));
        if let Some(bad) = tr.steps[end..].iter().position(|s| s.kind != Kind::E) {
            rep.violation(&sig("not-ended-after-ended"), &format!("pull #{bad} after the first Ended returned {:?}; trace {}", tr.steps[end + bad].kind, show_trace(tr)), c.to_json());
        }
    }
    // (3) size hints bracket what is still to come (4) no spurious Pending
    let mut remaining = got.len();
    let mut hint_bad = false;
    for (i, st) in tr.steps.iter().enumerate() {
        rep.eval();
        let (lo, up) = st.hint;
        if !hint_bad {
            if o.lower && lo > remaining {
                hint_bad = true;
                rep.violation(&sig("size_hint-lower-above-remaining"), &format!("before pull #{i}: size_hint {:?} but {remaining} items remained; trace {}", st.hint, show_trace(tr)), c.to_json());
            } else if up.is_some_and(|u| u < remaining) {
                hint_bad = true;
                rep.violation(&sig("size_hint-upper-below-remaining"), &format!("before pull #{i}: size_hint {:?} but {remaining} items remained; trace {}", st.hint, show_trace(tr)), c.to_json());
            }
        }
        if i < end && st.kind == Kind::R {
            remaining -= 1;
        }
        if st.kind == Kind::P {
            rep.eval();
            if st.pend_delta == 0 {
                rep.violation(&sig("spurious-pending"), &format!("pull #{i} returned Pending although no input/inner future answered Pending; trace {}", show_trace(tr)), c.to_json());
            }
        }
    }
}
