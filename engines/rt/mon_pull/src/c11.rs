//! C11 catalogue: every pull combinator (and depth-2 compositions) wired to scripted inputs, with the
//! expected item sequence computed by the corresponding `std::iter` adapter.

use std::collections::HashMap;
use std::rc::Rc;

use dfir_pipes::pull::{self, FusedPull, Pull, PullStep};
use dfir_pipes::{Either, EitherOrBoth, No, Yes};
use futures::Stream as _;

use crate::drive::{Case, Code, Enc, Kind, Opts, Out as Reporter, Step, Trace, codes, drive, drive_future, judge};
use crate::script::{CheckPush, CheckSink, Ev, GateFuture, GateStream, POISON, ScriptPull, ScriptStream, Shared, items_of};

// ---------------------------------------------------------------------------------------------
// Does the concrete type implement FusedPull? (autoref specialisation; only usable on concrete types,
// i.e. inside the macros below.)

pub struct Wrap<'a, T>(#[allow(dead_code)] pub &'a T);
pub trait ViaFused {
    fn is_fused_pull(&self) -> bool {
        true
    }
}
impl<T: FusedPull> ViaFused for Wrap<'_, T> {}
pub trait ViaAny {
    fn is_fused_pull(&self) -> bool {
        false
    }
}
impl<T> ViaAny for &Wrap<'_, T> {}

macro_rules! is_fused {
    ($p:expr) => {
        (&Wrap(&$p)).is_fused_pull()
    };
}

// ---------------------------------------------------------------------------------------------
// Catalogue entry

#[derive(Clone, Copy, PartialEq, Eq, Debug)]
pub enum Inner {
    None,
    /// number of inner answers in a pending-free run (upper bound) is computed by `m`
    Sched,
}

pub struct Entry {
    pub name: &'static str,
    pub arity: u8,
    /// values of p1 enumerated exhaustively (p2 only used by compositions)
    pub p1: &'static [i64],
    pub inner: Inner,
    /// number of inner-schedule ordinals worth enumerating for this case
    pub m: fn(&Case) -> usize,
    /// allowed input kinds; the first two are run on every case, the rest in rotation
    pub kinds: &'static [[u8; 2]],
    pub composition: bool,
    pub run: for<'a, 'b, 'c> fn(&'a Case<'b>, &'c mut Reporter),
}

pub const MASKS: &[i64] = &[0, 1, 2, 3, 4, 5, 6, 7];
pub const COUNTS: &[i64] = &[0, 1, 2, 3, 4, 5];
const P0: &[i64] = &[0];
const K_UN: &[[u8; 2]] = &[[1, 0], [0, 0], [2, 0]];
const K_BIN: &[[u8; 2]] = &[[1, 1], [0, 0], [1, 0], [0, 1], [2, 2], [2, 1], [1, 2], [0, 2], [2, 0]];
const K_BIN_FIRST_FUSED: &[[u8; 2]] = &[[1, 1], [1, 0], [2, 2], [2, 1], [1, 2], [2, 0]];
const K_BIN_FF: &[[u8; 2]] = &[[1, 1], [2, 2], [2, 1], [1, 2]];
const K_FF_ONLY: &[[u8; 2]] = &[[1, 1]];

fn m_none(_: &Case) -> usize {
    0
}
fn m_items(c: &Case) -> usize {
    items_of(c.scripts[0]).len()
}
fn m_streams(c: &Case) -> usize {
    items_of(c.scripts[0]).iter().map(|&x| rep_vec(x).len() + 1).sum()
}
fn m_down(c: &Case) -> usize {
    items_of(c.scripts[0]).len() + 2
}

/// Predicate number `mask` over the residue of x mod 3.
#[inline]
pub fn pm(mask: i64, x: i32) -> bool {
    (mask >> x.rem_euclid(3)) & 1 == 1
}
/// x -> (x mod 3) derived items; 0 gives the empty inner collection.
pub fn rep_vec(x: i32) -> Vec<i32> {
    (0..x.rem_euclid(3)).map(|j| x * 3 + j).collect()
}
fn eob(e: EitherOrBoth<i32, i32>) -> i32 {
    match e {
        EitherOrBoth::Both(a, b) => 1000 + a * 10 + b,
        EitherOrBoth::Left(a) => 2000 + a,
        EitherOrBoth::Right(b) => 3000 + b,
    }
}

// ---------------------------------------------------------------------------------------------
// Input construction: bind `$a` to input `$idx` of the right kind and evaluate `$body` per kind.

macro_rules! with_input {
    ($c:expr, $sh:expr, $idx:expr, $conv:expr, |$a:ident| $body:expr) => {
        match $c.kinds[$idx] {
            0 => {
                let $a = ScriptPull::<_, false>::new($sh, $idx, $c.scripts[$idx], $c.mode, $conv);
                $body
            }
            1 => {
                let $a = ScriptPull::<_, true>::new($sh, $idx, $c.scripts[$idx], $c.mode, $conv);
                $body
            }
            _ => {
                let $a = pull::iter(items_of($c.scripts[$idx]).into_iter().map($conv));
                $body
            }
        }
    };
}
/// Only kinds whose pull is `FusedPull` (1, 2).
macro_rules! with_fused_input {
    ($c:expr, $sh:expr, $idx:expr, $conv:expr, |$a:ident| $body:expr) => {
        match $c.kinds[$idx] {
            1 => {
                let $a = ScriptPull::<_, true>::new($sh, $idx, $c.scripts[$idx], $c.mode, $conv);
                $body
            }
            2 => {
                let $a = pull::iter(items_of($c.scripts[$idx]).into_iter().map($conv));
                $body
            }
            _ => panic!("harness: kind {} not allowed for a fused-only input", $c.kinds[$idx]),
        }
    };
}
/// Script pulls only (0, 1) — used by the compositions to limit the number of instantiations.
macro_rules! with_input01 {
    ($c:expr, $sh:expr, $idx:expr, |$a:ident| $body:expr) => {
        match $c.kinds[$idx] {
            0 => {
                let $a = ScriptPull::<i32, false>::new($sh, $idx, $c.scripts[$idx], $c.mode, |x| x);
                $body
            }
            _ => {
                let $a = ScriptPull::<i32, true>::new($sh, $idx, $c.scripts[$idx], $c.mode, |x| x);
                $body
            }
        }
    };
}

/// Drive `$p` and report (trace, fused?).
macro_rules! go {
    ($p:expr, $c:expr, $sh:expr, $nexp:expr) => {{
        let p = $p;
        let f = is_fused!(p);
        (drive(p, &$sh, $c.cap($nexp), if f { 5 } else { 0 }), f)
    }};
}

fn finish(rep: &mut Reporter, c: &Case, tr: &Trace, exp: &[Code], fused: bool, sh: &Shared) {
    judge(rep, c, c.fam, tr, exp, &Opts { fused, lower: true });
    common_post(rep, c, sh);
}

fn common_post(rep: &mut Reporter, c: &Case, sh: &Shared) {
    if sh.inner_repoll.get() > 0 {
        rep.violation(&format!("C11|{}|inner-future-polled-after-completion", c.fam), "an inner future/stream was polled again after it completed", c.to_json());
    }
    for i in 0..2 {
        if sh.post_end_polls[i].get() > 0 {
            rep.count(if c.kinds[i] == 0 { "repoll_of_ended_nonfused_input" } else { "repoll_of_ended_fused_input(legal)" });
        }
    }
}

// ---------------------------------------------------------------------------------------------
// Uniform (i32 -> i32) operators used for depth-2 compositions

macro_rules! bu {
    (map, $i:expr, $p:ident, $sh:ident) => {
        $i.map(|x: i32| x * 2 + 1)
    };
    (filter, $i:expr, $p:ident, $sh:ident) => {
        $i.filter(move |x: &i32| pm($p, *x))
    };
    (filter_map, $i:expr, $p:ident, $sh:ident) => {
        $i.filter_map(move |x: i32| if pm($p, x) { Some(x + 3) } else { None })
    };
    (flat_map, $i:expr, $p:ident, $sh:ident) => {
        $i.flat_map(|x: i32| rep_vec(x))
    };
    (flatten, $i:expr, $p:ident, $sh:ident) => {
        $i.map(|x: i32| rep_vec(x)).flatten()
    };
    (enumerate, $i:expr, $p:ident, $sh:ident) => {
        $i.enumerate().map(|(i, x): (usize, i32)| x + 5 * i as i32)
    };
    (skip, $i:expr, $p:ident, $sh:ident) => {
        $i.skip(($p % 6) as usize)
    };
    (skip_while, $i:expr, $p:ident, $sh:ident) => {
        $i.skip_while(move |x: &i32| pm($p, *x))
    };
    (take, $i:expr, $p:ident, $sh:ident) => {
        $i.take(($p % 6) as usize)
    };
    (take_while, $i:expr, $p:ident, $sh:ident) => {
        $i.take_while(move |x: &i32| pm($p, *x))
    };
    (inspect, $i:expr, $p:ident, $sh:ident) => {
        $i.inspect(|_x: &i32| {})
    };
    (fuse, $i:expr, $p:ident, $sh:ident) => {
        Pull::fuse($i)
    };
    (fm_async, $i:expr, $p:ident, $sh:ident) => {{
        let s = $sh.clone();
        $i.filter_map_async(move |x: i32| GateFuture::new(&s, if pm($p, x) { Some(x + 3) } else { None }, Some(POISON)))
    }};
    (fm_stream, $i:expr, $p:ident, $sh:ident) => {{
        let s = $sh.clone();
        $i.flat_map_stream(move |x: i32| GateStream::new(&s, rep_vec(x)))
    }};
}

/// Reference semantics of the uniform unary operators, by the std adapters.
pub fn ex_un(op: &str, p: i64, v: Vec<i32>) -> Vec<i32> {
    let it = v.into_iter();
    match op {
        "map" => it.map(|x| x * 2 + 1).collect(),
        "filter" => it.filter(|x| pm(p, *x)).collect(),
        "filter_map" | "fm_async" => it.filter_map(|x| if pm(p, x) { Some(x + 3) } else { None }).collect(),
        "flat_map" | "fm_stream" => it.flat_map(rep_vec).collect(),
        "flatten" => it.map(rep_vec).flatten().collect(),
        "enumerate" => it.enumerate().map(|(i, x)| x + 5 * i as i32).collect(),
        "skip" => it.skip((p % 6) as usize).collect(),
        "skip_while" => it.skip_while(|x| pm(p, *x)).collect(),
        "take" => it.take((p % 6) as usize).collect(),
        "take_while" => it.take_while(|x| pm(p, *x)).collect(),
        "inspect" => it.inspect(|_| {}).collect(),
        "fuse" => it.fuse().collect(),
        _ => panic!("harness: unknown unary {op}"),
    }
}

macro_rules! bb {
    (chain, $a:expr, $b:expr) => {
        $a.chain($b)
    };
    (zip, $a:expr, $b:expr) => {
        $a.zip($b).map(|(a, b): (i32, i32)| a * 10 + b)
    };
    (zip_longest, $a:expr, $b:expr) => {
        $a.zip_longest($b).map(eob)
    };
    (cross_singleton, $a:expr, $b:expr) => {
        $a.cross_singleton($b).map(|(a, s): (i32, i32)| a * 10 + s)
    };
}

pub fn ex_zip_longest(a: Vec<i32>, b: Vec<i32>) -> Vec<EitherOrBoth<i32, i32>> {
    let mut out = vec![];
    for i in 0..a.len().max(b.len()) {
        out.push(match (a.get(i), b.get(i)) {
            (Some(x), Some(y)) => EitherOrBoth::Both(*x, *y),
            (Some(x), None) => EitherOrBoth::Left(*x),
            (None, Some(y)) => EitherOrBoth::Right(*y),
            (None, None) => unreachable!(),
        });
    }
    out
}

pub fn ex_bin(op: &str, a: Vec<i32>, b: Vec<i32>) -> Vec<i32> {
    match op {
        "chain" => a.into_iter().chain(b).collect(),
        "zip" => a.into_iter().zip(b).map(|(a, b)| a * 10 + b).collect(),
        "zip_longest" => ex_zip_longest(a, b).into_iter().map(eob).collect(),
        "cross_singleton" => match b.first() {
            Some(&s) => a.into_iter().map(|a| a * 10 + s).collect(),
            None => vec![],
        },
        _ => panic!("harness: unknown binary {op}"),
    }
}

// ---------------------------------------------------------------------------------------------
// Entry-generating macros

/// Base unary combinator over one scripted input of any kind.
macro_rules! unary {
    ($v:ident, $name:literal, $p1:expr, $inner:expr, $m:expr, $conv:expr,
     |$a:ident, $c:ident, $sh:ident| $build:expr, |$it:ident| $exp:expr) => {
        $v.push(Entry {
            name: $name, arity: 1, p1: $p1, inner: $inner, m: $m, kinds: K_UN, composition: false,
            run: |$c, rep| {
                let $sh = Shared::new($c.inner);
                let exp: Vec<Code> = {
                    let $it = items_of($c.scripts[0]).into_iter();
                    codes($exp)
                };
                let (tr, fused) = with_input!($c, &$sh, 0, $conv, |$a| go!($build, $c, $sh, exp.len()));
                finish(rep, $c, &tr, &exp, fused, &$sh);
            },
        });
    };
}

/// outer(inner(input)) over the uniform operators.
macro_rules! uu {
    ($v:ident, $o:ident, $i:ident) => {
        $v.push(Entry {
            name: concat!(stringify!($o), "(", stringify!($i), ")"), arity: 1, p1: P0, inner: Inner::Sched, m: m_none,
            kinds: K_UN, composition: true,
            run: |c, rep| {
                let sh = Shared::new(c.inner);
                let (p1, p2) = (c.p1, c.p2);
                let _ = (p1, p2);
                let exp = codes(ex_un(stringify!($o), p1, ex_un(stringify!($i), p2, items_of(c.scripts[0]))));
                let (tr, fused) = with_input01!(c, &sh, 0, |a| go!(bu!($o, bu!($i, a, p2, sh), p1, sh), c, sh, exp.len()));
                finish(rep, c, &tr, &exp, fused, &sh);
            },
        });
    };
}
macro_rules! uu_row {
    ($v:ident, $o:ident, [$($i:ident),*]) => { $( uu!($v, $o, $i); )* };
}
macro_rules! uu_all {
    ($v:ident, [$($o:ident),*], $is:tt) => { $( uu_row!($v, $o, $is); )* };
}

/// unary(binary(a, b)) — both inputs fused script pulls.
macro_rules! ub {
    ($v:ident, $o:ident, $b:ident) => {
        $v.push(Entry {
            name: concat!(stringify!($o), "(", stringify!($b), "(a,b))"), arity: 2, p1: P0, inner: Inner::Sched, m: m_none,
            kinds: K_FF_ONLY, composition: true,
            run: |c, rep| {
                let sh = Shared::new(c.inner);
                let p1 = c.p1;
                let _ = p1;
                let exp = codes(ex_un(stringify!($o), p1, ex_bin(stringify!($b), items_of(c.scripts[0]), items_of(c.scripts[1]))));
                let a = ScriptPull::<i32, true>::new(&sh, 0, c.scripts[0], c.mode, |x| x);
                let b = ScriptPull::<i32, true>::new(&sh, 1, c.scripts[1], c.mode, |x| x);
                let (tr, fused) = go!(bu!($o, bb!($b, a, b), p1, sh), c, sh, exp.len());
                finish(rep, c, &tr, &exp, fused, &sh);
            },
        });
    };
}
macro_rules! ub_row {
    ($v:ident, $o:ident, [$($b:ident),*]) => { $( ub!($v, $o, $b); )* };
}
macro_rules! ub_all {
    ($v:ident, [$($o:ident),*], $bs:tt) => { $( ub_row!($v, $o, $bs); )* };
}

/// binary(unary(a), b) and binary(a, unary(b)) — both inputs fused script pulls.
macro_rules! bu_l {
    ($v:ident, $b:ident, $u:ident) => {
        $v.push(Entry {
            name: concat!(stringify!($b), "(", stringify!($u), "(a),b)"), arity: 2, p1: P0, inner: Inner::Sched, m: m_none,
            kinds: K_FF_ONLY, composition: true,
            run: |c, rep| {
                let sh = Shared::new(c.inner);
                let p1 = c.p1;
                let _ = p1;
                let exp = codes(ex_bin(stringify!($b), ex_un(stringify!($u), p1, items_of(c.scripts[0])), items_of(c.scripts[1])));
                let a = ScriptPull::<i32, true>::new(&sh, 0, c.scripts[0], c.mode, |x| x);
                let b = ScriptPull::<i32, true>::new(&sh, 1, c.scripts[1], c.mode, |x| x);
                let (tr, fused) = go!(bb!($b, bu!($u, a, p1, sh), b), c, sh, exp.len());
                finish(rep, c, &tr, &exp, fused, &sh);
            },
        });
        $v.push(Entry {
            name: concat!(stringify!($b), "(a,", stringify!($u), "(b))"), arity: 2, p1: P0, inner: Inner::Sched, m: m_none,
            kinds: K_FF_ONLY, composition: true,
            run: |c, rep| {
                let sh = Shared::new(c.inner);
                let p1 = c.p1;
                let _ = p1;
                let exp = codes(ex_bin(stringify!($b), items_of(c.scripts[0]), ex_un(stringify!($u), p1, items_of(c.scripts[1]))));
                let a = ScriptPull::<i32, true>::new(&sh, 0, c.scripts[0], c.mode, |x| x);
                let b = ScriptPull::<i32, true>::new(&sh, 1, c.scripts[1], c.mode, |x| x);
                let (tr, fused) = go!(bb!($b, a, bu!($u, b, p1, sh)), c, sh, exp.len());
                finish(rep, c, &tr, &exp, fused, &sh);
            },
        });
    };
}
macro_rules! bu_row {
    ($v:ident, $b:ident, [$($u:ident),*]) => { $( bu_l!($v, $b, $u); )* };
}
macro_rules! bu_all {
    ($v:ident, [$($b:ident),*], $us:tt) => { $( bu_row!($v, $b, $us); )* };
}

// ---------------------------------------------------------------------------------------------
// Helpers for the future-shaped families

/// Judge a terminal future: every `Poll::Pending` consumed >= 1 scripted Pending; completion within cap.
fn judge_future_polls(rep: &mut Reporter, c: &Case, polls: &[(bool, u32)], done: bool) -> bool {
    rep.eval();
    if !done {
        rep.violation(&format!("C11|{}|step-cap-reached", c.fam), &format!("future not complete after {} polls", polls.len()), c.to_json());
        return false;
    }
    for (i, (ready, d)) in polls.iter().enumerate() {
        if !ready {
            rep.eval();
            if *d == 0 {
                rep.violation(&format!("C11|{}|spurious-pending", c.fam), &format!("poll #{i} returned Pending although nothing scripted answered Pending"), c.to_json());
            }
        }
    }
    true
}

fn judge_items(rep: &mut Reporter, c: &Case, got: &[Code], exp: &[Code]) {
    rep.eval();
    if got != exp {
        let kind = if got.len() < exp.len() && exp.starts_with(got) {
            "items-missing"
        } else if got.len() > exp.len() && got.starts_with(exp) {
            "items-extra"
        } else {
            "items-differ"
        };
        rep.violation(
            &format!("C11|{}|{kind}", c.fam),
            &format!("expected {:?} got {:?}", exp.iter().map(|x| x.show()).collect::<Vec<_>>(), got.iter().map(|x| x.show()).collect::<Vec<_>>()),
            c.to_json(),
        );
    }
}

fn judge_down(rep: &mut Reporter, c: &Case, log: &crate::script::DownLog, n_items: usize) {
    rep.eval();
    let sig = |k: &str| format!("C11|{}|{k}", c.fam);
    if log.send_without_ready > 0 {
        rep.violation(&sig("start_send-without-ready"), &format!("{} sends without a preceding poll_ready->Done", log.send_without_ready), c.to_json());
    }
    if log.send_after_finalize > 0 {
        rep.violation(&sig("start_send-after-finalize"), "item sent after finalize/close began", c.to_json());
    }
    if log.finalize_done != 1 {
        rep.violation(&sig("finalize-not-exactly-once"), &format!("finalize/close completed {} times before the future resolved", log.finalize_done), c.to_json());
    }
    for h in &log.hints {
        rep.eval();
        if h.0 > n_items || h.1.is_some_and(|u| u < n_items) {
            rep.violation(&sig("forwarded-size_hint-wrong"), &format!("hint {:?} forwarded downstream but {} items were sent", h, n_items), c.to_json());
        }
    }
}

// ---------------------------------------------------------------------------------------------
// The catalogue

pub fn catalogue() -> Vec<Entry> {
    let mut v: Vec<Entry> = vec![];

    // ---- single-input adapters
    unary!(v, "map", P0, Inner::None, m_none, |x| x, |a, c, sh| a.map(|x: i32| x * 7 + 1), |it| it.map(|x| x * 7 + 1));
    unary!(v, "filter", MASKS, Inner::None, m_none, |x| x, |a, c, sh| { let p = c.p1; a.filter(move |x: &i32| pm(p, *x)) }, |it| it.filter(|x| pm(c.p1, *x)));
    unary!(v, "filter_map", MASKS, Inner::None, m_none, |x| x,
        |a, c, sh| { let p = c.p1; a.filter_map(move |x: i32| if pm(p, x) { Some((x, x + 10)) } else { None }) },
        |it| it.filter_map(|x| if pm(c.p1, x) { Some((x, x + 10)) } else { None }));
    unary!(v, "flat_map", &[0, 1], Inner::None, m_none, |x| x,
        |a, c, sh| { let p = c.p1; a.flat_map(move |x: i32| if p == 0 { rep_vec(x) } else { rep_vec(2 - x) }) },
        |it| it.flat_map(|x| if c.p1 == 0 { rep_vec(x) } else { rep_vec(2 - x) }));
    unary!(v, "flatten", P0, Inner::None, m_none, rep_vec, |a, c, sh| a.flatten(), |it| it.map(rep_vec).flatten());
    unary!(v, "enumerate", P0, Inner::None, m_none, |x| x, |a, c, sh| a.enumerate(), |it| it.enumerate());
    unary!(v, "skip", COUNTS, Inner::None, m_none, |x| x, |a, c, sh| a.skip(c.p1 as usize), |it| it.skip(c.p1 as usize));
    unary!(v, "skip_while", MASKS, Inner::None, m_none, |x| x, |a, c, sh| { let p = c.p1; a.skip_while(move |x: &i32| pm(p, *x)) }, |it| it.skip_while(|x| pm(c.p1, *x)));
    unary!(v, "take", COUNTS, Inner::None, m_none, |x| x, |a, c, sh| a.take(c.p1 as usize), |it| it.take(c.p1 as usize));
    unary!(v, "take_while", MASKS, Inner::None, m_none, |x| x, |a, c, sh| { let p = c.p1; a.take_while(move |x: &i32| pm(p, *x)) }, |it| it.take_while(|x| pm(c.p1, *x)));
    unary!(v, "by_ref", P0, Inner::None, m_none, |x| x, |a, c, sh| OwnedRef(a), |it| it);

    // inspect: the closure must see exactly the items, in order
    v.push(Entry {
        name: "inspect", arity: 1, p1: P0, inner: Inner::None, m: m_none, kinds: K_UN, composition: false,
        run: |c, rep| {
            let sh = Shared::new(c.inner);
            let exp = codes(items_of(c.scripts[0]));
            let seen = Rc::new(std::cell::RefCell::new(Vec::<i32>::new()));
            let (tr, fused) = with_input!(c, &sh, 0, |x| x, |a| {
                let s2 = seen.clone();
                go!(a.inspect(move |x: &i32| s2.borrow_mut().push(*x)), c, sh, exp.len())
            });
            finish(rep, c, &tr, &exp, fused, &sh);
            let end = tr.steps.iter().position(|s| s.kind == Kind::E).unwrap_or(tr.steps.len());
            let got: Vec<Code> = tr.steps[..end].iter().filter(|s| s.kind == Kind::R).map(|s| s.code).collect();
            rep.eval();
            if codes(seen.borrow().iter().copied()) != got {
                rep.violation("C11|inspect|closure-saw-different-items", &format!("closure saw {:?}", seen.borrow()), c.to_json());
            }
        },
    });

    // fuse: Ended forever and the upstream is never polled again after it ended
    v.push(Entry {
        name: "fuse", arity: 1, p1: P0, inner: Inner::None, m: m_none, kinds: K_UN, composition: false,
        run: |c, rep| {
            let sh = Shared::new(c.inner);
            let exp = codes(items_of(c.scripts[0]));
            let (tr, fused) = with_input!(c, &sh, 0, |x| x, |a| go!(Pull::fuse(a), c, sh, exp.len()));
            rep.eval();
            if !fused {
                rep.violation("C11|fuse|result-not-FusedPull", "Pull::fuse() returned a type that is not FusedPull", c.to_json());
            }
            finish(rep, c, &tr, &exp, fused, &sh);
            rep.eval();
            if sh.post_end_polls[0].get() > 0 {
                if c.kinds[0] == 0 {
                    rep.violation("C11|fuse|upstream-polled-after-end", &format!("non-fused upstream polled {} more times after it ended", sh.post_end_polls[0].get()), c.to_json());
                } else {
                    rep.count("fuse_repolled_fused_upstream(legal)");
                }
            }
        },
    });
    // fuse() of an already fused combinator (fuse_self! override): take(n).fuse()
    unary!(v, "take.fuse", COUNTS, Inner::None, m_none, |x| x, |a, c, sh| Pull::fuse(a.take(c.p1 as usize)), |it| it.take(c.p1 as usize));

    // ---- async-item adapters (inner futures / streams scripted by the inner schedule)
    unary!(v, "filter_map_async", MASKS, Inner::Sched, m_items, |x| x,
        |a, c, sh| { let p = c.p1; let s = sh.clone(); a.filter_map_async(move |x: i32| GateFuture::new(&s, if pm(p, x) { Some(x + 10) } else { None }, Some(POISON))) },
        |it| it.filter_map(|x| if pm(c.p1, x) { Some(x + 10) } else { None }));
    unary!(v, "flat_map_stream", P0, Inner::Sched, m_streams, |x| x,
        |a, c, sh| { let s = sh.clone(); a.flat_map_stream(move |x: i32| GateStream::new(&s, rep_vec(x))) },
        |it| it.flat_map(rep_vec));
    v.push(Entry {
        name: "flatten_stream", arity: 1, p1: P0, inner: Inner::Sched, m: m_streams, kinds: K_UN, composition: false,
        run: |c, rep| {
            let sh = Shared::new(c.inner);
            let exp = codes(items_of(c.scripts[0]).into_iter().flat_map(rep_vec));
            let s = sh.clone();
            let conv = move |x: i32| GateHolder::new(&s, rep_vec(x));
            let (tr, fused) = with_input!(c, &sh, 0, conv.clone(), |a| go!(a.map(|h: GateHolder| h.into_stream()).flatten_stream(), c, sh, exp.len()));
            finish(rep, c, &tr, &exp, fused, &sh);
        },
    });

    // ---- sources
    v.push(Entry {
        name: "iter", arity: 1, p1: P0, inner: Inner::None, m: m_none, kinds: &[[2, 0]], composition: false,
        run: |c, rep| {
            let sh = Shared::new(c.inner);
            let items = items_of(c.scripts[0]);
            let exp = codes(items.clone());
            let (tr, fused) = go!(pull::iter(items), c, sh, exp.len());
            finish(rep, c, &tr, &exp, fused, &sh);
        },
    });
    v.push(Entry {
        name: "once/empty/repeat", arity: 1, p1: &[0, 1, 2, 3], inner: Inner::None, m: m_none, kinds: &[[2, 0]], composition: false,
        run: |c, rep| {
            let sh = Shared::new(c.inner);
            let x = items_of(c.scripts[0]).first().copied().unwrap_or(9);
            match c.p1 {
                0 => {
                    let exp = codes([x]);
                    let (tr, fused) = go!(pull::once(x), c, sh, 1);
                    finish(rep, c, &tr, &exp, fused, &sh);
                }
                1 => {
                    let (tr, fused) = go!(pull::empty::<i32>(), c, sh, 0);
                    finish(rep, c, &tr, &[], fused, &sh);
                }
                2 => {
                    // repeat never ends: observe it through take(n)
                    let n = items_of(c.scripts[0]).len();
                    let exp = codes(std::iter::repeat(x).take(n));
                    let (tr, fused) = go!(pull::repeat(x).take(n), c, sh, n);
                    finish(rep, c, &tr, &exp, fused, &sh);
                    // and directly: n pulls, all Ready(x), hint (usize::MAX, None)
                    let mut p = std::pin::pin!(pull::repeat(x));
                    for _ in 0..n {
                        rep.eval();
                        let h = p.size_hint();
                        let st: PullStep<i32, (), No, No> = p.as_mut().pull(&mut ());
                        if !matches!(st, PullStep::Ready(y, ()) if y == x) || h.1.is_some() {
                            rep.violation("C11|repeat|wrong-step", &format!("hint {h:?}"), c.to_json());
                        }
                    }
                }
                _ => {
                    // pending(): always Pending, yields nothing
                    let mut p = std::pin::pin!(pull::pending::<i32>());
                    for _ in 0..4 {
                        rep.eval();
                        let h = p.size_hint();
                        let st: PullStep<i32, (), Yes, No> = p.as_mut().pull(&mut ());
                        if !st.is_pending() || h.0 != 0 {
                            rep.violation("C11|pending|wrong-step", &format!("hint {h:?}"), c.to_json());
                        }
                    }
                }
            }
        },
    });
    v.push(Entry {
        name: "from_fn", arity: 1, p1: P0, inner: Inner::None, m: m_none, kinds: &[[2, 0]], composition: false,
        run: |c, rep| {
            let sh = Shared::new(c.inner);
            let items = items_of(c.scripts[0]);
            let exp = codes(items.clone());
            let mut it = items.into_iter();
            let p = pull::from_fn(move || match it.next() {
                Some(x) => PullStep::<i32, (), No, Yes>::Ready(x, ()),
                None => PullStep::Ended(Yes),
            });
            let (tr, fused) = go!(p, c, sh, exp.len());
            finish(rep, c, &tr, &exp, fused, &sh);
        },
    });
    v.push(Entry {
        name: "poll_fn", arity: 1, p1: P0, inner: Inner::None, m: m_none, kinds: &[[0, 0]], composition: false,
        run: |c, rep| {
            let sh = Shared::new(c.inner);
            let exp = codes(items_of(c.scripts[0]));
            let mut evs = c.scripts[0].to_vec().into_iter();
            let s = sh.clone();
            let p = pull::poll_fn(move |_cx: &mut std::task::Context<'_>| match evs.next() {
                Some(Ev::It(x)) => PullStep::<i32, (), Yes, Yes>::Ready(x, ()),
                Some(Ev::Pend) => {
                    s.bump_pend();
                    PullStep::Pending(Yes)
                }
                None => PullStep::Ended(Yes),
            });
            let (tr, fused) = go!(p, c, sh, exp.len());
            finish(rep, c, &tr, &exp, fused, &sh);
        },
    });

    // ---- stream adapters
    v.push(Entry {
        name: "stream", arity: 1, p1: P0, inner: Inner::None, m: m_none, kinds: &[[1, 0], [0, 0]], composition: false,
        run: |c, rep| {
            let sh = Shared::new(c.inner);
            let exp = codes(items_of(c.scripts[0]));
            let (tr, fused) = if c.kinds[0] == 1 {
                go!(pull::stream(ScriptStream::<true>::new(&sh, 0, c.scripts[0], c.mode)), c, sh, exp.len())
            } else {
                go!(pull::stream(ScriptStream::<false>::new(&sh, 0, c.scripts[0], c.mode)), c, sh, exp.len())
            };
            finish(rep, c, &tr, &exp, fused, &sh);
        },
    });
    // stream_compat: the pull seen as a futures Stream; and stream(stream_compat(p)) back as a pull
    v.push(Entry {
        name: "stream_compat", arity: 1, p1: P0, inner: Inner::None, m: m_none, kinds: K_UN, composition: false,
        run: |c, rep| {
            let sh = Shared::new(c.inner);
            let exp = codes(items_of(c.scripts[0]));
            let tr = with_input!(c, &sh, 0, |x| x, |a| drive_stream(pull::stream_compat(a), &sh, c.cap(exp.len())));
            judge(rep, c, c.fam, &tr, &exp, &Opts { fused: false, lower: true });
            let sh = Shared::new(c.inner);
            let (tr, fused) = with_input!(c, &sh, 0, |x| x, |a| go!(pull::stream(pull::stream_compat(a)), c, sh, exp.len()));
            finish(rep, c, &tr, &exp, fused, &sh);
        },
    });
    // stream_ready: a stream Pending is reported as Ended ("non-blocking"); polling again continues.
    v.push(Entry {
        name: "stream_ready", arity: 1, p1: P0, inner: Inner::None, m: m_none, kinds: &[[1, 0]], composition: false,
        run: |c, rep| {
            let sh = Shared::new(c.inner);
            let script = c.scripts[0];
            let mut p = std::pin::pin!(pull::stream_ready(ScriptStream::<true>::new(&sh, 0, script, c.mode), std::task::Waker::noop().clone()));
            let total = items_of(script).len();
            let mut yielded = 0usize;
            for (i, ev) in script.iter().chain(std::iter::once(&Ev::Pend)).enumerate() {
                rep.eval();
                let h = p.size_hint();
                // documented: "If the stream returns Pending, this pull treats it as ended". What is
                // left of the stream brackets the hint (what is left until the next Ended is <= that).
                if h.0 > total - yielded || h.1.is_some_and(|u| u < run_len(script, i)) {
                    rep.violation("C11|stream_ready|size_hint-outside-stream-remaining", &format!("before pull #{i}: hint {h:?}, stream has {} left", total - yielded), c.to_json());
                }
                if h.0 > run_len(script, i) {
                    rep.count("stream_ready_lower_exceeds_items_before_next_Ended(documented-ambiguity)");
                }
                let st: PullStep<i32, (), No, Yes> = p.as_mut().pull(&mut ());
                let ok = match (ev, &st) {
                    (Ev::It(x), PullStep::Ready(y, ())) => {
                        yielded += 1;
                        x == y
                    }
                    (Ev::Pend, PullStep::Ended(_)) => true,
                    _ => false,
                };
                if !ok {
                    rep.violation("C11|stream_ready|wrong-step", &format!("pull #{i}: stream answered {ev:?} (last = end) but pull returned {}", if st.is_ready() { "Ready" } else { "Ended" }), c.to_json());
                    break;
                }
            }
        },
    });

    // ---- terminal futures
    v.push(Entry {
        name: "collect", arity: 1, p1: P0, inner: Inner::None, m: m_none, kinds: K_UN, composition: false,
        run: |c, rep| {
            let sh = Shared::new(c.inner);
            let exp = codes(items_of(c.scripts[0]));
            let (polls, out) = with_input!(c, &sh, 0, |x| x, |a| drive_future(a.collect::<Vec<i32>>(), &sh, c.cap(exp.len())));
            if judge_future_polls(rep, c, &polls, out.is_some()) {
                judge_items(rep, c, &codes(out.unwrap()), &exp);
            }
            common_post(rep, c, &sh);
        },
    });
    v.push(Entry {
        name: "for_each", arity: 1, p1: P0, inner: Inner::None, m: m_none, kinds: K_UN, composition: false,
        run: |c, rep| {
            let sh = Shared::new(c.inner);
            let exp = codes(items_of(c.scripts[0]));
            let mut got = vec![];
            let (polls, out) = with_input!(c, &sh, 0, |x| x, |a| drive_future(a.for_each(|x: i32| got.push(x)), &sh, c.cap(exp.len())));
            if judge_future_polls(rep, c, &polls, out.is_some()) {
                judge_items(rep, c, &codes(got), &exp);
            }
            common_post(rep, c, &sh);
        },
    });
    v.push(Entry {
        name: "next", arity: 1, p1: P0, inner: Inner::None, m: m_none, kinds: &[[1, 0], [0, 0]], composition: false,
        run: |c, rep| {
            let sh = Shared::new(c.inner);
            let exp = codes(items_of(c.scripts[0]));
            let cap = c.cap(exp.len());
            let mut got = vec![];
            let mut all_polls = vec![];
            let mut complete = false;
            let mut run = |p: &mut dyn FnMut() -> (Vec<(bool, u32)>, Option<Option<(i32, ())>>)| {
                for _ in 0..cap {
                    let (polls, out) = p();
                    all_polls.extend(polls);
                    match out {
                        Some(Some((x, ()))) => got.push(x),
                        Some(None) => {
                            complete = true;
                            break;
                        }
                        None => break,
                    }
                }
            };
            with_input01!(c, &sh, 0, |a| {
                let mut a = a;
                run(&mut || drive_future(a.by_ref().next(), &sh, cap))
            });
            if judge_future_polls(rep, c, &all_polls, complete) {
                judge_items(rep, c, &codes(got), &exp);
            }
            common_post(rep, c, &sh);
        },
    });
    v.push(Entry {
        name: "accumulate_all", arity: 1, p1: &[0, 1, 2], inner: Inner::None, m: m_none, kinds: K_UN, composition: false,
        run: |c, rep| {
            let sh = Shared::new(c.inner);
            // (key, value) = (x, position): order-sensitive accumulation
            let kv: Vec<(i32, i64)> = items_of(c.scripts[0]).into_iter().enumerate().map(|(i, x)| (x, i as i64 + 1)).collect();
            let mut exp: HashMap<i32, i64> = HashMap::new();
            for (k, val) in &kv {
                match (c.p1, exp.get_mut(k)) {
                    (0, None) => {
                        exp.insert(*k, 7 * 10 + val);
                    }
                    (_, None) => {
                        exp.insert(*k, if c.p1 == 2 { val + 100 } else { *val });
                    }
                    (_, Some(acc)) => *acc = acc.wrapping_mul(10).wrapping_add(*val),
                }
            }
            let mut pos = 0i64;
            let conv = move |x: i32| x;
            let mut map: HashMap<i32, i64> = HashMap::new();
            let cap = c.cap(kv.len());
            let (polls, out) = with_input!(c, &sh, 0, conv, |a| {
                let a = a.map(|x: i32| {
                    pos += 1;
                    (x, pos)
                });
                match c.p1 {
                    0 => {
                        let mut acc = pull::Fold::new(|| 7i64, |a: &mut i64, x: i64| *a = a.wrapping_mul(10).wrapping_add(x));
                        drive_future(pull::accumulate_all(&mut acc, &mut map, a), &sh, cap)
                    }
                    1 => {
                        let mut acc = pull::Reduce::new(|a: &mut i64, x: i64| *a = a.wrapping_mul(10).wrapping_add(x));
                        drive_future(pull::accumulate_all(&mut acc, &mut map, a), &sh, cap)
                    }
                    _ => {
                        let mut acc = pull::FoldFrom::new(|x: i64| x + 100, |a: &mut i64, x: i64| *a = a.wrapping_mul(10).wrapping_add(x));
                        drive_future(pull::accumulate_all(&mut acc, &mut map, a), &sh, cap)
                    }
                }
            });
            if judge_future_polls(rep, c, &polls, out.is_some()) {
                rep.eval();
                if map != exp {
                    rep.violation("C11|accumulate_all|table-differs", &format!("expected {exp:?} got {map:?}"), c.to_json());
                }
            }
            common_post(rep, c, &sh);
        },
    });
    v.push(Entry {
        name: "send_push", arity: 1, p1: P0, inner: Inner::Sched, m: m_down, kinds: K_UN, composition: false,
        run: |c, rep| {
            let sh = Shared::new(c.inner);
            let exp = codes(items_of(c.scripts[0]));
            let (push, log) = CheckPush::new(&sh);
            let (polls, out) = with_input!(c, &sh, 0, |x| x, |a| drive_future(a.send_push(push), &sh, c.cap(exp.len())));
            if judge_future_polls(rep, c, &polls, out.is_some()) {
                let log = log.borrow();
                judge_items(rep, c, &codes(log.items.iter().copied()), &exp);
                judge_down(rep, c, &log, exp.len());
            }
            common_post(rep, c, &sh);
        },
    });
    v.push(Entry {
        name: "send_sink", arity: 1, p1: P0, inner: Inner::Sched, m: m_down, kinds: K_UN, composition: false,
        run: |c, rep| {
            let sh = Shared::new(c.inner);
            let exp = codes(items_of(c.scripts[0]));
            let (sink, log) = CheckSink::new(&sh);
            let (polls, out) = with_input!(c, &sh, 0, |x| x, |a| drive_future(a.send_sink(sink), &sh, c.cap(exp.len())));
            if judge_future_polls(rep, c, &polls, out.is_some()) {
                let log = log.borrow();
                judge_items(rep, c, &codes(log.items.iter().copied()), &exp);
                judge_down(rep, c, &log, exp.len());
            }
            common_post(rep, c, &sh);
        },
    });

    // ---- two-input combinators
    v.push(Entry {
        name: "chain", arity: 2, p1: P0, inner: Inner::None, m: m_none, kinds: K_BIN_FIRST_FUSED, composition: false,
        run: |c, rep| {
            let sh = Shared::new(c.inner);
            let exp = codes(items_of(c.scripts[0]).into_iter().chain(items_of(c.scripts[1])));
            let (tr, fused) = with_fused_input!(c, &sh, 0, |x| x, |a| with_input!(c, &sh, 1, |x| x, |b| go!(a.chain(b), c, sh, exp.len())));
            finish(rep, c, &tr, &exp, fused, &sh);
        },
    });
    v.push(Entry {
        name: "zip", arity: 2, p1: P0, inner: Inner::None, m: m_none, kinds: K_BIN, composition: false,
        run: |c, rep| {
            let sh = Shared::new(c.inner);
            let exp = codes(items_of(c.scripts[0]).into_iter().zip(items_of(c.scripts[1])));
            let (tr, fused) = with_input!(c, &sh, 0, |x| x, |a| with_input!(c, &sh, 1, |x| x, |b| go!(a.zip(b), c, sh, exp.len())));
            finish(rep, c, &tr, &exp, fused, &sh);
        },
    });
    v.push(Entry {
        name: "zip_longest", arity: 2, p1: P0, inner: Inner::None, m: m_none, kinds: K_BIN_FF, composition: false,
        run: |c, rep| {
            let sh = Shared::new(c.inner);
            let exp = codes(ex_zip_longest(items_of(c.scripts[0]), items_of(c.scripts[1])));
            let (tr, fused) = with_fused_input!(c, &sh, 0, |x| x, |a| with_fused_input!(c, &sh, 1, |x| x, |b| go!(a.zip_longest(b), c, sh, exp.len())));
            finish(rep, c, &tr, &exp, fused, &sh);
        },
    });
    v.push(Entry {
        name: "cross_singleton", arity: 2, p1: P0, inner: Inner::None, m: m_none, kinds: K_BIN, composition: false,
        run: |c, rep| {
            let sh = Shared::new(c.inner);
            let single = items_of(c.scripts[1]).first().copied();
            let exp = codes(items_of(c.scripts[0]).into_iter().filter_map(|x| single.map(|s| (x, s))));
            let (tr, fused) = with_input!(c, &sh, 0, |x| x, |a| with_input!(c, &sh, 1, |x| x, |b| go!(a.cross_singleton(b), c, sh, exp.len())));
            finish(rep, c, &tr, &exp, fused, &sh);
        },
    });
    // external state; p1 = 1: the state is already filled (singleton input must not matter)
    v.push(Entry {
        name: "cross_singleton_state", arity: 2, p1: &[0, 1], inner: Inner::None, m: m_none, kinds: K_BIN, composition: false,
        run: |c, rep| {
            let sh = Shared::new(c.inner);
            let preset = if c.p1 == 1 { Some(5) } else { None };
            let single = preset.or(items_of(c.scripts[1]).first().copied());
            let exp = codes(items_of(c.scripts[0]).into_iter().filter_map(|x| single.map(|s| (x, s))));
            let mut state: Option<i32> = preset;
            let (tr, fused) = with_input!(c, &sh, 0, |x| x, |a| with_input!(c, &sh, 1, |x| x, |b| go!(a.cross_singleton_state(b, &mut state), c, sh, exp.len())));
            finish(rep, c, &tr, &exp, fused, &sh);
            rep.eval();
            // the state is only left empty if the singleton side ended (or was never asked) without an item
            if state != single && !(state.is_none() && tr.steps.iter().all(|s| s.kind != Kind::R)) {
                rep.violation("C11|cross_singleton_state|state-not-cached", &format!("state {state:?}, first singleton item {single:?}"), c.to_json());
            }
        },
    });
    v.push(Entry {
        name: "either", arity: 2, p1: &[0, 1], inner: Inner::None, m: m_none, kinds: &[[1, 1], [0, 0], [1, 0], [0, 1]], composition: false,
        run: |c, rep| {
            let sh = Shared::new(c.inner);
            let side = c.p1 as usize;
            let exp = codes(items_of(c.scripts[side]));
            let (tr, fused) = with_input01!(c, &sh, 0, |a| with_input01!(c, &sh, 1, |b| {
                let e = if side == 0 { Either::Left(a) } else { Either::Right(b) };
                go!(e, c, sh, exp.len())
            }));
            finish(rep, c, &tr, &exp, fused, &sh);
        },
    });

    // ---- a few hand-picked compositions with type requirements the uniform macros cannot meet
    v.push(Entry {
        name: "chain(fuse(take_while(a)),b)", arity: 2, p1: P0, inner: Inner::Sched, m: m_none, kinds: &[[0, 0], [1, 1], [0, 1], [1, 0]], composition: true,
        run: |c, rep| {
            let sh = Shared::new(c.inner);
            let p1 = c.p1;
            let exp = codes(ex_bin("chain", ex_un("take_while", p1, items_of(c.scripts[0])), items_of(c.scripts[1])));
            let (tr, fused) = with_input01!(c, &sh, 0, |a| with_input01!(c, &sh, 1, |b| go!(Pull::fuse(a.take_while(move |x: &i32| pm(p1, *x))).chain(b), c, sh, exp.len())));
            finish(rep, c, &tr, &exp, fused, &sh);
        },
    });
    v.push(Entry {
        name: "zip_longest(fuse(a),fuse(zip(a',b)))", arity: 2, p1: P0, inner: Inner::Sched, m: m_none, kinds: &[[0, 0], [1, 1], [0, 1], [1, 0]], composition: true,
        run: |c, rep| {
            let sh = Shared::new(c.inner);
            let ia = items_of(c.scripts[0]);
            let ib = items_of(c.scripts[1]);
            let rev: Vec<i32> = ib.iter().rev().copied().collect();
            let exp = codes(ex_zip_longest(ia, ex_bin("zip", rev.clone(), ib)).into_iter().map(eob));
            let (tr, fused) = with_input01!(c, &sh, 0, |a| with_input01!(c, &sh, 1, |b| {
                let z = pull::iter(rev.clone()).zip(b).map(|(a, b): (i32, i32)| a * 10 + b);
                go!(Pull::fuse(a).zip_longest(Pull::fuse(z)).map(eob), c, sh, exp.len())
            }));
            finish(rep, c, &tr, &exp, fused, &sh);
        },
    });
    v.push(Entry {
        name: "zip(stream(a),repeat)", arity: 1, p1: P0, inner: Inner::Sched, m: m_none, kinds: &[[1, 0], [0, 0]], composition: true,
        run: |c, rep| {
            let sh = Shared::new(c.inner);
            let exp = codes(items_of(c.scripts[0]).into_iter().map(|x| (x, 4)));
            let (tr, fused) = if c.kinds[0] == 1 {
                go!(pull::stream(ScriptStream::<true>::new(&sh, 0, c.scripts[0], c.mode)).zip(pull::repeat(4)), c, sh, exp.len())
            } else {
                go!(pull::stream(ScriptStream::<false>::new(&sh, 0, c.scripts[0], c.mode)).zip(pull::repeat(4)), c, sh, exp.len())
            };
            finish(rep, c, &tr, &exp, fused, &sh);
        },
    });

    // ---- depth-2 compositions over the uniform operators
    uu_all!(v, [map, filter, filter_map, flat_map, flatten, enumerate, skip, skip_while, take, take_while, fuse, fm_async, fm_stream],
               [map, filter, filter_map, flat_map, flatten, enumerate, skip, skip_while, take, take_while, fuse, fm_async, fm_stream]);
    ub_all!(v, [map, filter, filter_map, flat_map, flatten, enumerate, skip, skip_while, take, take_while, fuse, fm_async, fm_stream],
               [chain, zip, zip_longest, cross_singleton]);
    bu_all!(v, [chain, zip, zip_longest, cross_singleton], [filter, flat_map, skip, skip_while, take, fm_async, fm_stream]);
    bu_all!(v, [zip, cross_singleton], [take_while]);

    v
}

// ---------------------------------------------------------------------------------------------
// small adapters

/// Owns a pull and exposes it through `&mut P` (the `impl Pull for &mut P`, i.e. what `by_ref()` gives).
pub struct OwnedRef<P>(P);
impl<P: Pull + Unpin> Pull for OwnedRef<P> {
    type Ctx<'ctx> = P::Ctx<'ctx>;
    type Item = P::Item;
    type Meta = P::Meta;
    type CanPend = P::CanPend;
    type CanEnd = P::CanEnd;
    fn pull(self: std::pin::Pin<&mut Self>, ctx: &mut Self::Ctx<'_>) -> PullStep<Self::Item, Self::Meta, Self::CanPend, Self::CanEnd> {
        let this = self.get_mut();
        let mut r: &mut P = this.0.by_ref();
        std::pin::Pin::new(&mut r).pull(ctx)
    }
    fn size_hint(&self) -> (usize, Option<usize>) {
        let r: &P = &self.0;
        r.size_hint()
    }
}

/// Item type for flatten_stream: turns into a `GateStream` when taken by the combinator.
#[derive(Clone)]
pub struct GateHolder {
    sh: Rc<Shared>,
    items: Vec<i32>,
}
impl GateHolder {
    fn new(sh: &Rc<Shared>, items: Vec<i32>) -> Self {
        GateHolder { sh: sh.clone(), items }
    }
    fn into_stream(self) -> GateStream {
        GateStream::new(&self.sh, self.items)
    }
}

fn run_len(script: &[Ev], from: usize) -> usize {
    script.iter().skip(from).take_while(|e| matches!(e, Ev::It(_))).count()
}

/// Observe a `futures::Stream` (stream_compat) like a pull.
fn drive_stream<S: futures::Stream>(s: S, sh: &Shared, cap: usize) -> Trace
where
    S::Item: Enc,
{
    let mut s = std::pin::pin!(s);
    let mut cx = std::task::Context::from_waker(std::task::Waker::noop());
    let mut tr = Trace::default();
    loop {
        if tr.steps.len() >= cap {
            tr.cap_hit = true;
            return tr;
        }
        let hint = s.size_hint();
        let before = sh.pend.get();
        let r = s.as_mut().poll_next(&mut cx);
        let pend_delta = (sh.pend.get() - before) as u32;
        let (kind, code) = match r {
            std::task::Poll::Ready(Some(x)) => (Kind::R, x.code()),
            std::task::Poll::Ready(None) => (Kind::E, Code::default()),
            std::task::Poll::Pending => (Kind::P, Code::default()),
        };
        tr.steps.push(Step { hint, kind, code, pend_delta });
        if kind == Kind::E {
            return tr;
        }
    }
}
