//! Monitor for the pull side of `dfir_pipes`:
//!   C11 — pull combinators == iterator adapters under every Pending placement (+ fused / size_hint /
//!         progress rules);
//!   C13 — symmetric hash join == relational join (incremental, new-tick and multi-tick paths).

mod c11;
mod c13;
mod drive;
mod script;

use std::cell::RefCell;
use std::collections::{HashMap, HashSet};

use vcommon::{Args, Reporter, Rng, Tier, Value, catch, hash_of, json};

use crate::c11::{Entry, Inner, catalogue};
use crate::drive::{Case, Out};
use crate::script::{Ev, items_of, pend_between_items, pends_of};

// ---------------------------------------------------------------------------------------------
// enumeration helpers

/// All ways to put <= k indistinguishable tokens into `gaps` slots (counts per slot).
pub fn placements(gaps: usize, k: usize) -> Vec<Vec<u8>> {
    fn rec(gaps: usize, left: usize, cur: &mut Vec<u8>, out: &mut Vec<Vec<u8>>) {
        if cur.len() == gaps {
            out.push(cur.clone());
            return;
        }
        for n in 0..=left {
            cur.push(n as u8);
            rec(gaps, left - n, cur, out);
            cur.pop();
        }
    }
    let mut out = vec![];
    if gaps == 0 {
        return vec![vec![]];
    }
    rec(gaps, k, &mut vec![], &mut out);
    out
}

pub fn weave(items: &[i32], place: &[u8]) -> Vec<Ev> {
    let mut s = vec![];
    for (g, &n) in place.iter().enumerate() {
        for _ in 0..n {
            s.push(Ev::Pend);
        }
        if g < items.len() {
            s.push(Ev::It(items[g]));
        }
    }
    s
}

/// Every item sequence of length <= max_len over {0,1,2} x every placement of <= k Pendings.
pub fn all_scripts(max_len: usize, k: usize) -> Vec<Vec<Ev>> {
    all_scripts_over(max_len, k, 3)
}

/// The same over the alphabet 0..alpha.
pub fn all_scripts_over(max_len: usize, k: usize, alpha: usize) -> Vec<Vec<Ev>> {
    let mut out = vec![];
    for n in 0..=max_len {
        let pl = placements(n + 1, k);
        for code in 0..alpha.pow(n as u32) {
            let mut c = code;
            let items: Vec<i32> = (0..n)
                .map(|_| {
                    let x = (c % alpha) as i32;
                    c /= alpha;
                    x
                })
                .collect();
            for p in &pl {
                out.push(weave(&items, p));
            }
        }
    }
    out
}

/// Every placement of <= k Pendings for every length <= max_len; item values rotate with `salt`.
fn pattern_scripts(max_len: usize, k: usize, salt: usize) -> Vec<Vec<Ev>> {
    let mut out = vec![];
    let mut ctr = salt;
    for n in 0..=max_len {
        for p in placements(n + 1, k) {
            let items: Vec<i32> = (0..n)
                .map(|j| {
                    ctr = ctr.wrapping_mul(31).wrapping_add(j + 7);
                    ((ctr >> 3) % 3) as i32
                })
                .collect();
            out.push(weave(&items, &p));
        }
    }
    out
}

fn sched_from_counts(counts: &[u8]) -> Vec<u32> {
    let mut v = vec![];
    for (o, &n) in counts.iter().enumerate() {
        for _ in 0..n {
            v.push(o as u32);
        }
    }
    v
}

fn random_script(rng: &mut Rng, max_items: usize, density_pct: u32) -> Vec<Ev> {
    let n = rng.below(max_items + 1);
    let mut s = vec![];
    for _ in 0..n {
        while rng.chance(density_pct, 100) && s.len() < 4 * max_items {
            s.push(Ev::Pend);
        }
        s.push(Ev::It(rng.below(3) as i32));
    }
    while rng.chance(density_pct, 100) && s.len() < 4 * max_items + 4 {
        s.push(Ev::Pend);
    }
    s
}

fn strip_pends(s: &[Ev]) -> Vec<Ev> {
    s.iter().copied().filter(|e| matches!(e, Ev::It(_))).collect()
}

// ---------------------------------------------------------------------------------------------
// per-entry statistics (kept out of the Reporter's string-keyed counters in the hot loop)

#[derive(Default, Clone)]
struct Stat {
    runs: u64,
    nontrivial: u64,
    panics: u64,
}

thread_local! {
    static STATS: RefCell<Vec<Stat>> = const { RefCell::new(Vec::new()) };
}

const DISTINCT_CAP: usize = 3_000_000;

thread_local! {
    /// (family, failure kind) pairs seen so far in this process.
    static SEEN: RefCell<HashSet<(String, String)>> = RefCell::new(HashSet::new());
    /// cache of blame probes: does base family F fail with kind K on the small probe space?
    static BLAME: RefCell<HashMap<(String, String), bool>> = RefCell::new(HashMap::new());
    static COUNTS: RefCell<HashMap<&'static str, u64>> = RefCell::new(HashMap::new());
}

/// Run one case, buffered. Panics of the code under test become findings.
fn run_buffered(e: &Entry, c: &Case) -> Out {
    let mut out = Out::default();
    if let Err(msg) = catch(|| (e.run)(c, &mut out)) {
        out.eval();
        let kind = if msg.starts_with("harness:") { "harness-panic" } else { "panic" };
        out.violation(&format!("C11|{}|{kind}", c.fam), &format!("panicked: {msg}"), c.to_json());
    }
    out
}

/// The base families a composition is built from, outermost first.
fn components(name: &str) -> Vec<&'static str> {
    const OPS: &[(&str, &str)] = &[
        ("fm_async", "filter_map_async"), ("fm_stream", "flat_map_stream"), ("filter_map", "filter_map"), ("flat_map", "flat_map"),
        ("skip_while", "skip_while"), ("take_while", "take_while"), ("zip_longest", "zip_longest"), ("cross_singleton", "cross_singleton"),
        ("enumerate", "enumerate"), ("flatten", "flatten"), ("filter", "filter"), ("chain", "chain"), ("stream", "stream"), ("repeat", "once/empty/repeat"),
        ("skip", "skip"), ("take", "take"), ("fuse", "fuse"), ("map", "map"), ("zip", "zip"),
    ];
    let mut found: Vec<(usize, &'static str)> = vec![];
    let mut masked: Vec<u8> = name.bytes().collect();
    for (tok, base) in OPS {
        // longest tokens first (the table is ordered so that prefixes come later); mask what was matched
        loop {
            let hay = String::from_utf8_lossy(&masked).to_string();
            match hay.find(tok) {
                Some(pos) => {
                    found.push((pos, base));
                    for b in &mut masked[pos..pos + tok.len()] {
                        *b = b'#';
                    }
                }
                None => break,
            }
        }
    }
    found.sort();
    found.into_iter().map(|(_, b)| b).collect()
}

/// Two failure kinds belong to the same oracle rule (the three `items-*` kinds are one rule: a wrong
/// item sequence looks "missing" / "extra" / "differ" depending on what is stacked on top).
fn same_rule(a: &str, b: &str) -> bool {
    a == b || (a.starts_with("items-") && b.starts_with("items-"))
}

/// Does base family `base` show failure `kind` on its own (earlier in this run, or on a small probe
/// space: all scripts of length <= 2 with <= 1 Pending, every parameter and inner placement)?
fn base_fails(cat: &[Entry], base: &str, kind: &str) -> bool {
    let key = (base.to_string(), kind.to_string());
    if SEEN.with(|s| s.borrow().iter().any(|(f, k)| f == base && same_rule(k, kind))) {
        return true;
    }
    if let Some(b) = BLAME.with(|b| b.borrow().get(&key).copied()) {
        return b;
    }
    let Some(e) = cat.iter().find(|e| e.name == base) else { return false };
    let scripts = all_scripts(2, 1);
    let empty: &[Ev] = &[];
    let rights: Vec<&[Ev]> = if e.arity == 2 { scripts.iter().map(|s| s.as_slice()).collect() } else { vec![empty] };
    let mut hit = false;
    'outer: for l in &scripts {
        for r in &rights {
            for &p1 in e.p1 {
                let probe = Case { fam: e.name, scripts: [l, r], kinds: e.kinds[0], p1, p2: 0, inner: &[], mode: 0 };
                let scheds: Vec<Vec<u32>> = if e.inner == Inner::Sched { placements((e.m)(&probe), 1).iter().map(|c| sched_from_counts(c)).collect() } else { vec![vec![]] };
                for inner in &scheds {
                    for &kinds in e.kinds {
                        let c = Case { inner, kinds, ..probe };
                        if !kinds_ok(kinds, &c, e.arity) {
                            continue;
                        }
                        let out = run_buffered(e, &c);
                        if out.findings.iter().any(|f| same_rule(f.sig.rsplit('|').next().unwrap_or(""), kind)) {
                            hit = true;
                            break 'outer;
                        }
                    }
                }
            }
        }
    }
    BLAME.with(|b| b.borrow_mut().insert(key, hit));
    hit
}

/// Hand the buffered result to the reporter. A failure of a *composition* whose kind is also shown by
/// one of its components on its own is attributed to that component (`C11|<component>|<kind>|composed`),
/// so that one root cause has one signature; otherwise the composition's own name is the site.
fn flush(cat: &[Entry], e: &Entry, out: Out, rep: &mut Reporter) {
    rep.evals(out.evals);
    if !out.counts.is_empty() {
        COUNTS.with(|m| {
            let mut m = m.borrow_mut();
            for n in out.counts {
                *m.entry(n).or_insert(0) += 1;
            }
        });
    }
    for f in out.findings {
        let kind = f.sig.rsplit('|').next().unwrap_or("").to_string();
        let mut sig = f.sig.clone();
        if e.composition {
            if let Some(base) = components(e.name).into_iter().find(|b| base_fails(cat, b, &kind)) {
                sig = format!("C11|{base}|{kind}|composed");
            }
        } else {
            SEEN.with(|s| s.borrow_mut().insert((e.name.to_string(), kind)));
        }
        rep.violation(&sig, &f.what, f.case);
    }
}

fn exec(cat: &[Entry], ei: usize, c: &Case, rep: &mut Reporter) {
    let e = &cat[ei];
    debug_assert_eq!(e.name, c.fam);
    let nontrivial = (0..e.arity as usize).any(|i| pend_between_items(c.scripts[i]));
    STATS.with(|s| {
        let mut s = s.borrow_mut();
        s[ei].runs += 1;
        if nontrivial {
            s[ei].nontrivial += 1;
        }
    });
    if nontrivial {
        if rep.distinct_count() < DISTINCT_CAP {
            rep.nontrivial(hash_of(&(c.fam, c.scripts, c.kinds, c.p1, c.p2, c.inner)));
        }
        rep.sample(|| c.to_json());
    }
    let out = run_buffered(e, c);
    if out.findings.iter().any(|f| f.sig.ends_with("panic")) {
        STATS.with(|s| s.borrow_mut()[ei].panics += 1);
    }
    flush(cat, e, out, rep);
}

fn kinds_ok(k: [u8; 2], c: &Case, arity: u8) -> bool {
    (0..arity as usize).all(|i| k[i] != 2 || pends_of(c.scripts[i]) == 0)
}

// ---------------------------------------------------------------------------------------------
// C11 workloads

fn run_c11(args: &Args) {
    let mut rep = Reporter::new("C11", args.seed);
    let cat = catalogue();
    STATS.with(|s| *s.borrow_mut() = vec![Stat::default(); cat.len()]);
    if let Some(case) = args.replay_case() {
        replay_c11(&cat, &case, &mut rep);
        rep.finish("replay", false);
        return;
    }
    let miri = args.tier == Tier::Miri;
    let mut rng = if miri { args.rng().fork(args.shard.0 as u64 + 1) } else { args.rng() };
    let thorough = args.tier == Tier::Thorough;
    let k = args.budget(2, 3, 1);
    let max_len = args.budget(4, 4, 2);
    let scripts = all_scripts(max_len, k);
    let scripts2 = if thorough { all_scripts(max_len, 2) } else { vec![] };
    let empty: &[Ev] = &[];
    let mut idx = 0usize;

    // ---- (1) single-input base combinators: every script x every parameter x every inner placement
    for (ei, e) in cat.iter().enumerate() {
        if e.composition || e.arity != 1 {
            continue;
        }
        if miri {
            continue;
        }
        for s in &scripts {
            for &p1 in e.p1 {
                let probe = Case { fam: e.name, scripts: [s, empty], kinds: e.kinds[0], p1, p2: 0, inner: &[], mode: 0 };
                let scheds: Vec<Vec<u32>> = if e.inner == Inner::Sched {
                    placements((e.m)(&probe), k).iter().map(|c| sched_from_counts(c)).collect()
                } else {
                    vec![vec![]]
                };
                for inner in &scheds {
                    for &kinds in e.kinds {
                        idx += 1;
                        let c = Case { inner, kinds, ..probe };
                        if !kinds_ok(kinds, &c, 1) {
                            continue;
                        }
                        exec(&cat, ei, &c, &mut rep);
                        // the same with a loose (but truthful) upstream size hint
                        exec(&cat, ei, &Case { mode: 1 + (idx % 3) as u8, ..c }, &mut rep);
                    }
                }
            }
        }
    }

    // ---- (2) two-input base combinators: product of scripts
    for (ei, e) in cat.iter().enumerate() {
        if e.composition || e.arity != 2 || miri {
            continue;
        }
        for (li, l) in scripts.iter().enumerate() {
            // quick: right side = every placement (values rotate); thorough: additionally every k<=2 script
            let pats = pattern_scripts(max_len, k, li);
            let rights = pats.iter().chain(scripts2.iter());
            for r in rights {
                for &p1 in e.p1 {
                    idx += 1;
                    let base = Case { fam: e.name, scripts: [l, r], kinds: e.kinds[0], p1, p2: 0, inner: &[], mode: 0 };
                    for (j, &kinds) in e.kinds.iter().enumerate() {
                        let primary = j < 2;
                        if !primary && (idx % (e.kinds.len() - 2)) != j - 2 {
                            continue;
                        }
                        let c = Case { kinds, mode: if primary { 0 } else { 1 + (idx % 3) as u8 }, ..base };
                        if !kinds_ok(kinds, &c, 2) {
                            continue;
                        }
                        exec(&cat, ei, &c, &mut rep);
                    }
                }
            }
        }
    }

    // ---- (3) depth-2 compositions: every script, sampled parameters / second input / inner schedule
    let draws = args.budget(2, 5, 0);
    for (ei, e) in cat.iter().enumerate() {
        if !e.composition || miri {
            continue;
        }
        let uses_inner = e.name.contains("fm_");
        for s in &scripts {
            for _ in 0..draws {
                idx += 1;
                let r: &[Ev] = if e.arity == 2 { &scripts[rng.below(scripts.len())] } else { empty };
                let inner: Vec<u32> = if uses_inner { (0..rng.below(3)).map(|_| rng.below(2 * s.len() + 3) as u32).collect() } else { vec![] };
                let kinds = e.kinds[idx % e.kinds.len()];
                let c = Case { fam: e.name, scripts: [s, r], kinds, p1: rng.below(8) as i64, p2: rng.below(8) as i64, inner: &inner, mode: (idx % 4) as u8 };
                if !kinds_ok(kinds, &c, e.arity) {
                    continue;
                }
                exec(&cat, ei, &c, &mut rep);
            }
        }
    }

    // ---- (4) random long runs over the whole catalogue
    let n_random = args.budget(20_000, 1_000_000, 0);
    for _ in 0..n_random {
        let ei = rng.below(cat.len());
        random_case(&cat, ei, &mut rng, 30, &mut rep);
    }

    // ---- Miri: a handful of small random cases per catalogue entry, sharded by entry
    if miri {
        for ei in 0..cat.len() {
            if !args.in_shard(ei) {
                continue;
            }
            // each shard does about the work of the single quick shard: more shards => more cases
            // compositions: every other one (alternating with the seed)
            if cat[ei].composition && (ei + args.seed as usize) % 2 == 1 {
                continue;
            }
            let n = (if cat[ei].composition { 1 } else { 2 }) * args.shard.1.max(1);
            for _ in 0..n {
                random_case(&cat, ei, &mut rng, 4, &mut rep);
            }
        }
    }

    // ---- coverage and minimum observation
    let stats = STATS.with(|s| s.borrow().clone());
    let mut per_family = serde_map();
    let mut never_run = vec![];
    let mut thin = vec![];
    let mut total_nontrivial = 0u64;
    for (ei, e) in cat.iter().enumerate() {
        let st = &stats[ei];
        total_nontrivial += st.nontrivial;
        per_family.insert(e.name.to_string(), json!({"runs": st.runs, "nontrivial": st.nontrivial, "panics": st.panics}));
        if st.runs == 0 {
            never_run.push(e.name);
        }
        let needs_pend = !matches!(e.name, "iter" | "once/empty/repeat" | "from_fn");
        if !miri && needs_pend && st.nontrivial < 50 {
            thin.push(e.name);
        }
    }
    COUNTS.with(|m| {
        for (k, v) in m.borrow().iter() {
            rep.count_n(k, *v);
        }
    });
    rep.extra("per_family", Value::Object(per_family));
    rep.extra("catalogue_size", json!(cat.len()));
    rep.extra("nontrivial_runs_total", json!(total_nontrivial));
    rep.extra("fused_postend_checks", json!(drive::fused_checks()));
    if !miri {
        rep.require(never_run.is_empty(), &format!("catalogue entries never run: {never_run:?}"));
        rep.require(thin.is_empty(), &format!("entries with < 50 non-trivial runs: {thin:?}"));
        rep.require(drive::fused_checks() > 10_000, "fewer than 10000 post-Ended (fused) observations");
    }
    rep.finish(
        "every catalogue entry (base combinators + depth-2 compositions) is run on every item sequence of length <=4 over {0,1,2} x every placement of <=2 (quick) / <=3 (thorough) Pendings per input (two-input: product of placements, item values of the second input rotating; thorough also the full product with all <=2-pending scripts), x every parameter (8 predicates / counts 0..5), x every placement of <=k Pendings among inner futures/streams/downstream answers, inputs fused / non-fused (poisoned after end) / sync iter, exact and loose truthful size hints; then random runs (<=30 items, Pending density 0-60%). Non-trivial = a Pending lies strictly between two Ready of the same input; distinct = distinct (family, scripts, kinds, params, inner schedule), counted up to a cap of 3e6 (total in extra.nontrivial_runs_total)",
        !miri,
    );
}

fn serde_map() -> vcommon::serde_json::Map<String, Value> {
    vcommon::serde_json::Map::new()
}

fn random_case(cat: &[Entry], ei: usize, rng: &mut Rng, max_items: usize, rep: &mut Reporter) {
    let e = &cat[ei];
    let dens = rng.below(61) as u32;
    let mut l = random_script(rng, max_items, dens);
    let dens_r = rng.below(61) as u32;
    let mut r = if e.arity == 2 { random_script(rng, max_items, dens_r) } else { vec![] };
    let kinds = *rng.choose(e.kinds);
    if kinds[0] == 2 {
        l = strip_pends(&l);
    }
    if kinds[1] == 2 {
        r = strip_pends(&r);
    }
    let p1 = if e.composition { rng.below(8) as i64 } else { *rng.choose(e.p1) };
    let mut c = Case { fam: e.name, scripts: [&l, &r], kinds, p1, p2: rng.below(8) as i64, inner: &[], mode: rng.below(4) as u8 };
    let m = if e.composition { 2 * l.len() + 3 } else { (e.m)(&c) };
    let inner: Vec<u32> = if e.inner == Inner::Sched && m > 0 { (0..rng.below(7)).map(|_| rng.below(m) as u32).collect() } else { vec![] };
    c.inner = &inner;
    exec(cat, ei, &c, rep);
}

pub fn parse_script(v: &Value) -> Vec<Ev> {
    v.as_array().map(|a| a.iter().map(|x| match x.as_i64() { Some(i) => Ev::It(i as i32), None => Ev::Pend }).collect()).unwrap_or_default()
}

fn replay_c11(cat: &[Entry], case: &Value, rep: &mut Reporter) {
    let fam = case["family"].as_str().unwrap_or("").to_string();
    let Some(ei) = cat.iter().position(|e| e.name == fam) else {
        eprintln!("unknown family {fam}");
        std::process::exit(3);
    };
    let s0 = parse_script(&case["scripts"][0]);
    let s1 = parse_script(&case["scripts"][1]);
    let inner: Vec<u32> = case["inner"].as_array().map(|a| a.iter().map(|x| x.as_u64().unwrap() as u32).collect()).unwrap_or_default();
    let c = Case {
        fam: cat[ei].name,
        scripts: [&s0, &s1],
        kinds: [case["kinds"][0].as_u64().unwrap_or(1) as u8, case["kinds"][1].as_u64().unwrap_or(1) as u8],
        p1: case["p1"].as_i64().unwrap_or(0),
        p2: case["p2"].as_i64().unwrap_or(0),
        inner: &inner,
        mode: case["mode"].as_u64().unwrap_or(0) as u8,
    };
    let _ = items_of(&s0);
    exec(cat, ei, &c, rep);
}

fn main() {
    let args = Args::parse();
    match args.prop.as_str() {
        "NONE" => {}
        "C11" => run_c11(&args),
        "C13" => c13::run(&args),
        p => {
            eprintln!("mon_pull serves C11 and C13, not {p}");
            std::process::exit(3);
        }
    }
}
