//! C35 "Messages survive serialization and reach the addressed member".
//!
//! For every (flow shape, payload type) pair `build.rs` ran the production generator `generate_embedded`;
//! each generated location function exposes its raw network channels. This driver instantiates one generated
//! `Dfir` per process / cluster member, feeds inputs (and membership events) tick by tick, and plays the
//! transport itself: every frame a sender hands to its `EmbeddedNetworkOut` closure is carried to exactly the
//! receiver instance the frame is addressed to (for cluster-addressed channels: the member whose
//! `TaglessMemberId` equals the tag the generated code emitted, nobody else), tagged with the sender's id where
//! the receiver expects a tag, with random per-link delays and interleavings that preserve per-link FIFO
//! (what a TCP transport gives). The oracle then compares what every receiver instance emitted on its
//! `embedded_output` with what the scenario says it must receive.
pub mod emb {
    include!(concat!(env!("OUT_DIR"), "/all.rs"));
}

use std::cell::RefCell;
use std::collections::{BTreeMap, HashMap, VecDeque};
use std::rc::Rc;

use dfir_rs::bytes::{Bytes, BytesMut};
use dfir_rs::scheduled::context::{Dfir, TickClosure};
use hv_common::Feed;
use hv_net_flows::{Dst, PInt, POptVec, PStr, Rec, Routed, Shape, Src};
use hydro_lang::location::member_id::TaglessMemberId;
use hydro_lang::location::{MemberId, MembershipEvent};
use hydro_lang::runtime_support::bincode;
use serde::de::DeserializeOwned;
use serde::{Deserialize, Serialize};
use vcommon::{Args, Reporter, Rng, Tier, Value, catch, hash_of, json, serde_json};

// =================================================================================================
// scenario description (self-contained: it is the replay descriptor)

#[derive(Serialize, Deserialize, Clone, Debug)]
enum Round<T> {
    /// Membership events of the destination cluster, shown to every sender instance in this round.
    Mem(Vec<(u32, bool)>),
    /// `Data[s]` = what sender instance `s` is fed in this round; the `Option<u32>` is the raw id of the
    /// addressed member for demux flows, `None` otherwise.
    Data(Vec<Vec<(Option<u32>, T)>>),
}

#[derive(Serialize, Deserialize, Clone, Debug)]
struct Scenario<T> {
    entry: String,
    /// raw ids of the sending cluster's members (empty: the sender is a process)
    src_ids: Vec<u32>,
    /// raw ids of the receiving cluster's members (empty: the receiver is a process)
    dst_ids: Vec<u32>,
    rounds: Vec<Round<T>>,
    /// seed of the transport's delay / interleaving choices
    net_seed: u64,
}

#[derive(Clone, Copy, PartialEq, Eq, Debug)]
enum Mode {
    Plain,
    Demux,
    Bcast,
}

#[derive(Clone, Copy, Debug)]
struct Meta {
    entry: &'static str,
    flow: &'static str,
    payload: &'static str,
    ser: &'static str,
    snd_cluster: bool,
    rcv_cluster: bool,
    mode: Mode,
    selfid: bool,
}

type Wire<W> = Rc<RefCell<Vec<(Option<TaglessMemberId>, W)>>>;
type OutBuf<T> = Rc<RefCell<Vec<(Option<TaglessMemberId>, T)>>>;
type SideBuf = Rc<RefCell<Vec<(TaglessMemberId, TaglessMemberId)>>>;

#[derive(Default, Debug)]
struct DriveLog {
    /// per sender instance: the destination tags it put on the wire, in emission order
    wire_tags: Vec<Vec<Option<u32>>>,
    /// (sender, raw id) of frames whose tag matched no receiver instance (dropped by the transport)
    undeliverable: Vec<(usize, u32)>,
    /// (sender, raw id) of broadcast frames addressed to a member whose `Left` event had been fed in an
    /// earlier tick when the frame was emitted (dropped by the transport, judged by the oracle)
    to_left: Vec<(usize, u32)>,
    frames: u64,
}

struct Observed<T> {
    /// per receiver instance, in output order: (sender tag seen by the program, value)
    recv: Vec<Vec<(Option<TaglessMemberId>, T)>>,
    /// (transport tag, CLUSTER_SELF_ID stamped by the sender) pairs for the self-id flow
    side: Vec<(TaglessMemberId, TaglessMemberId)>,
    log: DriveLog,
}

// =================================================================================================
// the transport's view of the two serialization modes

trait Transport<W> {
    type In;
    type InTagged;
    fn plain(w: W) -> Self::In;
    fn tagged(from: TaglessMemberId, w: W) -> Self::InTagged;
}
/// `.bincode()`: the channel carries bytes.
struct Bin;
impl Transport<Bytes> for Bin {
    type In = Result<BytesMut, std::io::Error>;
    type InTagged = Result<(TaglessMemberId, BytesMut), std::io::Error>;
    fn plain(w: Bytes) -> Self::In {
        Ok(BytesMut::from(&w[..]))
    }
    fn tagged(from: TaglessMemberId, w: Bytes) -> Self::InTagged {
        Ok((from, BytesMut::from(&w[..])))
    }
}
/// `.embedded()`: the channel carries the raw payload.
struct Raw;
impl<T> Transport<T> for Raw {
    type In = T;
    type InTagged = (TaglessMemberId, T);
    fn plain(w: T) -> T {
        w
    }
    fn tagged(from: TaglessMemberId, w: T) -> (TaglessMemberId, T) {
        (from, w)
    }
}

trait TickDyn {
    fn tick(&mut self);
}
impl<X: TickClosure> TickDyn for Dfir<X> {
    fn tick(&mut self) {
        self.run_tick_sync();
    }
}

fn tagless(raw: u32) -> TaglessMemberId {
    TaglessMemberId::from_raw_id(raw)
}

/// Typed id of an addressed member, built through either public constructor.
fn mk_member<Tag>(raw: u32) -> MemberId<Tag> {
    if raw % 2 == 0 { MemberId::from_raw_id(raw) } else { MemberId::from_tagless(tagless(raw)) }
}

// =================================================================================================
// driving one scenario (generic part)

const EXTRA_ROUNDS: usize = 3;

#[allow(clippy::too_many_arguments)]
fn drive<T: Clone, W>(
    sc: &Scenario<T>,
    meta: &Meta,
    feed_in: &dyn Fn(usize, Option<u32>, T),
    feed_mem: &dyn Fn(usize, TaglessMemberId, MembershipEvent),
    senders: &mut [&mut dyn TickDyn],
    wires: &[Wire<W>],
    deliver: &dyn Fn(usize, usize, W),
    receivers: &mut [&mut dyn TickDyn],
) -> DriveLog {
    let mut rng = Rng::new(sc.net_seed);
    let ns = senders.len();
    let nr = receivers.len();
    let dst_index: HashMap<u32, usize> = sc.dst_ids.iter().enumerate().map(|(i, id)| (*id, i)).collect();
    let mut joined: HashMap<u32, bool> = HashMap::new();
    let mut links: Vec<Vec<VecDeque<W>>> = (0..nr).map(|_| (0..ns).map(|_| VecDeque::new()).collect()).collect();
    let mut log = DriveLog { wire_tags: vec![vec![]; ns], ..Default::default() };
    // the number of rounds is fixed by the scenario: no loop here can run longer than its input
    let total = sc.rounds.len() + EXTRA_ROUNDS;
    for k in 0..total {
        match sc.rounds.get(k) {
            Some(Round::Mem(evs)) => {
                for s in 0..ns {
                    for (id, j) in evs {
                        feed_mem(s, tagless(*id), if *j { MembershipEvent::Joined } else { MembershipEvent::Left });
                    }
                }
            }
            Some(Round::Data(per)) => {
                for s in 0..ns {
                    for (d, t) in &per[s] {
                        feed_in(s, *d, t.clone());
                    }
                }
            }
            None => {}
        }
        for s in senders.iter_mut() {
            s.tick();
        }
        if let Some(Round::Mem(evs)) = sc.rounds.get(k) {
            for (id, j) in evs {
                joined.insert(*id, *j);
            }
        }
        // pick up the frames: route by the tag the generated code emitted, and by nothing else
        for s in 0..ns {
            let frames: Vec<_> = wires[s].borrow_mut().drain(..).collect();
            for (tag, w) in frames {
                log.frames += 1;
                let raw = tag.as_ref().map(|t| t.get_raw_id());
                log.wire_tags[s].push(raw);
                let r = match raw {
                    None => 0,
                    Some(raw) => match dst_index.get(&raw) {
                        Some(r) => {
                            if meta.mode == Mode::Bcast && joined.get(&raw) == Some(&false) {
                                log.to_left.push((s, raw));
                                continue;
                            }
                            *r
                        }
                        None => {
                            log.undeliverable.push((s, raw));
                            continue;
                        }
                    },
                };
                links[r][s].push_back(w);
            }
        }
        // deliver a random amount per link, interleaving links at random (per-link FIFO is kept)
        let flush = k >= sc.rounds.len();
        for r in 0..nr {
            let mut quota: Vec<usize> = (0..ns)
                .map(|s| {
                    let len = links[r][s].len();
                    if flush || len == 0 || rng.chance(1, 2) { len } else { rng.below(len + 1) }
                })
                .collect();
            loop {
                let live: Vec<usize> = (0..ns).filter(|s| quota[*s] > 0).collect();
                if live.is_empty() {
                    break;
                }
                let s = *rng.choose(&live);
                quota[s] -= 1;
                let w = links[r][s].pop_front().expect("quota <= len");
                deliver(r, s, w);
            }
        }
        for r in receivers.iter_mut() {
            r.tick();
        }
    }
    log
}

// =================================================================================================
// instantiating the generated code (one expansion per generated module)

macro_rules! in_item {
    (plain, $d:expr, $t:expr) => { $t };
    (bcast, $d:expr, $t:expr) => { $t };
    (demux, $d:expr, $t:expr) => { (mk_member::<Dst>($d.expect("demux message without destination")), $t) };
}
macro_rules! net_out_closure {
    (plain, $W:ty, $w:ident) => { move |x: $W| $w.borrow_mut().push((None, x)) };
    (bcast, $W:ty, $w:ident) => { move |x: (TaglessMemberId, $W)| $w.borrow_mut().push((Some(x.0), x.1)) };
    (demux, $W:ty, $w:ident) => { move |x: (TaglessMemberId, $W)| $w.borrow_mut().push((Some(x.0), x.1)) };
}
macro_rules! mk_sender {
    (proc, plain, $gm:ident, $id:expr, $mem:expr, $inp:expr, $no:expr) => { $gm::sender($inp, $no) };
    (proc, demux, $gm:ident, $id:expr, $mem:expr, $inp:expr, $no:expr) => { $gm::sender($inp, $no) };
    (proc, bcast, $gm:ident, $id:expr, $mem:expr, $inp:expr, $no:expr) => {
        $gm::sender($gm::sender::EmbeddedMembershipStreams { receiver: $mem }, $inp, $no)
    };
    (clus, plain, $gm:ident, $id:expr, $mem:expr, $inp:expr, $no:expr) => { $gm::sender($id, $inp, $no) };
    (clus, demux, $gm:ident, $id:expr, $mem:expr, $inp:expr, $no:expr) => { $gm::sender($id, $inp, $no) };
    (clus, bcast, $gm:ident, $id:expr, $mem:expr, $inp:expr, $no:expr) => {
        $gm::sender($id, $gm::sender::EmbeddedMembershipStreams { receiver: $mem }, $inp, $no)
    };
    (clus_selfid, $mode:tt, $gm:ident, $id:expr, $mem:expr, $inp:expr, $no:expr) => {
        mk_sender!(clus, $mode, $gm, $id, $mem, $inp, $no)
    };
}
macro_rules! mk_receiver {
    (proc, $gm:ident, $id:expr, $out:expr, $ni:expr) => { $gm::receiver($out, $ni) };
    (clus, $gm:ident, $id:expr, $out:expr, $ni:expr) => { $gm::receiver($id, $out, $ni) };
}
// what the receiving program outputs depends on the kind of the *sender*: values from a process are bare,
// values from a cluster are keyed by the sender's typed member id
macro_rules! out_closure {
    (proc, $T:ty, $buf:ident, $side:ident) => { move |t: $T| $buf.borrow_mut().push((None, t)) };
    (clus, $T:ty, $buf:ident, $side:ident) => {
        move |x: (MemberId<Src>, $T)| $buf.borrow_mut().push((Some(x.0.into_tagless()), x.1))
    };
    (clus_selfid, $T:ty, $buf:ident, $side:ident) => {
        move |x: (MemberId<Src>, (MemberId<Src>, $T))| {
            let tag = x.0.into_tagless();
            let (stamped, t) = x.1;
            $side.borrow_mut().push((tag.clone(), stamped.into_tagless()));
            $buf.borrow_mut().push((Some(tag), t));
        }
    };
}
macro_rules! to_net_in {
    (proc, $Tr:ident, $W:ty, $from:expr, $w:expr) => { <$Tr as Transport<$W>>::plain($w) };
    (clus, $Tr:ident, $W:ty, $from:expr, $w:expr) => { <$Tr as Transport<$W>>::tagged($from, $w) };
    (clus_selfid, $Tr:ident, $W:ty, $from:expr, $w:expr) => { <$Tr as Transport<$W>>::tagged($from, $w) };
}

macro_rules! runner {
    ($name:ident, $T:ty, $W:ty, $Tr:ident, $snd:tt, $mode:tt, $rcv:tt) => {
        #[allow(unused_variables, non_snake_case)]
        fn $name(sc: &Scenario<$T>, meta: &Meta) -> Observed<$T> {
            use emb::$name as gm;
            let ids = |v: &Vec<u32>| -> Vec<TaglessMemberId> {
                if v.is_empty() { vec![tagless(0)] } else { v.iter().map(|r| tagless(*r)).collect() }
            };
            let src_ids = ids(&sc.src_ids);
            let dst_ids = ids(&sc.dst_ids);
            let (ns, nr) = (src_ids.len(), dst_ids.len());

            let in_feeds: Vec<Feed<_>> = (0..ns).map(|_| Feed::new()).collect();
            let mem_feeds: Vec<Feed<(TaglessMemberId, MembershipEvent)>> = (0..ns).map(|_| Feed::new()).collect();
            let wires: Vec<Wire<$W>> = (0..ns).map(|_| Rc::default()).collect();
            let mut net_outs: Vec<_> = wires
                .iter()
                .map(|w| {
                    let w = w.clone();
                    gm::sender::EmbeddedNetworkOut { ch: net_out_closure!($mode, $W, w) }
                })
                .collect();
            let mut senders: Vec<_> = net_outs
                .iter_mut()
                .enumerate()
                .map(|(i, no)| mk_sender!($snd, $mode, gm, &src_ids[i], mem_feeds[i].clone(), in_feeds[i].clone(), no))
                .collect();

            let net_feeds: Vec<Feed<_>> = (0..nr).map(|_| Feed::new()).collect();
            let bufs: Vec<OutBuf<$T>> = (0..nr).map(|_| Rc::default()).collect();
            let side: SideBuf = Rc::default();
            let mut outs: Vec<_> = bufs
                .iter()
                .map(|b| {
                    let b = b.clone();
                    let side = side.clone();
                    gm::receiver::EmbeddedOutputs { output: out_closure!($snd, $T, b, side) }
                })
                .collect();
            let mut receivers: Vec<_> = outs
                .iter_mut()
                .enumerate()
                .map(|(i, o)| {
                    mk_receiver!($rcv, gm, &dst_ids[i], o, gm::receiver::EmbeddedNetworkIn { ch: net_feeds[i].clone() })
                })
                .collect();

            let log = {
                let mut s_dyn: Vec<&mut dyn TickDyn> = senders.iter_mut().map(|d| d as &mut dyn TickDyn).collect();
                let mut r_dyn: Vec<&mut dyn TickDyn> = receivers.iter_mut().map(|d| d as &mut dyn TickDyn).collect();
                drive::<$T, $W>(
                    sc,
                    meta,
                    &|s, d, t| in_feeds[s].push_all([in_item!($mode, d, t)]),
                    &|s, id, ev| mem_feeds[s].push_all([(id, ev)]),
                    &mut s_dyn,
                    &wires,
                    &|r, s, w| net_feeds[r].push_all([to_net_in!($snd, $Tr, $W, src_ids[s].clone(), w)]),
                    &mut r_dyn,
                )
            };
            drop(receivers);
            drop(senders);
            Observed {
                recv: bufs.iter().map(|b| std::mem::take(&mut *b.borrow_mut())).collect(),
                side: std::mem::take(&mut *side.borrow_mut()),
                log,
            }
        }
    };
}
macro_rules! entry_runner {
    ($name:ident, $T:ty, bincode, $snd:tt, $mode:tt, $rcv:tt) => { runner!($name, $T, Bytes, Bin, $snd, $mode, $rcv); };
    ($name:ident, $T:ty, embedded, $snd:tt, $mode:tt, $rcv:tt) => { runner!($name, $T, $T, Raw, $snd, $mode, $rcv); };
}
macro_rules! is_clus {
    (proc) => { false };
    (clus) => { true };
    (clus_selfid) => { true };
}
macro_rules! is_selfid {
    (clus_selfid) => { true };
    ($x:tt) => { false };
}
macro_rules! mode_of {
    (plain) => { Mode::Plain };
    (demux) => { Mode::Demux };
    (bcast) => { Mode::Bcast };
}

struct Entry {
    meta: Meta,
    go: fn(&Meta, &Ctx, &mut Reporter, Option<&Value>),
}

macro_rules! entries {
    ($( ($name:ident, $flow:literal, $pay:literal, $T:ty, $ser:tt, $snd:tt, $mode:tt, $rcv:tt); )*) => {
        $( entry_runner!($name, $T, $ser, $snd, $mode, $rcv); )*
        fn all_entries() -> Vec<Entry> {
            vec![ $( Entry {
                meta: Meta {
                    entry: stringify!($name), flow: $flow, payload: $pay, ser: stringify!($ser),
                    snd_cluster: is_clus!($snd), rcv_cluster: is_clus!($rcv), mode: mode_of!($mode),
                    selfid: is_selfid!($snd),
                },
                go: |m: &Meta, ctx: &Ctx, rep: &mut Reporter, rp: Option<&Value>| run_entry::<$T>(m, $name, ctx, rep, rp),
            } ),* ]
        }
    };
}

type Keyed = (String, Rec);

entries! {
    (o2o_int, "o2o", "int", PInt, bincode, proc, plain, proc);
    (o2o_str, "o2o", "str", PStr, bincode, proc, plain, proc);
    (o2o_optvec, "o2o", "optvec", POptVec, bincode, proc, plain, proc);
    (o2o_shape, "o2o", "shape", Shape, bincode, proc, plain, proc);
    (o2o_rec, "o2o", "rec", Rec, bincode, proc, plain, proc);
    (o2o_routed, "o2o", "routed", Routed, bincode, proc, plain, proc);
    (o2o_raw_int, "o2o", "int", PInt, embedded, proc, plain, proc);
    (o2o_raw_rec, "o2o", "rec", Rec, embedded, proc, plain, proc);

    (o2m_demux_int, "o2m_demux", "int", PInt, bincode, proc, demux, clus);
    (o2m_demux_str, "o2m_demux", "str", PStr, bincode, proc, demux, clus);
    (o2m_demux_optvec, "o2m_demux", "optvec", POptVec, bincode, proc, demux, clus);
    (o2m_demux_shape, "o2m_demux", "shape", Shape, bincode, proc, demux, clus);
    (o2m_demux_rec, "o2m_demux", "rec", Rec, bincode, proc, demux, clus);
    (o2m_demux_routed, "o2m_demux", "routed", Routed, bincode, proc, demux, clus);
    (o2m_demux_raw_int, "o2m_demux", "int", PInt, embedded, proc, demux, clus);
    (o2m_demux_raw_rec, "o2m_demux", "rec", Rec, embedded, proc, demux, clus);
    (o2m_keyed_demux_str_rec, "o2m_demux", "keyed", Keyed, bincode, proc, demux, clus);

    (o2m_bcast_int, "o2m_bcast", "int", PInt, bincode, proc, bcast, clus);
    (o2m_bcast_str, "o2m_bcast", "str", PStr, bincode, proc, bcast, clus);
    (o2m_bcast_optvec, "o2m_bcast", "optvec", POptVec, bincode, proc, bcast, clus);
    (o2m_bcast_shape, "o2m_bcast", "shape", Shape, bincode, proc, bcast, clus);
    (o2m_bcast_rec, "o2m_bcast", "rec", Rec, bincode, proc, bcast, clus);
    (o2m_bcast_routed, "o2m_bcast", "routed", Routed, bincode, proc, bcast, clus);

    (m2o_int, "m2o", "int", PInt, bincode, clus, plain, proc);
    (m2o_str, "m2o", "str", PStr, bincode, clus, plain, proc);
    (m2o_optvec, "m2o", "optvec", POptVec, bincode, clus, plain, proc);
    (m2o_shape, "m2o", "shape", Shape, bincode, clus, plain, proc);
    (m2o_rec, "m2o", "rec", Rec, bincode, clus, plain, proc);
    (m2o_routed, "m2o", "routed", Routed, bincode, clus, plain, proc);
    (m2o_raw_int, "m2o", "int", PInt, embedded, clus, plain, proc);
    (m2o_raw_rec, "m2o", "rec", Rec, embedded, clus, plain, proc);
    (m2o_keyed_str_rec, "m2o", "keyed", Keyed, bincode, clus, plain, proc);
    (m2o_selfid_int, "m2o", "int", PInt, bincode, clus_selfid, plain, proc);

    (m2m_demux_int, "m2m_demux", "int", PInt, bincode, clus, demux, clus);
    (m2m_demux_str, "m2m_demux", "str", PStr, bincode, clus, demux, clus);
    (m2m_demux_optvec, "m2m_demux", "optvec", POptVec, bincode, clus, demux, clus);
    (m2m_demux_shape, "m2m_demux", "shape", Shape, bincode, clus, demux, clus);
    (m2m_demux_rec, "m2m_demux", "rec", Rec, bincode, clus, demux, clus);
    (m2m_demux_routed, "m2m_demux", "routed", Routed, bincode, clus, demux, clus);
    (m2m_demux_raw_int, "m2m_demux", "int", PInt, embedded, clus, demux, clus);
    (m2m_demux_raw_rec, "m2m_demux", "rec", Rec, embedded, clus, demux, clus);

    (m2m_bcast_int, "m2m_bcast", "int", PInt, bincode, clus, bcast, clus);
    (m2m_bcast_str, "m2m_bcast", "str", PStr, bincode, clus, bcast, clus);
    (m2m_bcast_optvec, "m2m_bcast", "optvec", POptVec, bincode, clus, bcast, clus);
    (m2m_bcast_shape, "m2m_bcast", "shape", Shape, bincode, clus, bcast, clus);
    (m2m_bcast_rec, "m2m_bcast", "rec", Rec, bincode, clus, bcast, clus);
    (m2m_bcast_routed, "m2m_bcast", "routed", Routed, bincode, clus, bcast, clus);
}

const FLOWS: [&str; 6] = ["o2o", "o2m_demux", "o2m_bcast", "m2o", "m2m_demux", "m2m_bcast"];
const PAYLOADS: [&str; 7] = ["int", "str", "optvec", "shape", "rec", "routed", "keyed"];

// =================================================================================================
// value generators

const ID_EDGES: [u32; 14] =
    [0, 1, 2, 3, 255, 256, 65_535, 65_536, 65_537, 0x7FFF_FFFF, 0x8000_0000, 0x8000_0001, u32::MAX - 1, u32::MAX];

fn gen_raw_id(rng: &mut Rng) -> u32 {
    match rng.below(4) {
        0 => rng.below(6) as u32,
        1 | 2 => *rng.choose(&ID_EDGES),
        _ => rng.next_u64() as u32,
    }
}

trait Gen: Sized + Clone + PartialEq + Serialize + DeserializeOwned + 'static {
    fn edges() -> Vec<Self>;
    fn gen_random(rng: &mut Rng, depth: u32) -> Self;
}

impl Gen for i64 {
    fn edges() -> Vec<i64> {
        vec![
            0, 1, -1, i64::MIN, i64::MAX, i64::MIN + 1, i64::MAX - 1, 127, 128, 250, 251, 252, 253, 254, 255, 256,
            65_535, 65_536, (1 << 31) - 1, 1 << 31, (1 << 32) - 1, 1 << 32, -(1 << 31) - 1, -128, -129,
        ]
    }
    fn gen_random(rng: &mut Rng, _d: u32) -> i64 {
        match rng.below(4) {
            0 => rng.range(-300, 300),
            1 => (rng.next_u64() >> rng.below(64)) as i64,
            2 => -((rng.next_u64() >> (1 + rng.below(63))) as i64),
            _ => rng.next_u64() as i64,
        }
    }
}

const CHARS: [char; 24] = [
    'a', 'b', 'Z', '0', ' ', '\0', '\n', '"', '\\', '\'', '\t', 'é', 'ß', 'Ω', '日', '本', '語', '🦀', '\u{10FFFF}', '\u{7f}',
    '\u{80}', '\u{7ff}', '\u{800}', '\u{ffff}',
];

impl Gen for String {
    fn edges() -> Vec<String> {
        vec![
            String::new(),
            " ".into(),
            "\0".into(),
            "\0\0x\0".into(),
            "a".into(),
            "é".into(),
            "日本語".into(),
            "🦀🦀".into(),
            "\u{10FFFF}".into(),
            "line\nbreak \"quoted\" \\ back".into(),
            "x".repeat(250),
            "x".repeat(251),
            "y".repeat(255),
            "z".repeat(256),
            "w".repeat(70_000),
            "語".repeat(100),
        ]
    }
    fn gen_random(rng: &mut Rng, _d: u32) -> String {
        let len = match rng.below(8) {
            0 => 0,
            1..=5 => rng.below(12),
            6 => rng.below(80),
            _ => 240 + rng.below(30),
        };
        (0..len).map(|_| *rng.choose(&CHARS)).collect()
    }
}

fn gen_len(rng: &mut Rng, depth: u32) -> usize {
    if depth == 0 {
        return rng.below(2);
    }
    match rng.below(6) {
        0 => 0,
        1..=3 => 1 + rng.below(3),
        4 => rng.below(8),
        _ => rng.below(20),
    }
}

impl<A: Gen, B: Gen> Gen for (A, B) {
    fn edges() -> Vec<(A, B)> {
        let (a, b) = (A::edges(), B::edges());
        (0..a.len().max(b.len())).map(|i| (a[i % a.len()].clone(), b[i % b.len()].clone())).collect()
    }
    fn gen_random(rng: &mut Rng, d: u32) -> (A, B) {
        (A::gen_random(rng, d), B::gen_random(rng, d))
    }
}
impl<A: Gen> Gen for Option<A> {
    fn edges() -> Vec<Option<A>> {
        let mut v = vec![None];
        v.extend(A::edges().into_iter().map(Some));
        v
    }
    fn gen_random(rng: &mut Rng, d: u32) -> Option<A> {
        if rng.chance(1, 4) { None } else { Some(A::gen_random(rng, d)) }
    }
}
impl<A: Gen> Gen for Vec<A> {
    fn edges() -> Vec<Vec<A>> {
        let e = A::edges();
        vec![vec![], vec![e[0].clone()], e.clone(), (0..300).map(|i| e[i % e.len()].clone()).collect()]
    }
    fn gen_random(rng: &mut Rng, d: u32) -> Vec<A> {
        (0..gen_len(rng, d)).map(|_| A::gen_random(rng, d.saturating_sub(1))).collect()
    }
}

fn nest_shape(depth: usize, inner: Shape) -> Shape {
    (0..depth).fold(inner, |s, i| if i % 3 == 2 { Shape::Many(vec![s]) } else { Shape::Nest(Box::new(s)) })
}

impl Gen for Shape {
    fn edges() -> Vec<Shape> {
        vec![
            Shape::Unit,
            Shape::One(0),
            Shape::One(i64::MIN),
            Shape::One(i64::MAX),
            Shape::Pair(-1, String::new()),
            Shape::Pair(i64::MAX, "🦀".into()),
            Shape::Named { x: None, tags: vec![] },
            Shape::Named { x: Some(i64::MIN), tags: vec![String::new(), "\0".into(), "t".repeat(300)] },
            Shape::Nest(Box::new(Shape::Unit)),
            Shape::Many(vec![]),
            Shape::Many(vec![Shape::Unit, Shape::Unit, Shape::One(1), Shape::Many(vec![])]),
            nest_shape(30, Shape::Named { x: Some(7), tags: vec!["deep".into()] }),
            nest_shape(30, Shape::Unit),
        ]
    }
    fn gen_random(rng: &mut Rng, d: u32) -> Shape {
        let k = if d == 0 { rng.below(4) } else { rng.below(6) };
        match k {
            0 => Shape::Unit,
            1 => Shape::One(i64::gen_random(rng, 0)),
            2 => Shape::Pair(i64::gen_random(rng, 0), String::gen_random(rng, 0)),
            3 => Shape::Named { x: Option::<i64>::gen_random(rng, 0), tags: Vec::<String>::gen_random(rng, d.min(1)) },
            4 => Shape::Nest(Box::new(Shape::gen_random(rng, d - 1))),
            _ => Shape::Many((0..gen_len(rng, d).min(5)).map(|_| Shape::gen_random(rng, d - 1)).collect()),
        }
    }
}

fn blank_rec() -> Rec {
    Rec {
        id: 0,
        name: String::new(),
        opt: None,
        items: vec![],
        shape: Shape::Unit,
        unit: (),
        flag: false,
        pair: (String::new(), (0, vec![])),
    }
}

impl Gen for Rec {
    fn edges() -> Vec<Rec> {
        let full = Rec {
            id: i64::MIN,
            name: "名前 \0 🦀".into(),
            opt: Some(Box::new(blank_rec())),
            items: vec![(i64::MAX, None), (i64::MIN, Some(String::new())), (0, Some("x".repeat(256)))],
            shape: nest_shape(8, Shape::Pair(-1, "p".into())),
            unit: (),
            flag: true,
            pair: ("k".into(), (i64::MAX, vec![None, Some(i64::MIN), Some(0), None])),
        };
        let chain = (0..25).fold(blank_rec(), |r, i| Rec { id: i, opt: Some(Box::new(r)), flag: i % 2 == 0, ..blank_rec() });
        let wide = Rec { items: (0..400).map(|i| (i, if i % 3 == 0 { None } else { Some(i.to_string()) })).collect(), ..blank_rec() };
        vec![
            blank_rec(),
            Rec { id: i64::MAX, flag: true, ..blank_rec() },
            Rec { id: -1, pair: (String::new(), (i64::MIN, vec![None])), ..blank_rec() },
            full.clone(),
            Rec { opt: Some(Box::new(full)), ..blank_rec() },
            chain,
            wide,
        ]
    }
    fn gen_random(rng: &mut Rng, d: u32) -> Rec {
        Rec {
            id: i64::gen_random(rng, 0),
            name: String::gen_random(rng, 0),
            opt: if d > 0 && rng.chance(1, 2) { Some(Box::new(Rec::gen_random(rng, d - 1))) } else { None },
            items: Vec::<(i64, Option<String>)>::gen_random(rng, d.min(1)),
            shape: Shape::gen_random(rng, d),
            unit: (),
            flag: rng.chance(1, 2),
            pair: (String::gen_random(rng, 0), (i64::gen_random(rng, 0), Vec::<Option<i64>>::gen_random(rng, d.min(1)))),
        }
    }
}

impl Gen for Routed {
    fn edges() -> Vec<Routed> {
        let mut v = vec![Routed { via: MemberId::from_raw_id(0), hops: vec![], reply_to: None, body: String::new() }];
        for (i, id) in ID_EDGES.iter().enumerate() {
            v.push(Routed {
                via: mk_member(*id),
                hops: ID_EDGES[..i].iter().rev().map(|h| mk_member(*h)).collect(),
                reply_to: if i % 2 == 0 { Some((mk_member(ID_EDGES[ID_EDGES.len() - 1 - i]), i64::MIN + i as i64)) } else { None },
                body: "b".repeat(i),
            });
        }
        v
    }
    fn gen_random(rng: &mut Rng, d: u32) -> Routed {
        Routed {
            via: mk_member(gen_raw_id(rng)),
            hops: (0..gen_len(rng, d)).map(|_| mk_member(gen_raw_id(rng))).collect(),
            reply_to: if rng.chance(1, 2) { Some((mk_member(gen_raw_id(rng)), i64::gen_random(rng, 0))) } else { None },
            body: String::gen_random(rng, 0),
        }
    }
}

// =================================================================================================
// scenario generator

struct Ctx {
    rng: Rng,
    cases: usize,
    tier: Tier,
}

fn pick_ids(rng: &mut Rng, n: usize, avoid: &[u32]) -> Vec<u32> {
    let mut v: Vec<u32> = vec![];
    while v.len() < n {
        let id = gen_raw_id(rng);
        if !v.contains(&id) && !avoid.contains(&id) {
            v.push(id);
        }
    }
    v
}

fn pick_count(rng: &mut Rng) -> usize {
    match rng.below(10) {
        0 => 1,
        1..=3 => 2,
        4..=7 => 3,
        _ => 4,
    }
}

/// An id that is not a member but looks like one: same low 16 bits / neighbour / index-like.
fn pick_unknown(rng: &mut Rng, dst: &[u32]) -> u32 {
    for _ in 0..64 {
        let m = *rng.choose(dst);
        let c = match rng.below(6) {
            0 => m ^ 0x1_0000,
            1 => m.wrapping_add(1),
            2 => m.wrapping_sub(1),
            3 => rng.below(dst.len() + 1) as u32,
            4 => m ^ 0x8000_0000,
            _ => gen_raw_id(rng),
        };
        if !dst.contains(&c) {
            return c;
        }
    }
    (0..=u32::MAX).find(|c| !dst.contains(c)).unwrap()
}

fn gen_value<T: Gen>(rng: &mut Rng, edges: &[T]) -> T {
    if rng.chance(3, 10) { rng.choose(edges).clone() } else { T::gen_random(rng, 3) }
}

fn gen_scenario<T: Gen>(meta: &Meta, rng: &mut Rng, case_idx: usize, tier: Tier) -> Scenario<T> {
    let edges = T::edges();
    let showcase = case_idx == 0;
    let ns = if meta.snd_cluster { if showcase { 3 } else { pick_count(rng) } } else { 0 };
    let nr = if meta.rcv_cluster { if showcase { 3 } else { pick_count(rng) } } else { 0 };
    let (src_ids, dst_ids) = if showcase {
        (pick_ids(rng, ns, &[]), if nr > 0 { vec![u32::MAX, 0, 65_536] } else { vec![] })
    } else {
        let src = pick_ids(rng, ns, &[]);
        // the two clusters are tagged differently, so they may (and sometimes do) use the same raw ids
        let dst = if ns == nr && nr > 0 && rng.chance(1, 5) { src.clone() } else { pick_ids(rng, nr, &[]) };
        (src, dst)
    };
    let senders = ns.max(1);
    let unknown: Vec<u32> = if meta.mode == Mode::Demux && !showcase && rng.chance(1, 4) {
        (0..1 + rng.below(2)).map(|_| pick_unknown(rng, &dst_ids)).collect()
    } else {
        vec![]
    };

    let mut rounds: Vec<Round<T>> = vec![];
    // membership plan (broadcast flows only): role 0 = there from the start, 1 = joins late, 2 = leaves
    // (and may come back); all of them are receiver instances
    let mut role: Vec<u32> = vec![0; nr];
    if meta.mode == Mode::Bcast {
        if !showcase {
            for r in role.iter_mut().skip(1) {
                *r = match rng.below(10) {
                    0 | 1 => 1,
                    2 | 3 => 2,
                    _ => 0,
                };
            }
        }
        let mut init: Vec<(u32, bool)> = (0..nr).filter(|r| role[*r] != 1).map(|r| (dst_ids[r], true)).collect();
        rng.shuffle(&mut init);
        if init.len() > 1 && rng.chance(1, 3) {
            let tail = init.split_off(1 + rng.below(init.len() - 1));
            rounds.push(Round::Mem(init));
            rounds.push(Round::Mem(tail));
        } else {
            rounds.push(Round::Mem(init));
        }
    }
    let data_rounds = if showcase { 2 } else { 1 + rng.below(4) };
    let big = tier == Tier::Thorough && rng.chance(1, 20);
    let mut edge_cursor = 0usize;
    let mut rr = 0usize;
    for k in 0..data_rounds {
        if meta.mode == Mode::Bcast && k > 0 {
            let mut evs = vec![];
            for r in 0..nr {
                let id = dst_ids[r];
                match role[r] {
                    1 if rng.chance(1, 2) => {
                        evs.push((id, true));
                        role[r] = 0;
                    }
                    2 if rng.chance(1, 2) => {
                        evs.push((id, false));
                        role[r] = 3;
                    }
                    3 if rng.chance(1, 3) => {
                        evs.push((id, true));
                        role[r] = 0;
                    }
                    _ => {}
                }
            }
            if !evs.is_empty() {
                rounds.push(Round::Mem(evs));
            }
        }
        let mut per: Vec<Vec<(Option<u32>, T)>> = vec![];
        for _s in 0..senders {
            let n = if showcase {
                edges.len().div_ceil(data_rounds * senders)
            } else if big {
                rng.below(60)
            } else if rng.chance(1, 6) {
                0
            } else {
                1 + rng.below(6)
            };
            let mut msgs = vec![];
            for _ in 0..n {
                let v = if showcase {
                    edge_cursor += 1;
                    edges[(edge_cursor - 1) % edges.len()].clone()
                } else {
                    gen_value(rng, &edges)
                };
                let d = if meta.mode == Mode::Demux {
                    Some(if showcase {
                        rr += 1;
                        dst_ids[(rr - 1) % dst_ids.len()]
                    } else if !unknown.is_empty() && rng.chance(1, 5) {
                        *rng.choose(&unknown)
                    } else {
                        *rng.choose(&dst_ids)
                    })
                } else {
                    None
                };
                msgs.push((d, v));
            }
            per.push(msgs);
        }
        rounds.push(Round::Data(per));
    }
    Scenario { entry: meta.entry.to_string(), src_ids, dst_ids, rounds, net_seed: rng.next_u64() }
}

// =================================================================================================
// oracle

fn js<T: Serialize>(t: &T) -> String {
    serde_json::to_string(t).unwrap_or_else(|e| format!("<unprintable: {e}>"))
}
fn short(s: &str) -> String {
    if s.chars().count() > 240 { format!("{}… ({} chars)", s.chars().take(240).collect::<String>(), s.chars().count()) } else { s.to_string() }
}

struct Facts {
    has_unknown: bool,
    has_late: bool,
    has_leaver: bool,
    big_ids: bool,
    values: u64,
}

fn facts<T>(meta: &Meta, sc: &Scenario<T>) -> Facts {
    let dst: std::collections::HashSet<u32> = sc.dst_ids.iter().copied().collect();
    let mut f = Facts { has_unknown: false, has_late: false, has_leaver: false, big_ids: false, values: 0 };
    f.big_ids = sc.src_ids.iter().chain(sc.dst_ids.iter()).any(|i| *i > u16::MAX as u32);
    let mut seen_data = false;
    for r in &sc.rounds {
        match r {
            Round::Mem(evs) => {
                for (_, j) in evs {
                    if *j && seen_data {
                        f.has_late = true;
                    }
                    if !*j {
                        f.has_leaver = true;
                    }
                }
            }
            Round::Data(per) => {
                seen_data = true;
                for m in per {
                    for (d, _) in m {
                        f.values += 1;
                        if let Some(d) = d {
                            if meta.mode == Mode::Demux && !dst.contains(d) {
                                f.has_unknown = true;
                            }
                        }
                    }
                }
            }
        }
    }
    f
}

/// Judge one executed scenario. Returns the number of (message, receiver) deliveries that were compared.
fn judge<T: Gen>(meta: &Meta, sc: &Scenario<T>, obs: &Observed<T>, rep: &mut Reporter) -> (u64, bool) {
    let ns = sc.src_ids.len().max(1);
    let nr = sc.dst_ids.len().max(1);
    let dst_index: HashMap<u32, usize> = sc.dst_ids.iter().enumerate().map(|(i, id)| (*id, i)).collect();
    let src_index: HashMap<u32, usize> = sc.src_ids.iter().enumerate().map(|(i, id)| (*id, i)).collect();
    let case = || json!({"engine": "hydro/hv_net_emb", "family": meta.entry, "scenario": serde_json::to_value(sc).unwrap()});
    let sig = |kind: &str| format!("C35|{}|{}", meta.entry, kind);
    let mut violated = false;

    // ---- what each receiver instance must see, per sender instance, in order
    let mut exp: Vec<Vec<Vec<&T>>> = vec![vec![vec![]; ns]; nr];
    let mut addressed: Vec<Vec<u32>> = vec![vec![]; ns];
    let mut joined: HashMap<u32, bool> = HashMap::new();
    for round in &sc.rounds {
        match round {
            Round::Mem(evs) => {
                for (id, j) in evs {
                    joined.insert(*id, *j);
                }
            }
            Round::Data(per) => {
                for s in 0..ns {
                    for (d, t) in &per[s] {
                        match meta.mode {
                            Mode::Plain => exp[0][s].push(t),
                            Mode::Demux => {
                                let d = d.expect("demux dest");
                                addressed[s].push(d);
                                if let Some(r) = dst_index.get(&d) {
                                    exp[*r][s].push(t);
                                }
                            }
                            Mode::Bcast => {
                                for (r, id) in sc.dst_ids.iter().enumerate() {
                                    if joined.get(id) == Some(&true) {
                                        exp[r][s].push(t);
                                    }
                                }
                            }
                        }
                    }
                }
            }
        }
    }

    // ---- what they did see, grouped by the sender tag the program reported
    let mut got: Vec<Vec<Vec<&T>>> = vec![vec![vec![]; ns]; nr];
    for r in 0..nr {
        for (tag, t) in &obs.recv[r] {
            rep.eval();
            let s = match (meta.snd_cluster, tag) {
                (false, None) => Some(0),
                (true, Some(tag)) => src_index.get(&tag.get_raw_id()).copied(),
                _ => None,
            };
            match s {
                Some(s) => got[r][s].push(t),
                None => {
                    violated = true;
                    rep.violation(
                        &sig("unknown-sender-tag"),
                        &format!(
                            "receiver #{r} (id {:?}) output a value tagged with sender {:?}, which is not a member of the sending cluster {:?}; value {}",
                            sc.dst_ids.get(r), tag, sc.src_ids, short(&js(t))
                        ),
                        case(),
                    );
                }
            }
        }
    }

    // ---- compare
    let mut compared = 0u64;
    let mut missing: Vec<(usize, usize, String)> = vec![];
    let mut extra: Vec<(usize, usize, String)> = vec![];
    let mut order_only: Option<(usize, usize)> = None;
    let mut first_diff: Option<String> = None;
    for r in 0..nr {
        for s in 0..ns {
            let (e, g) = (&exp[r][s], &got[r][s]);
            compared += e.len() as u64;
            rep.evals(e.len() as u64);
            if e.len() == g.len() && e.iter().zip(g.iter()).all(|(a, b)| a == b) {
                continue;
            }
            if first_diff.is_none() {
                let pos = e.iter().zip(g.iter()).position(|(a, b)| a != b).unwrap_or(e.len().min(g.len()));
                first_diff = Some(format!(
                    "receiver #{r} (id {:?}) from sender #{s} (id {:?}): expected {} values, got {}; first difference at position {pos}: expected {} got {}",
                    sc.dst_ids.get(r), sc.src_ids.get(s), e.len(), g.len(),
                    e.get(pos).map(|x| short(&js(x))).unwrap_or("<nothing>".into()),
                    g.get(pos).map(|x| short(&js(x))).unwrap_or("<nothing>".into()),
                ));
            }
            let mut bag: BTreeMap<String, i64> = BTreeMap::new();
            for x in e {
                *bag.entry(js(x)).or_insert(0) += 1;
            }
            for x in g {
                *bag.entry(js(x)).or_insert(0) -= 1;
            }
            let mut any = false;
            for (k, n) in bag {
                for _ in 0..n.max(0) {
                    missing.push((r, s, k.clone()));
                    any = true;
                }
                for _ in 0..(-n).max(0) {
                    extra.push((r, s, k.clone()));
                    any = true;
                }
            }
            if !any {
                order_only.get_or_insert((r, s));
            }
        }
    }
    if first_diff.is_some() {
        violated = true;
        let kind = if extra.iter().any(|(r, s, k)| missing.iter().any(|(r2, s2, k2)| r2 == r && s2 != s && k2 == k)) {
            "wrong-sender-tag"
        } else if extra.iter().any(|(r, _, k)| missing.iter().any(|(r2, _, k2)| r2 != r && k2 == k)) {
            "misrouted"
        } else if !extra.is_empty() && !missing.is_empty() {
            "value-mismatch"
        } else if !extra.is_empty() {
            "duplicate-or-spurious"
        } else if !missing.is_empty() {
            "lost"
        } else {
            "order"
        };
        rep.violation(
            &sig(kind),
            &format!(
                "{} [{} expected deliveries missing, {} unexpected; undeliverable frames {:?}]",
                first_diff.unwrap(),
                missing.len(),
                extra.len(),
                obs.log.undeliverable
            ),
            case(),
        );
    }

    // ---- destination tags on the wire
    match meta.mode {
        Mode::Demux => {
            for s in 0..ns {
                rep.eval();
                let mut a = addressed[s].clone();
                let mut w: Vec<u32> = obs.log.wire_tags[s].iter().map(|t| t.expect("demux frame without tag")).collect();
                a.sort();
                w.sort();
                if a != w {
                    violated = true;
                    rep.violation(
                        &sig("wire-dest-tag"),
                        &format!("sender #{s} (id {:?}) was asked to address {:?} (sorted) but put destination tags {:?} on the wire", sc.src_ids.get(s), a, w),
                        case(),
                    );
                }
            }
        }
        Mode::Bcast => {
            rep.eval();
            if !obs.log.undeliverable.is_empty() {
                violated = true;
                rep.violation(
                    &sig("broadcast-to-never-announced-id"),
                    &format!("broadcast frames were addressed to ids that never appeared in a membership event: {:?}", obs.log.undeliverable),
                    case(),
                );
            }
            // "Each element is only broadcast to the current cluster members at that point in time"
            rep.eval();
            if !obs.log.to_left.is_empty() {
                violated = true;
                rep.violation(
                    &sig("broadcast-to-left-member"),
                    &format!(
                        "broadcast frames (sender #, destination id) {:?} were emitted in a tick after the tick in which the destination's Left event was fed (and before any re-join)",
                        obs.log.to_left
                    ),
                    case(),
                );
            }
        }
        Mode::Plain => {}
    }

    // ---- CLUSTER_SELF_ID stamped by the sender == the id the instance was created with == transport tag
    if meta.selfid {
        for (tag, stamped) in &obs.side {
            rep.eval();
            if tag != stamped {
                violated = true;
                rep.violation(
                    &sig("self-id-mismatch"),
                    &format!("member created with id {tag:?} stamped its message with CLUSTER_SELF_ID = {stamped:?}"),
                    case(),
                );
            }
        }
    }
    (compared, violated)
}

fn one_case<T: Gen>(meta: &Meta, run: fn(&Scenario<T>, &Meta) -> Observed<T>, sc: &Scenario<T>, rep: &mut Reporter) {
    let f = facts(meta, sc);
    rep.count(&format!("cases:{}", meta.flow));
    rep.count(&format!("cases_ser:{}", meta.ser));
    match catch(|| run(sc, meta)) {
        Ok(obs) => {
            let (compared, violated) = judge(meta, sc, &obs, rep);
            rep.count_n(&format!("values:{}", meta.payload), f.values);
            rep.count_n("deliveries_compared", compared);
            rep.count_n("frames_on_wire", obs.log.frames);
            rep.count_n("frames_undeliverable_unknown_id", obs.log.undeliverable.len() as u64);
            rep.count_n("bcast_frames_to_left_member", obs.log.to_left.len() as u64);
            if f.has_unknown {
                rep.count("cases_with_unknown_destination");
            }
            if f.has_late {
                rep.count("cases_with_late_joiner");
            }
            if f.has_leaver {
                rep.count("cases_with_leaver");
            }
            if f.big_ids {
                rep.count("cases_with_ids_above_u16");
            }
            // non-trivial: a cluster with >= 2 members on at least one side and >= 2 compared deliveries
            // with different (sender, receiver) endpoints
            let mut ends = std::collections::HashSet::new();
            for (r, v) in obs.recv.iter().enumerate() {
                for (tag, _) in v {
                    ends.insert((r, tag.clone()));
                }
            }
            let members = sc.src_ids.len().max(sc.dst_ids.len());
            if members >= 2 && ends.len() >= 2 && !violated {
                rep.nontrivial(hash_of(&js(sc)));
                rep.count(&format!("nontrivial:{}", meta.flow));
            }
            rep.sample(|| {
                json!({"entry": meta.entry, "src_ids": sc.src_ids, "dst_ids": sc.dst_ids, "messages": f.values,
                       "rounds": sc.rounds.len(), "frames": obs.log.frames, "deliveries_compared": compared,
                       "undeliverable": obs.log.undeliverable.len()})
            });
        }
        Err(msg) => {
            if f.has_unknown {
                // nothing is documented about sends to an id that never joined; a refusal is an observation
                rep.count("panic_on_unknown_destination(observation)");
            } else {
                rep.violation(
                    &format!("C35|{}|panic", meta.entry),
                    &format!("generated code panicked: {}", short(&msg)),
                    json!({"engine": "hydro/hv_net_emb", "family": meta.entry, "scenario": serde_json::to_value(sc).unwrap()}),
                );
            }
        }
    }
}

fn run_entry<T: Gen>(
    meta: &Meta,
    run: fn(&Scenario<T>, &Meta) -> Observed<T>,
    ctx: &Ctx,
    rep: &mut Reporter,
    replay: Option<&Value>,
) {
    if let Some(case) = replay {
        let sc: Scenario<T> = serde_json::from_value(case["scenario"].clone()).expect("replay: scenario does not parse");
        one_case(meta, run, &sc, rep);
        return;
    }
    for i in 0..ctx.cases {
        let mut rng = ctx.rng.fork(hash_of(meta.entry) ^ (i as u64).wrapping_mul(0x9E37_79B9));
        let sc = gen_scenario::<T>(meta, &mut rng, i, ctx.tier);
        one_case(meta, run, &sc, rep);
    }
}

// =================================================================================================
// MemberId <-> TaglessMemberId

fn check_member_ids(rep: &mut Reporter, rng: &mut Rng, n: usize, replay: Option<&Value>) {
    let one = |rep: &mut Reporter, raw: u32, other: u32| {
        let case = json!({"engine": "hydro/hv_net_emb", "family": "member_id", "raw": raw, "other": other});
        let bad = |rep: &mut Reporter, kind: &str, what: String| {
            rep.violation(&format!("C35|member_id|{kind}"), &what, case.clone());
        };
        let r = catch(|| {
            let mut fails: Vec<(&'static str, String)> = vec![];
            let a = MemberId::<Src>::from_raw_id(raw);
            let t = TaglessMemberId::from_raw_id(raw);
            if a.get_raw_id() != raw {
                fails.push(("from_raw_id-get_raw_id", format!("MemberId::from_raw_id({raw}).get_raw_id() = {}", a.get_raw_id())));
            }
            if t.get_raw_id() != raw {
                fails.push(("tagless-from_raw_id-get_raw_id", format!("TaglessMemberId::from_raw_id({raw}).get_raw_id() = {}", t.get_raw_id())));
            }
            let at = a.clone().into_tagless();
            if at != t {
                fails.push(("into_tagless", format!("MemberId::from_raw_id({raw}).into_tagless() = {at:?}, expected {t:?}")));
            }
            let b = MemberId::<Src>::from_tagless(t.clone());
            if b != a || b.get_raw_id() != raw {
                fails.push(("from_tagless", format!("MemberId::from_tagless({t:?}) = {b:?}, expected {a:?}")));
            }
            let bt = b.into_tagless();
            if bt != t {
                fails.push(("from_tagless-into_tagless", format!("from_tagless({t:?}).into_tagless() = {bt:?}")));
            }
            let c = MemberId::<Dst>::from_tagless(a.clone().into_tagless());
            if c.into_tagless() != t {
                fails.push(("retag", format!("re-tagging {a:?} through its untyped form changed it")));
            }
            // distinct ids stay distinct, equal ids stay equal
            let o = MemberId::<Src>::from_raw_id(other);
            if (o == a) != (other == raw) || (o.clone().into_tagless() == t) != (other == raw) {
                fails.push(("identity", format!("ids {raw} and {other}: typed equality {} / untyped equality {}", o == a, o.clone().into_tagless() == t)));
            }
            // the serde impls of the typed id go through the untyped form
            let typed = bincode::serialize(&a).unwrap();
            let untyped = bincode::serialize(&t).unwrap();
            if typed != untyped {
                fails.push(("serde-form", format!("MemberId({raw}) serializes to {typed:?} but its untyped form to {untyped:?}")));
            }
            match bincode::deserialize::<MemberId<Src>>(&typed) {
                Ok(back) if back == a && back.get_raw_id() == raw => {}
                res => fails.push(("serde-roundtrip", format!("bincode round trip of MemberId({raw}) gave {res:?}"))),
            }
            match serde_json::from_str::<MemberId<Dst>>(&serde_json::to_string(&a).unwrap()) {
                Ok(back) if back.clone().into_tagless() == t => {}
                res => fails.push(("serde-roundtrip-json", format!("json round trip of MemberId({raw}) gave {res:?}"))),
            }
            fails
        });
        rep.evals(10);
        match r {
            Ok(fails) => {
                for (k, w) in fails {
                    bad(rep, k, w);
                }
            }
            Err(msg) => bad(rep, "panic", format!("member id conversions panicked for raw id {raw}: {msg}")),
        }
    };
    if let Some(case) = replay {
        one(rep, case["raw"].as_u64().unwrap() as u32, case["other"].as_u64().unwrap() as u32);
        return;
    }
    for (i, raw) in ID_EDGES.iter().enumerate() {
        one(rep, *raw, ID_EDGES[(i + 1) % ID_EDGES.len()]);
        one(rep, *raw, *raw);
        one(rep, *raw, *raw ^ 0x1_0000);
        rep.count("member_id_roundtrips");
    }
    for _ in 0..n {
        let raw = rng.next_u64() as u32;
        let other = match rng.below(4) {
            0 => raw,
            1 => raw ^ (1 << rng.below(32)),
            2 => raw & 0xFFFF,
            _ => rng.next_u64() as u32,
        };
        one(rep, raw, other);
        rep.count("member_id_roundtrips");
    }
}

// =================================================================================================

fn main() {
    let args = Args::parse();
    if args.prop == "NONE" {
        return;
    }
    if args.prop != "C35" {
        eprintln!("hv_net_emb serves C35 only (got {})", args.prop);
        std::process::exit(3);
    }
    let mut rep = Reporter::new("C35", args.seed);
    let entries = all_entries();
    let only: Option<String> = args.rest.iter().position(|a| a == "--only").map(|i| args.rest[i + 1].clone());

    if let Some(case) = args.replay_case() {
        let fam = case["family"].as_str().unwrap_or("").to_string();
        if fam == "member_id" {
            check_member_ids(&mut rep, &mut args.rng(), 0, Some(&case));
        } else {
            let e = entries.iter().find(|e| e.meta.entry == fam).unwrap_or_else(|| {
                eprintln!("replay: unknown family {fam}");
                std::process::exit(3);
            });
            let ctx = Ctx { rng: args.rng(), cases: 0, tier: args.tier };
            (e.go)(&e.meta, &ctx, &mut rep, Some(&case));
        }
        rep.finish("replay of one recorded case", false);
        return;
    }

    let cases = args.budget(150, 1500, 2);
    let ctx = Ctx { rng: args.rng(), cases, tier: args.tier };
    for e in &entries {
        if only.as_deref().is_some_and(|o| !e.meta.entry.contains(o)) {
            continue;
        }
        (e.go)(&e.meta, &ctx, &mut rep, None);
    }
    let mut rng = args.rng().fork(0x1D5);
    check_member_ids(&mut rep, &mut rng, args.budget(10_000, 100_000, 50), None);

    if only.is_none() && args.tier != Tier::Miri {
        let per_flow_cases = (cases * 6) as u64;
        for f in FLOWS {
            rep.require(rep.counter(&format!("cases:{f}")) >= per_flow_cases, &format!("flow shape {f}: fewer than {per_flow_cases} cases ran"));
            if f != "o2o" {
                rep.require(
                    rep.counter(&format!("nontrivial:{f}")) >= (cases * 3) as u64,
                    &format!("flow shape {f}: fewer than {} non-trivial cases", cases * 3),
                );
            }
        }
        let want_values = args.budget(10_000, 100_000, 0) as u64;
        for p in PAYLOADS {
            rep.require(
                rep.counter(&format!("values:{p}")) >= if p == "keyed" { want_values / 4 } else { want_values },
                &format!("payload type {p}: fewer random values than required went through the generated code"),
            );
        }
        rep.require(rep.counter("cases_ser:embedded") >= (cases * 6) as u64, "too few cases with `.embedded()` serialization");
        rep.require(rep.counter("cases_with_unknown_destination") >= 100, "too few cases with a send to an id that is not a member");
        rep.require(rep.counter("cases_with_late_joiner") >= 50, "too few broadcast cases with a late joiner");
        rep.require(rep.counter("cases_with_leaver") >= 50, "too few broadcast cases with a leaving member");
        rep.require(rep.counter("cases_with_ids_above_u16") >= (cases * 10) as u64, "too few cases with member ids above 65535");
        rep.require(rep.counter("member_id_roundtrips") >= 1_000, "too few member id round trips");
    }
    rep.finish(
        "Per (flow shape in {o2o, o2m demux, o2m keyed demux, o2m broadcast, m2o, m2o keyed, m2o self-id, m2m demux, m2m broadcast} x \
         payload type in {i64, String, Option<Vec<(i64,String)>>, enum Shape, struct Rec, struct Routed(with MemberIds), (String,Rec)} x \
         serialization in {bincode, embedded}) the production generator emitted sender/receiver functions; a case = random \
         clusters of 1-4 members with non-contiguous raw ids (edges 0..u32::MAX), 1-4 data rounds of 0-6 messages per sender \
         (values: 30% edge values, else random nested values; case 0 of each entry sends every edge value), random destinations \
         (incl. ids that are no member), for broadcasts a membership history (initial joins, late joiners, leavers, re-joiners), \
         and a transport schedule (random per-link delay and interleaving, per-link FIFO). Oracle: per (receiver instance, sender) \
         the received sequence equals the sequence addressed to it (value equality, order, exactly once, right sender tag), nothing \
         else arrives anywhere, wire destination tags equal the addressed ids, CLUSTER_SELF_ID equals the instance id; plus \
         MemberId<->TaglessMemberId conversions and serde forms for random raw ids. Non-trivial = case with a cluster of >= 2 \
         members on at least one side and >= 2 compared deliveries with different (sender, receiver) endpoints, all judged correct.",
        false,
    );
}
