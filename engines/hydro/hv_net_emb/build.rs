//! Runs the production code generator (`generate_embedded`) for every (flow shape, payload type) pair of
//! `hv_net_flows` and writes one module per pair to $OUT_DIR/<name>.rs plus $OUT_DIR/all.rs declaring them.
//! In every module the sending location is the function `sender`, the receiving one `receiver`, the
//! network channel is `ch`, the embedded input `input` and the embedded output `output`.
use hv_net_flows::*;
use hydro_lang::compile::builder::FlowBuilder;
use hydro_lang::location::Location;

type Key = String;

fn main() {
    println!("cargo::rerun-if-changed=build.rs");
    let out_dir = std::env::var("OUT_DIR").unwrap();
    let mut mods: Vec<String> = vec![];
    let mut emit = |name: &str, code: syn::File| {
        std::fs::write(format!("{out_dir}/{name}.rs"), prettyplease::unparse(&code)).unwrap();
        mods.push(name.to_string());
    };

    // sender process, receiver process
    macro_rules! pp {
        ($name:literal, $f:ident, $($t:ty),+) => {{
            let mut flow = FlowBuilder::new();
            let s = flow.process::<Src>();
            let d = flow.process::<Dst>();
            $f::<$($t),+>(s.embedded_input("input"), &d).embedded_output("output");
            emit($name, flow.with_process(&s, "sender").with_process(&d, "receiver").generate_embedded("hv_net_flows"));
        }};
    }
    // sender process, receiver cluster
    macro_rules! pc {
        ($name:literal, $f:ident, $($t:ty),+) => {{
            let mut flow = FlowBuilder::new();
            let s = flow.process::<Src>();
            let d = flow.cluster::<Dst>();
            $f::<$($t),+>(s.embedded_input("input"), &d).embedded_output("output");
            emit($name, flow.with_process(&s, "sender").with_cluster(&d, "receiver").generate_embedded("hv_net_flows"));
        }};
    }
    // sender cluster, receiver process
    macro_rules! cp {
        ($name:literal, $f:ident, $($t:ty),+) => {{
            let mut flow = FlowBuilder::new();
            let s = flow.cluster::<Src>();
            let d = flow.process::<Dst>();
            $f::<$($t),+>(s.embedded_input("input"), &d).embedded_output("output");
            emit($name, flow.with_cluster(&s, "sender").with_process(&d, "receiver").generate_embedded("hv_net_flows"));
        }};
    }
    // sender cluster, receiver cluster
    macro_rules! cc {
        ($name:literal, $f:ident, $($t:ty),+) => {{
            let mut flow = FlowBuilder::new();
            let s = flow.cluster::<Src>();
            let d = flow.cluster::<Dst>();
            $f::<$($t),+>(s.embedded_input("input"), &d).embedded_output("output");
            emit($name, flow.with_cluster(&s, "sender").with_cluster(&d, "receiver").generate_embedded("hv_net_flows"));
        }};
    }

    pp!("o2o_int", o2o, PInt);
    pp!("o2o_str", o2o, PStr);
    pp!("o2o_optvec", o2o, POptVec);
    pp!("o2o_shape", o2o, Shape);
    pp!("o2o_rec", o2o, Rec);
    pp!("o2o_routed", o2o, Routed);
    pp!("o2o_raw_int", o2o_raw, PInt);
    pp!("o2o_raw_rec", o2o_raw, Rec);

    pc!("o2m_demux_int", o2m_demux, PInt);
    pc!("o2m_demux_str", o2m_demux, PStr);
    pc!("o2m_demux_optvec", o2m_demux, POptVec);
    pc!("o2m_demux_shape", o2m_demux, Shape);
    pc!("o2m_demux_rec", o2m_demux, Rec);
    pc!("o2m_demux_routed", o2m_demux, Routed);
    pc!("o2m_demux_raw_int", o2m_demux_raw, PInt);
    pc!("o2m_demux_raw_rec", o2m_demux_raw, Rec);
    pc!("o2m_keyed_demux_str_rec", o2m_keyed_demux, Key, Rec);

    pc!("o2m_bcast_int", o2m_bcast, PInt);
    pc!("o2m_bcast_str", o2m_bcast, PStr);
    pc!("o2m_bcast_optvec", o2m_bcast, POptVec);
    pc!("o2m_bcast_shape", o2m_bcast, Shape);
    pc!("o2m_bcast_rec", o2m_bcast, Rec);
    pc!("o2m_bcast_routed", o2m_bcast, Routed);

    cp!("m2o_int", m2o, PInt);
    cp!("m2o_str", m2o, PStr);
    cp!("m2o_optvec", m2o, POptVec);
    cp!("m2o_shape", m2o, Shape);
    cp!("m2o_rec", m2o, Rec);
    cp!("m2o_routed", m2o, Routed);
    cp!("m2o_raw_int", m2o_raw, PInt);
    cp!("m2o_raw_rec", m2o_raw, Rec);
    cp!("m2o_keyed_str_rec", m2o_keyed, Key, Rec);
    cp!("m2o_selfid_int", m2o_selfid, PInt);

    cc!("m2m_demux_int", m2m_demux, PInt);
    cc!("m2m_demux_str", m2m_demux, PStr);
    cc!("m2m_demux_optvec", m2m_demux, POptVec);
    cc!("m2m_demux_shape", m2m_demux, Shape);
    cc!("m2m_demux_rec", m2m_demux, Rec);
    cc!("m2m_demux_routed", m2m_demux, Routed);
    cc!("m2m_demux_raw_int", m2m_demux_raw, PInt);
    cc!("m2m_demux_raw_rec", m2m_demux_raw, Rec);

    cc!("m2m_bcast_int", m2m_bcast, PInt);
    cc!("m2m_bcast_str", m2m_bcast, PStr);
    cc!("m2m_bcast_optvec", m2m_bcast, POptVec);
    cc!("m2m_bcast_shape", m2m_bcast, Shape);
    cc!("m2m_bcast_rec", m2m_bcast, Rec);
    cc!("m2m_bcast_routed", m2m_bcast, Routed);

    let mut all = String::new();
    for m in &mods {
        all.push_str(&format!(
            "#[allow(unused_imports, unused_qualifications, missing_docs, non_snake_case, unused_variables, unused_mut, dead_code)]\npub mod {m} {{ include!(concat!(env!(\"OUT_DIR\"), \"/{m}.rs\")); }}\n"
        ));
    }
    std::fs::write(format!("{out_dir}/all.rs"), all).unwrap();
}
