//! Runs the production code generator (`generate_embedded`) for every flow of `hv_net_flows` and writes one
//! module per flow to $OUT_DIR/<name>.rs plus $OUT_DIR/all.rs declaring them.
use hydro_lang::location::Location;

fn main() {
    println!("cargo::rerun-if-changed=build.rs");
    let out_dir = std::env::var("OUT_DIR").unwrap();
    let mut mods: Vec<String> = vec![];
    let mut emit = |name: &str, code: syn::File| {
        std::fs::write(format!("{out_dir}/{name}.rs"), prettyplease::unparse(&code)).unwrap();
        mods.push(name.to_string());
    };

    // --- one block per flow -------------------------------------------------------------------
    {
        let mut flow = hydro_lang::compile::builder::FlowBuilder::new();
        let process = flow.process::<()>();
        hv_net_flows::double(process.embedded_input("input")).embedded_output("output");
        emit("double", flow.with_process(&process, "double").generate_embedded("hv_net_flows"));
    }
    {
        let mut flow = hydro_lang::compile::builder::FlowBuilder::new();
        let process = flow.process::<()>();
        hv_net_flows::running_count(process.embedded_input("input")).embedded_output("output");
        emit("running_count", flow.with_process(&process, "running_count").generate_embedded("hv_net_flows"));
    }
    // -------------------------------------------------------------------------------------------

    let mut all = String::new();
    for m in &mods {
        all.push_str(&format!(
            "#[allow(unused_imports, unused_qualifications, missing_docs, non_snake_case, unused_variables, unused_mut, dead_code)]\npub mod {m} {{ include!(concat!(env!(\"OUT_DIR\"), \"/{m}.rs\")); }}\n"
        ));
    }
    std::fs::write(format!("{out_dir}/all.rs"), all).unwrap();
}

