//! Hand-written corpus of small Hydro flows for C28 (eventual determinism of safe top-level code),
//! C29 (ordered / keyed order), C32 (library-internal order/retry assumptions) and C33 (monotone /
//! bounded annotations).
//!
//! Layout: `obs_*` are the fixed *observers* (they contain the only `nondet!`s of the top-level
//! flows and are outside the program being judged); `f_*` are safe top-level flows; `w_*` are
//! flows whose input is weakened (`NoOrder` / `AtLeastOnce`) before reaching an operator that
//! internally trusts an ordering / retry assumption; `t_*` are tick-scoped variants (the `batch`
//! nondet there is the tick boundary itself, which the harness controls and holds fixed).
#[cfg(stageleft_runtime)]
hydro_lang::setup!();

use std::collections::HashMap;

use hydro_lang::live_collections::boundedness::Boundedness;
use hydro_lang::live_collections::keyed_singleton::{
    BoundedValue, KeyedSingletonBound, MonotonicKeys, MonotonicValue,
};
use hydro_lang::live_collections::singleton::{Monotonic, SingletonBound};
use hydro_lang::live_collections::stream::{
    AtLeastOnce, ExactlyOnce, NoOrder, Ordering, Retries, TotalOrder,
};
use hydro_lang::prelude::*;

pub type P<'a> = Process<'a, ()>;
/// Input / output stream type (ordered, exactly once, unbounded).
pub type S<'a, T> = Stream<T, P<'a>, Unbounded, TotalOrder, ExactlyOnce>;
pub type Pair = (i64, i64);

// ---------------------------------------------------------------------------------------------
// observers

pub fn obs_bag<'a, T, O: Ordering, R: Retries>(s: Stream<T, P<'a>, Unbounded, O, R>) -> S<'a, T> {
    s.assume_ordering(nondet!(/** observer */))
        .assume_retries(nondet!(/** observer */))
}

pub fn obs_single<'a, T, B: SingletonBound>(s: Singleton<T, P<'a>, B>) -> S<'a, T> {
    let tick = s.location().tick();
    s.snapshot(&tick, nondet!(/** observer */)).all_ticks()
}

pub fn obs_opt<'a, T: Clone, B: Boundedness>(o: Optional<T, P<'a>, B>) -> S<'a, Option<T>> {
    let tick = o.location().tick();
    o.snapshot(&tick, nondet!(/** observer */))
        .into_singleton()
        .all_ticks()
}

pub fn obs_ks<'a, K, V, B: KeyedSingletonBound<ValueBound = Unbounded>>(
    ks: KeyedSingleton<K, V, P<'a>, B>,
) -> S<'a, Vec<(K, V)>> {
    let tick = ks.location().tick();
    ks.snapshot(&tick, nondet!(/** observer */))
        .entries()
        .assume_ordering::<TotalOrder>(nondet!(/** observer */))
        .collect_vec()
        .all_ticks()
}

pub fn obs_keyed_ordered<'a, K, V, R: Retries>(
    ks: KeyedStream<K, V, P<'a>, Unbounded, TotalOrder, R>,
) -> S<'a, (K, V)> {
    ks.entries_partially_ordered(nondet!(/** observer */))
        .assume_retries(nondet!(/** observer */))
}

pub fn obs_keyed_bag<'a, K, V, O: Ordering, R: Retries>(
    ks: KeyedStream<K, V, P<'a>, Unbounded, O, R>,
) -> S<'a, (K, V)> {
    obs_bag(ks.entries())
}

// ---------------------------------------------------------------------------------------------
// C28 / C29: safe top-level flows, one i64 input

pub fn f_map<'a>(a: S<'a, i64>) -> S<'a, i64> {
    a.map(q!(|x| x * 3 + 1))
}

pub fn f_filter<'a>(a: S<'a, i64>) -> S<'a, i64> {
    a.filter(q!(|x| *x % 2 == 0))
}

pub fn f_flat_map<'a>(a: S<'a, i64>) -> S<'a, i64> {
    a.flat_map_ordered(q!(|x| vec![x, x + 10]))
}

pub fn f_filter_map<'a>(a: S<'a, i64>) -> S<'a, i64> {
    a.filter_map(q!(|x| if x > 1 { Some(x * 2) } else { None }))
}

pub fn f_inspect<'a>(a: S<'a, i64>) -> S<'a, i64> {
    a.inspect(q!(|_x| {})).map(q!(|x| x - 1))
}

pub fn f_enumerate<'a>(a: S<'a, i64>) -> S<'a, (usize, i64)> {
    a.enumerate()
}

pub fn f_scan<'a>(a: S<'a, i64>) -> S<'a, i64> {
    a.scan(
        q!(|| 0i64),
        q!(|acc, x| {
            *acc = *acc * 3 + x;
            Some(*acc)
        }),
    )
}

pub fn f_limit<'a>(a: S<'a, i64>) -> S<'a, i64> {
    a.limit(q!(3usize))
}

pub fn f_unique<'a>(a: S<'a, i64>) -> S<'a, i64> {
    a.unique()
}

pub fn f_chain_src<'a>(a: S<'a, i64>) -> S<'a, i64> {
    let p = a.location().clone();
    p.source_iter(q!(vec![100i64, 101])).chain(a)
}

pub fn f_cross_singleton<'a>(a: S<'a, i64>) -> S<'a, (i64, i64)> {
    let p = a.location().clone();
    a.cross_singleton(p.singleton(q!(7i64)))
}

/// A bounded top-level aggregate (emitted as `fold_no_replay`) crossed into an unbounded stream:
/// the count must stay 3 no matter how many ticks run.
pub fn f_bounded_count_cross<'a>(a: S<'a, i64>) -> S<'a, (i64, usize)> {
    let p = a.location().clone();
    a.cross_singleton(p.source_iter(q!(vec![5i64, 6, 7])).count())
}

/// Bounded top-level fold turned back into a stream (`fold_no_replay`): must be emitted exactly once,
/// however many ticks run.
pub fn f_bounded_fold_chain<'a>(a: S<'a, i64>) -> S<'a, i64> {
    let p = a.location().clone();
    p.source_iter(q!(vec![5i64, 6, 7]))
        .count()
        .into_stream()
        .map(q!(|c| c as i64))
        .chain(a)
}

/// Same for a bounded top-level reduce (`reduce_no_replay`).
pub fn f_bounded_reduce_chain<'a>(a: S<'a, i64>) -> S<'a, i64> {
    let p = a.location().clone();
    p.source_iter(q!(vec![5i64, 6, 7]))
        .reduce(q!(|acc, x| *acc += x))
        .into_stream()
        .chain(a)
}

/// (Before the fix "Stream::filter_not_in records its own boundedness" constructing this flow
/// panicked in `Stream::new` under debug assertions.)
pub fn f_filter_not_in<'a>(a: S<'a, i64>) -> S<'a, i64> {
    let p = a.location().clone();
    a.filter_not_in(p.source_iter(q!(vec![1i64, 3])))
}

pub fn f_flat_unordered<'a>(a: S<'a, i64>) -> S<'a, i64> {
    obs_bag(a.flat_map_unordered(q!(|x| vec![x, -x])))
}

pub fn f_tee_merge<'a>(a: S<'a, i64>) -> S<'a, i64> {
    obs_bag(a.clone().map(q!(|x| x + 100)).merge_unordered(a))
}

pub fn f_partition_merge<'a>(a: S<'a, i64>) -> S<'a, i64> {
    let (ev, od) = a.partition(q!(|x| *x % 2 == 0));
    obs_bag(ev.map(q!(|x| x * 10)).merge_unordered(od))
}

// aggregates -------------------------------------------------------------------------------------

pub fn f_fold<'a>(a: S<'a, i64>) -> S<'a, i64> {
    obs_single(a.fold(q!(|| 1i64), q!(|acc, x| *acc = (*acc * 31 + x) % 1_000_003)))
}

pub fn f_fold_comm<'a>(a: S<'a, i64>) -> S<'a, i64> {
    obs_single(a.weaken_ordering::<NoOrder>().fold(
        q!(|| 0i64),
        q!(
            |acc, x| *acc += x,
            commutative = manual_proof!(/** integer addition is commutative */)
        ),
    ))
}

pub fn f_reduce<'a>(a: S<'a, i64>) -> S<'a, Option<i64>> {
    obs_opt(a.reduce(q!(|acc, x| *acc = (*acc * 7 + x) % 1_000_003)))
}

pub fn f_reduce_comm<'a>(a: S<'a, i64>) -> S<'a, Option<i64>> {
    obs_opt(a.weaken_ordering::<NoOrder>().reduce(q!(
        |acc, x| *acc += x,
        commutative = manual_proof!(/** integer addition is commutative */)
    )))
}

pub fn f_count<'a>(a: S<'a, i64>) -> S<'a, usize> {
    obs_single(a.count())
}

pub fn f_max<'a>(a: S<'a, i64>) -> S<'a, Option<i64>> {
    obs_opt(a.max())
}

pub fn f_min<'a>(a: S<'a, i64>) -> S<'a, Option<i64>> {
    obs_opt(a.min())
}

pub fn f_first<'a>(a: S<'a, i64>) -> S<'a, Option<i64>> {
    obs_opt(a.first())
}

pub fn f_last<'a>(a: S<'a, i64>) -> S<'a, Option<i64>> {
    obs_opt(a.last())
}

pub fn f_collect_vec<'a>(a: S<'a, i64>) -> S<'a, Vec<i64>> {
    obs_single(a.collect_vec())
}

pub fn f_sg_map<'a>(a: S<'a, i64>) -> S<'a, usize> {
    obs_single(a.count().map(q!(|c| c * 2 + 1)))
}

pub fn f_sg_filter<'a>(a: S<'a, i64>) -> S<'a, Option<usize>> {
    obs_opt(a.count().filter(q!(|c| *c % 2 == 0)))
}

pub fn f_opt_unwrap_or<'a>(a: S<'a, i64>) -> S<'a, i64> {
    let p = a.location().clone();
    obs_single(a.max().unwrap_or(p.singleton(q!(-1i64)).into()))
}

pub fn f_opt_map_or<'a>(a: S<'a, i64>) -> S<'a, Option<i64>> {
    obs_opt(a.clone().first().map(q!(|x| x + 1000)).or(a.last()))
}

pub fn f_threshold<'a>(a: S<'a, i64>) -> S<'a, usize> {
    let p = a.location().clone();
    a.count()
        .threshold_greater_or_equal(p.singleton(q!(3usize)))
}

// two inputs -------------------------------------------------------------------------------------

pub fn f_merge<'a>(a: S<'a, i64>, b: S<'a, i64>) -> S<'a, i64> {
    obs_bag(a.merge_unordered(b.map(q!(|x| x + 50))))
}

pub fn f_cross_product<'a>(a: S<'a, i64>, b: S<'a, i64>) -> S<'a, (i64, i64)> {
    obs_bag(a.cross_product(b))
}

pub fn f_join<'a>(a: S<'a, Pair>, b: S<'a, Pair>) -> S<'a, (i64, (i64, i64))> {
    obs_bag(a.join(b))
}

/// Join followed by a count: a replay of the join output in a later tick shows up in the count.
pub fn f_join_count<'a>(a: S<'a, Pair>, b: S<'a, Pair>) -> S<'a, usize> {
    obs_single(a.join(b).count())
}

pub fn f_kjoin<'a>(a: S<'a, Pair>, b: S<'a, Pair>) -> S<'a, (i64, (i64, i64))> {
    obs_keyed_bag(a.into_keyed().join_keyed_stream(b.into_keyed()))
}

// pair input, un-keyed ---------------------------------------------------------------------------

pub fn f_join_half<'a>(a: S<'a, Pair>) -> S<'a, (i64, (i64, i64))> {
    let p = a.location().clone();
    a.join(p.source_iter(q!(vec![(0i64, 70i64), (1, 71), (1, 72)])))
}

pub fn f_anti_join<'a>(a: S<'a, Pair>) -> S<'a, Pair> {
    let p = a.location().clone();
    a.anti_join(p.source_iter(q!(vec![1i64, 5])))
}

// keyed ------------------------------------------------------------------------------------------

pub fn f_k_fold<'a>(a: S<'a, Pair>) -> S<'a, Vec<Pair>> {
    let ks: KeyedSingleton<i64, i64, P<'a>, MonotonicKeys> = a
        .into_keyed()
        .fold(q!(|| 1i64), q!(|acc, x| *acc = (*acc * 31 + x) % 1_000_003));
    obs_ks(ks)
}

pub fn f_k_reduce<'a>(a: S<'a, Pair>) -> S<'a, Vec<Pair>> {
    obs_ks(
        a.into_keyed()
            .reduce(q!(|acc, x| *acc = (*acc * 7 + x) % 1_000_003)),
    )
}

pub fn f_k_entries_map<'a>(a: S<'a, Pair>) -> S<'a, Pair> {
    obs_keyed_ordered(a.into_keyed().map(q!(|v| v + 1)))
}

pub fn f_k_map_with_key<'a>(a: S<'a, Pair>) -> S<'a, Pair> {
    obs_keyed_ordered(a.into_keyed().map_with_key(q!(|(k, v)| k * 100 + v)))
}

pub fn f_k_filter<'a>(a: S<'a, Pair>) -> S<'a, Pair> {
    obs_keyed_ordered(a.into_keyed().filter(q!(|v| *v % 2 == 1)))
}

pub fn f_k_flat_map<'a>(a: S<'a, Pair>) -> S<'a, Pair> {
    obs_keyed_ordered(a.into_keyed().flat_map_ordered(q!(|v| vec![v, v + 10])))
}

pub fn f_k_values<'a>(a: S<'a, Pair>) -> S<'a, i64> {
    obs_bag(a.into_keyed().values())
}

pub fn f_k_keys<'a>(a: S<'a, Pair>) -> S<'a, i64> {
    obs_bag(a.into_keyed().keys())
}

pub fn f_k_first<'a>(a: S<'a, Pair>) -> S<'a, Pair> {
    obs_bag(a.into_keyed().first().entries())
}

pub fn f_k_value_counts<'a>(a: S<'a, Pair>) -> S<'a, Vec<(i64, usize)>> {
    obs_ks(a.into_keyed().value_counts())
}

pub fn f_k_enumerate<'a>(a: S<'a, Pair>) -> S<'a, (i64, (usize, i64))> {
    obs_keyed_ordered(a.into_keyed().enumerate())
}

pub fn f_k_scan<'a>(a: S<'a, Pair>) -> S<'a, Pair> {
    obs_keyed_ordered(a.into_keyed().scan(
        q!(|| 0i64),
        q!(|acc, x| {
            *acc = *acc * 3 + x;
            Some(*acc)
        }),
    ))
}

pub fn f_k_limit<'a>(a: S<'a, Pair>) -> S<'a, Pair> {
    obs_keyed_ordered(a.into_keyed().limit(q!(2usize)))
}

pub fn f_k_fold_early_stop<'a>(a: S<'a, Pair>) -> S<'a, Pair> {
    obs_bag(
        a.into_keyed()
            .fold_early_stop(
                q!(|| 0i64),
                q!(|acc, x| {
                    *acc = *acc * 3 + x;
                    x % 2 == 0
                }),
            )
            .entries(),
    )
}

pub fn f_k_get<'a>(a: S<'a, Pair>) -> S<'a, i64> {
    let p = a.location().clone();
    a.into_keyed().get(p.singleton(q!(1i64)))
}

pub fn f_k_unique<'a>(a: S<'a, Pair>) -> S<'a, Pair> {
    obs_keyed_bag(a.into_keyed().unique())
}

pub fn f_k_filter_key_not_in<'a>(a: S<'a, Pair>) -> S<'a, Pair> {
    let p = a.location().clone();
    obs_keyed_ordered(
        a.into_keyed()
            .filter_key_not_in(p.source_iter(q!(vec![0i64, 9]))),
    )
}

// keyed singleton accessors ----------------------------------------------------------------------

pub fn f_ks_get_max_key<'a>(a: S<'a, Pair>) -> S<'a, Option<Pair>> {
    obs_opt(a.into_keyed().first().get_max_key())
}

pub fn f_ks_key_count<'a>(a: S<'a, Pair>) -> S<'a, usize> {
    obs_single(a.into_keyed().first().key_count())
}

pub fn f_ks_into_singleton<'a>(a: S<'a, Pair>) -> S<'a, HashMap<i64, i64>> {
    obs_single(a.into_keyed().first().into_singleton())
}

pub fn f_ks_unb_into_singleton<'a>(a: S<'a, Pair>) -> S<'a, HashMap<i64, i64>> {
    let ks: KeyedSingleton<i64, i64, P<'a>, MonotonicKeys> = a
        .into_keyed()
        .fold(q!(|| 1i64), q!(|acc, x| *acc = (*acc * 31 + x) % 1_000_003));
    obs_single(ks.into_singleton())
}

/// (`value_counts().key_count()` would be the natural flow, but `key_count` / `into_singleton` on
/// a `MonotonicValue` or `Unbounded` keyed singleton panic at construction under debug assertions:
/// they re-label the node `MonotonicKeys` through `KeyedSingleton::new`, which asserts that the
/// node's metadata already says so. Side finding, belongs to C41.)
pub fn f_ks_unb_key_count<'a>(a: S<'a, Pair>) -> S<'a, usize> {
    let ks: KeyedSingleton<i64, i64, P<'a>, MonotonicKeys> =
        a.into_keyed().fold(q!(|| 0i64), q!(|acc, x| *acc = x - *acc));
    obs_single(ks.key_count())
}

pub fn f_ks_map<'a>(a: S<'a, Pair>) -> S<'a, Vec<(i64, usize)>> {
    obs_ks(a.into_keyed().value_counts().map(q!(|c| c * 2)))
}

pub fn f_ks_first_map_entries<'a>(a: S<'a, Pair>) -> S<'a, Pair> {
    obs_bag(a.into_keyed().first().map(q!(|v| v + 5)).entries())
}

// ---------------------------------------------------------------------------------------------
// C28 / C29: top-level joins / cross products with Bounded operands. The `e_bb_*` flows join two
// `source_iter` collections and additionally echo an unrelated unbounded input to a second output,
// so that the process keeps running ticks after the (one-shot) join result has been produced.

pub type SB<'a, T> = Stream<T, P<'a>, Bounded, TotalOrder, ExactlyOnce>;

pub fn obs_bag_b<'a, T, B: Boundedness, O: Ordering, R: Retries>(
    s: Stream<T, P<'a>, B, O, R>,
) -> Stream<T, P<'a>, B, TotalOrder, ExactlyOnce> {
    s.assume_ordering(nondet!(/** observer */))
        .assume_retries(nondet!(/** observer */))
}

pub fn e_bb_nested<'a>(a: S<'a, i64>) -> (SB<'a, (i64, i64)>, S<'a, i64>) {
    let p = a.location().clone();
    (
        p.source_iter(q!(vec![1i64, 2]))
            .cross_product_nested_loop(p.source_iter(q!(vec![10i64, 20, 30]))),
        a,
    )
}

pub fn e_bb_cross<'a>(a: S<'a, i64>) -> (SB<'a, (i64, i64)>, S<'a, i64>) {
    let p = a.location().clone();
    (
        p.source_iter(q!(vec![1i64, 2]))
            .cross_product(p.source_iter(q!(vec![10i64, 20, 30]))),
        a,
    )
}

pub fn e_bb_join<'a>(a: S<'a, i64>) -> (SB<'a, (i64, (i64, i64))>, S<'a, i64>) {
    let p = a.location().clone();
    (
        p.source_iter(q!(vec![(0i64, 1i64), (1, 2), (1, 3)]))
            .join(p.source_iter(q!(vec![(0i64, 70i64), (1, 71), (1, 72)]))),
        a,
    )
}

pub fn e_bb_repeat<'a>(a: S<'a, i64>) -> (SB<'a, (i64, i64)>, S<'a, i64>) {
    let p = a.location().clone();
    let keys = p
        .source_iter(q!(vec![(1i64, ()), (2, ())]))
        .into_keyed()
        .first();
    (
        p.source_iter(q!(vec![7i64, 8]))
            .repeat_with_keys(keys)
            .entries_partially_ordered(nondet!(/** observer */)),
        a,
    )
}

pub fn e_bb_ks_join<'a>(a: S<'a, i64>) -> (SB<'a, (i64, (i64, i64))>, S<'a, i64>) {
    let p = a.location().clone();
    let ks = p
        .source_iter(q!(vec![(1i64, 10i64), (2, 20)]))
        .into_keyed()
        .first();
    (
        ks.join_keyed_stream(
            p.source_iter(q!(vec![(1i64, 100i64), (2, 200), (1, 101)]))
                .into_keyed(),
        )
        .entries_partially_ordered(nondet!(/** observer */)),
        a,
    )
}

/// bounded keyed singleton x unbounded keyed stream
pub fn e_ks_join_unb<'a>(a: S<'a, Pair>) -> S<'a, (i64, (i64, i64))> {
    let p = a.location().clone();
    let ks = p
        .source_iter(q!(vec![(0i64, 10i64), (1, 20)]))
        .into_keyed()
        .first();
    obs_keyed_ordered(ks.join_keyed_stream(a.into_keyed()))
}

/// bounded left x unbounded right (symmetric join, unordered)
pub fn e_bl_ur_join<'a>(a: S<'a, Pair>) -> SB<'a, (i64, (i64, i64))> {
    let p = a.location().clone();
    obs_bag_b(
        p.source_iter(q!(vec![(0i64, 70i64), (1, 71), (1, 72)]))
            .join(a),
    )
}

pub fn e_bl_ur_cross<'a>(a: S<'a, i64>) -> SB<'a, (i64, i64)> {
    let p = a.location().clone();
    obs_bag_b(p.source_iter(q!(vec![10i64, 20])).cross_product(a))
}

/// unbounded left x bounded right: the probe side's order is preserved
pub fn e_ul_br_cross<'a>(a: S<'a, i64>) -> S<'a, (i64, i64)> {
    let p = a.location().clone();
    a.cross_product(p.source_iter(q!(vec![10i64, 20])))
}

// ---------------------------------------------------------------------------------------------
// C32: inputs typed as weakly as the operator accepts (top level)

pub fn w_max<'a>(a: S<'a, i64>) -> S<'a, Option<i64>> {
    obs_opt(
        a.weaken_ordering::<NoOrder>()
            .weaken_retries::<AtLeastOnce>()
            .max(),
    )
}

pub fn w_min<'a>(a: S<'a, i64>) -> S<'a, Option<i64>> {
    obs_opt(
        a.weaken_ordering::<NoOrder>()
            .weaken_retries::<AtLeastOnce>()
            .min(),
    )
}

pub fn w_first<'a>(a: S<'a, i64>) -> S<'a, Option<i64>> {
    obs_opt(a.weaken_retries::<AtLeastOnce>().first())
}

pub fn w_last<'a>(a: S<'a, i64>) -> S<'a, Option<i64>> {
    obs_opt(a.weaken_retries::<AtLeastOnce>().last())
}

pub fn w_count<'a>(a: S<'a, i64>) -> S<'a, usize> {
    obs_single(a.weaken_ordering::<NoOrder>().count())
}

pub fn w_value_counts<'a>(a: S<'a, Pair>) -> S<'a, Vec<(i64, usize)>> {
    obs_ks(a.into_keyed().weaken_ordering::<NoOrder>().value_counts())
}

pub fn w_weaken_ordering<'a>(a: S<'a, i64>) -> S<'a, i64> {
    obs_bag(a.weaken_ordering::<NoOrder>())
}

pub fn w_weaken_retries<'a>(a: S<'a, i64>) -> S<'a, i64> {
    obs_bag(a.weaken_retries::<AtLeastOnce>())
}

pub fn w_k_weaken<'a>(a: S<'a, Pair>) -> S<'a, Pair> {
    obs_keyed_bag(
        a.into_keyed()
            .weaken_ordering::<NoOrder>()
            .weaken_retries::<AtLeastOnce>(),
    )
}

/// `make_totally_ordered` / `make_exactly_once` are the trusted no-op casts.
pub fn w_make_noop<'a>(a: S<'a, i64>) -> S<'a, i64> {
    a.make_totally_ordered().make_exactly_once()
}

pub fn w_k_make_noop<'a>(a: S<'a, Pair>) -> S<'a, Pair> {
    obs_keyed_ordered(a.into_keyed().make_totally_ordered().make_exactly_once())
}

/// keyed-singleton with unordered, at-least-once provenance -> into_singleton (snapshot path).
pub fn w_ks_unb_into_singleton<'a>(a: S<'a, Pair>) -> S<'a, HashMap<i64, i64>> {
    let ks: KeyedSingleton<i64, i64, P<'a>, MonotonicKeys> = a
        .into_keyed()
        .weaken_ordering::<NoOrder>()
        .weaken_retries::<AtLeastOnce>()
        .fold(
            q!(|| i64::MIN),
            q!(
                |acc, x| {
                    if x > *acc {
                        *acc = x
                    }
                },
                commutative = manual_proof!(/** max is commutative */),
                idempotent = manual_proof!(/** max is idempotent */)
            ),
        );
    obs_single(ks.into_singleton())
}

pub fn w_ks_unb_key_count<'a>(a: S<'a, Pair>) -> S<'a, usize> {
    let ks: KeyedSingleton<i64, i64, P<'a>, MonotonicKeys> =
        a.into_keyed().weaken_ordering::<NoOrder>().fold(
            q!(|| 0i64),
            q!(
                |acc, x| *acc += x,
                commutative = manual_proof!(/** integer addition is commutative */)
            ),
        );
    obs_single(ks.key_count())
}

// ---------------------------------------------------------------------------------------------
// C32: tick-scoped variants (bounded inputs reach the `*_trusted_bounded` paths)

pub fn t_max<'a>(a: S<'a, i64>) -> S<'a, i64> {
    let tick = a.location().tick();
    a.weaken_ordering::<NoOrder>()
        .weaken_retries::<AtLeastOnce>()
        .batch(&tick, nondet!(/** tick boundary chosen by the harness */))
        .max()
        .all_ticks()
}

pub fn t_min<'a>(a: S<'a, i64>) -> S<'a, i64> {
    let tick = a.location().tick();
    a.weaken_ordering::<NoOrder>()
        .weaken_retries::<AtLeastOnce>()
        .batch(&tick, nondet!(/** tick boundary chosen by the harness */))
        .min()
        .all_ticks()
}

pub fn t_first<'a>(a: S<'a, i64>) -> S<'a, i64> {
    let tick = a.location().tick();
    a.weaken_retries::<AtLeastOnce>()
        .batch(&tick, nondet!(/** tick boundary chosen by the harness */))
        .first()
        .all_ticks()
}

pub fn t_last<'a>(a: S<'a, i64>) -> S<'a, i64> {
    let tick = a.location().tick();
    a.weaken_retries::<AtLeastOnce>()
        .batch(&tick, nondet!(/** tick boundary chosen by the harness */))
        .last()
        .all_ticks()
}

pub fn t_count<'a>(a: S<'a, i64>) -> S<'a, usize> {
    let tick = a.location().tick();
    a.weaken_ordering::<NoOrder>()
        .batch(&tick, nondet!(/** tick boundary chosen by the harness */))
        .count()
        .all_ticks()
}

pub fn t_is_empty<'a>(a: S<'a, i64>) -> S<'a, bool> {
    let tick = a.location().tick();
    a.weaken_ordering::<NoOrder>()
        .weaken_retries::<AtLeastOnce>()
        .batch(&tick, nondet!(/** tick boundary chosen by the harness */))
        .is_empty()
        .all_ticks()
}

pub fn t_value_counts<'a>(a: S<'a, Pair>) -> S<'a, Vec<(i64, usize)>> {
    let tick = a.location().tick();
    a.into_keyed()
        .weaken_ordering::<NoOrder>()
        .batch(&tick, nondet!(/** tick boundary chosen by the harness */))
        .value_counts()
        .entries()
        .assume_ordering::<TotalOrder>(nondet!(/** observer */))
        .collect_vec()
        .all_ticks()
}

/// `repeat_with_keys`: keys come from an unordered keyed singleton; values stay ordered.
pub fn t_repeat_with_keys<'a>(a: S<'a, Pair>, b: S<'a, i64>) -> S<'a, (i64, i64)> {
    let tick = a.location().tick();
    let keys = a
        .into_keyed()
        .weaken_ordering::<NoOrder>()
        .batch(&tick, nondet!(/** tick boundary chosen by the harness */))
        .value_counts();
    b.batch(&tick, nondet!(/** tick boundary chosen by the harness */))
        .repeat_with_keys(keys)
        .entries_partially_ordered(nondet!(/** observer */))
        .all_ticks()
}

pub fn t_into_singleton<'a>(a: S<'a, Pair>) -> S<'a, HashMap<i64, i64>> {
    let tick = a.location().tick();
    a.into_keyed()
        .weaken_ordering::<NoOrder>()
        .batch(&tick, nondet!(/** tick boundary chosen by the harness */))
        .fold(
            q!(|| 0i64),
            q!(
                |acc, x| *acc += x,
                commutative = manual_proof!(/** integer addition is commutative */)
            ),
        )
        .into_singleton()
        .all_ticks()
}

pub fn t_get_max_key<'a>(a: S<'a, Pair>) -> S<'a, Pair> {
    let tick = a.location().tick();
    a.into_keyed()
        .weaken_ordering::<NoOrder>()
        .batch(&tick, nondet!(/** tick boundary chosen by the harness */))
        .fold(
            q!(|| 0i64),
            q!(
                |acc, x| *acc += x,
                commutative = manual_proof!(/** integer addition is commutative */)
            ),
        )
        .get_max_key()
        .all_ticks()
}

pub fn t_key_count<'a>(a: S<'a, Pair>) -> S<'a, usize> {
    let tick = a.location().tick();
    a.into_keyed()
        .weaken_ordering::<NoOrder>()
        .batch(&tick, nondet!(/** tick boundary chosen by the harness */))
        .value_counts()
        .key_count()
        .all_ticks()
}

// ---------------------------------------------------------------------------------------------
// C33: collections whose type promises monotone growth / bounded values, observed every tick

pub fn m_count<'a>(a: S<'a, i64>) -> S<'a, usize> {
    let c: Singleton<usize, P<'a>, Monotonic> = a.count();
    obs_single(c)
}

pub fn m_fold_monotone<'a>(a: S<'a, i64>) -> S<'a, i64> {
    let c: Singleton<i64, P<'a>, Monotonic> = a.fold(
        q!(|| i64::MIN),
        q!(
            |acc, x| {
                if x > *acc {
                    *acc = x
                }
            },
            monotone = manual_proof!(/** running max only grows */)
        ),
    );
    obs_single(c)
}

/// Bounded top-level singleton: must never change.
pub fn m_bounded_count<'a>(a: S<'a, i64>) -> S<'a, (usize, usize)> {
    let p = a.location().clone();
    let c: Singleton<usize, P<'a>, Bounded> = p.source_iter(q!(vec![5i64, 6, 7])).count();
    // keep the unbounded input alive so that ticks have something to do
    obs_single(a.count()).cross_singleton(c)
}

pub fn m_k_value_counts<'a>(a: S<'a, Pair>) -> S<'a, Vec<(i64, usize)>> {
    let ks: KeyedSingleton<i64, usize, P<'a>, MonotonicValue> = a.into_keyed().value_counts();
    obs_ks(ks)
}

pub fn m_k_fold_monotone<'a>(a: S<'a, Pair>) -> S<'a, Vec<Pair>> {
    let ks: KeyedSingleton<i64, i64, P<'a>, MonotonicValue> = a.into_keyed().fold(
        q!(|| i64::MIN),
        q!(
            |acc, x| {
                if x > *acc {
                    *acc = x
                }
            },
            monotone = manual_proof!(/** running max only grows */)
        ),
    );
    obs_ks(ks)
}

pub fn m_k_fold_keys<'a>(a: S<'a, Pair>) -> S<'a, Vec<Pair>> {
    let ks: KeyedSingleton<i64, i64, P<'a>, MonotonicKeys> =
        a.into_keyed().fold(q!(|| 0i64), q!(|acc, x| *acc = x - *acc));
    obs_ks(ks)
}

pub fn m_k_reduce_keys<'a>(a: S<'a, Pair>) -> S<'a, Vec<Pair>> {
    obs_ks(a.into_keyed().reduce(q!(|acc, x| *acc = x - *acc)))
}

pub fn m_k_first_map<'a>(a: S<'a, Pair>) -> S<'a, HashMap<i64, i64>> {
    let ks: KeyedSingleton<i64, i64, P<'a>, BoundedValue> = a.into_keyed().first();
    obs_single(ks.into_singleton())
}

pub fn m_k_first_entries<'a>(a: S<'a, Pair>) -> S<'a, Pair> {
    let ks: KeyedSingleton<i64, i64, P<'a>, BoundedValue> = a.into_keyed().first();
    obs_bag(ks.entries())
}

pub fn m_k_early_stop_map<'a>(a: S<'a, Pair>) -> S<'a, HashMap<i64, i64>> {
    let ks: KeyedSingleton<i64, i64, P<'a>, BoundedValue> = a.into_keyed().fold_early_stop(
        q!(|| 0i64),
        q!(|acc, x| {
            *acc = *acc * 3 + x;
            x % 2 == 0
        }),
    );
    obs_single(ks.into_singleton())
}

pub fn m_ks_map_keys<'a>(a: S<'a, Pair>) -> S<'a, Vec<(i64, i64)>> {
    // MonotonicValue -> map erases to MonotonicKeys
    let ks: KeyedSingleton<i64, i64, P<'a>, MonotonicKeys> = a
        .into_keyed()
        .value_counts()
        .map(q!(|c| 10 - (c as i64)));
    obs_ks(ks)
}
