#[cfg(stageleft_runtime)]
hydro_lang::setup!();

use hydro_lang::live_collections::stream::{ExactlyOnce, TotalOrder};
use hydro_lang::prelude::*;

/// Example flow (replace): doubles every input.
pub fn double<'a>(input: Stream<i64, Process<'a, ()>>) -> Stream<i64, Process<'a, ()>> {
    input.map(q!(|x| x * 2))
}

/// Example observer wrapper (replace): a singleton observed as the stream of its per-tick samples.
pub fn running_count<'a>(
    input: Stream<i64, Process<'a, ()>>,
) -> Stream<usize, Process<'a, ()>, Unbounded, TotalOrder, ExactlyOnce> {
    input
        .count()
        .sample_eager(nondet!(/** observer */))
        .assume_ordering(nondet!(/** observer */))
        .assume_retries(nondet!(/** observer */))
}
