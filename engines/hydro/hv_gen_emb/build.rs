//! Runs the production code generator (`generate_embedded`: IR emission + `partition_graph` per location)
//! for every generated flow of `hv_gen_flows` (blocks in the generated `gen_build.rs`). Each flow runs under
//! `catch_unwind`; outcomes go to `$OUT_DIR/gen_status.json`, the code of the successful ones to
//! `$OUT_DIR/<flow>.rs` (+ `all.rs`), their driver shims to `$OUT_DIR/drivers.rs`.
//!
//! The same executable doubles as the C42b emitter: run by hand with `HV_GEN_C42=1` (and the environment
//! recorded in `build_info.json`) it runs every generator twice in-process and writes
//! `$OUT_DIR/c42.json` = { flow: [fnv(text run 1), fnv(text run 2)] } plus the texts.
use std::cell::{Cell, RefCell};
use std::panic::{AssertUnwindSafe, catch_unwind};

use hydro_lang::location::Location;

thread_local! {
    static LAST_PANIC: RefCell<String> = const { RefCell::new(String::new()) };
}

thread_local! {
    static LAST_API: RefCell<String> = const { RefCell::new(String::new()) };
}

/// The innermost hydro_lang live-collection / location API function on the panicking stack that is not a
/// constructor or an internal helper, e.g. `stream::Stream<T,L,B,O,R>::filter_not_in`.
fn api_frame(bt: &str) -> String {
    for line in bt.lines() {
        let l = line.trim();
        let Some((_, name)) = l.split_once(": ") else { continue };
        if !(name.starts_with("hydro_lang::live_collections::") || name.starts_with("hydro_lang::location::")
            || name.starts_with("<hydro_lang::"))
        {
            continue;
        }
        let last = name.rsplit("::").next().unwrap_or("");
        if ["new", "collection_kind", "{{closure}}", "new_node_metadata", "tracked_ir_node"].contains(&last) {
            continue;
        }
        return name
            .trim_start_matches("hydro_lang::live_collections::")
            .trim_start_matches("hydro_lang::")
            .to_string();
    }
    String::new()
}

struct St {
    out_dir: String,
    c42: bool,
    mods: Vec<String>,
    drivers: String,
    registry: Vec<String>,
    status: serde_json::Map<String, serde_json::Value>,
    c42_out: serde_json::Map<String, serde_json::Value>,
}

fn fnv(s: &str) -> String {
    let mut h: u64 = 0xcbf29ce484222325;
    for b in s.bytes() {
        h ^= b as u64;
        h = h.wrapping_mul(0x100000001b3);
    }
    format!("{h:016x}")
}

fn run_flow(st: &mut St, name: &str, driver: &str, f: impl Fn(&Cell<u32>) -> syn::File) {
    let stage = Cell::new(0u32);
    let once = |stage: &Cell<u32>| {
        stage.set(0);
        catch_unwind(AssertUnwindSafe(|| {
            let file = f(stage);
            stage.set(2);
            prettyplease::unparse(&file)
        }))
    };
    match once(&stage) {
        Ok(text) => {
            std::fs::write(format!("{}/{name}.rs", st.out_dir), &text).unwrap();
            if st.c42 {
                let second = match once(&stage) {
                    Ok(t2) => t2,
                    Err(_) => format!("<panic on second run: {}>", LAST_PANIC.with(|p| p.borrow().clone())),
                };
                if second != text {
                    std::fs::write(format!("{}/{name}.second.rs", st.out_dir), &second).unwrap();
                }
                st.c42_out.insert(name.to_string(), serde_json::json!([fnv(&text), fnv(&second), text.len()]));
            }
            st.mods.push(name.to_string());
            st.drivers.push_str(&format!("// @flow {name}\n{driver}\n"));
            st.registry.push(name.to_string());
            st.status.insert(
                name.to_string(),
                serde_json::json!({"status": "ok", "code_bytes": text.len(), "code_hash": fnv(&text)}),
            );
        }
        Err(_) => {
            let msg = LAST_PANIC.with(|p| p.borrow().clone());
            let api = LAST_API.with(|p| p.borrow().clone());
            st.status.insert(
                name.to_string(),
                serde_json::json!({"status": "panic", "stage": stage.get(), "message": msg, "api": api}),
            );
            if st.c42 {
                st.c42_out.insert(name.to_string(), serde_json::json!(["panic", msg]));
            }
        }
    }
}

// defines `fn gen_blocks(st: &mut St)`: one `run_flow(st, name, driver shim, |stage| { .. })` per program
include!("gen_build.rs");

fn main() {
    println!("cargo::rerun-if-changed=build.rs");
    println!("cargo::rerun-if-changed=gen_build.rs");
    println!("cargo::rerun-if-changed=gen_desc.json");
    let out_dir = std::env::var("OUT_DIR").unwrap();
    let c42 = std::env::var("HV_GEN_C42").is_ok();
    std::panic::set_hook(Box::new(|info| {
        let s = info.to_string();
        LAST_PANIC.with(|p| *p.borrow_mut() = s);
        let bt = std::backtrace::Backtrace::force_capture().to_string();
        LAST_API.with(|p| *p.borrow_mut() = api_frame(&bt));
    }));
    let mut st = St {
        out_dir: out_dir.clone(),
        c42,
        mods: vec![],
        drivers: String::new(),
        registry: vec![],
        status: Default::default(),
        c42_out: Default::default(),
    };

    gen_blocks(&mut st);

    let _ = std::panic::take_hook();
    if c42 {
        std::fs::write(format!("{out_dir}/c42.json"), serde_json::Value::Object(st.c42_out).to_string()).unwrap();
        return;
    }
    let mut all = String::new();
    for m in &st.mods {
        all.push_str(&format!(
            "#[allow(unused_imports, unused_qualifications, missing_docs, non_snake_case, unused_variables, unused_mut, dead_code)]\npub mod {m} {{ include!(concat!(env!(\"OUT_DIR\"), \"/{m}.rs\")); }}\n"
        ));
    }
    std::fs::write(format!("{out_dir}/all.rs"), all).unwrap();
    let mut drivers = st.drivers;
    drivers.push_str("pub fn registry() -> Vec<(&'static str, fn(&Plan) -> RunOut)> {\n    vec![\n");
    for n in &st.registry {
        drivers.push_str(&format!("        (\"{n}\", run_{n} as fn(&Plan) -> RunOut),\n"));
    }
    drivers.push_str("    ]\n}\n");
    std::fs::write(format!("{out_dir}/drivers.rs"), drivers).unwrap();
    std::fs::write(format!("{out_dir}/gen_status.json"), serde_json::Value::Object(st.status).to_string()).unwrap();

    // what is needed to re-run this very executable by hand (C42b: three separate processes)
    let mut env = serde_json::Map::new();
    for (k, v) in std::env::vars() {
        if k.starts_with("CARGO") || ["TARGET", "HOST", "PROFILE", "OPT_LEVEL", "DEBUG", "NUM_JOBS", "RUSTC", "RUSTDOC"].contains(&k.as_str()) {
            env.insert(k, serde_json::Value::String(v));
        }
    }
    let info = serde_json::json!({
        "exe": std::env::current_exe().unwrap().to_string_lossy(),
        "cwd": std::env::current_dir().unwrap().to_string_lossy(),
        "out_dir": out_dir,
        "env": env,
    });
    std::fs::write(format!("{out_dir}/build_info.json"), info.to_string()).unwrap();
}
