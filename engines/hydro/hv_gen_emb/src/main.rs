//! Driver for the *generated* Hydro programs (see hv_gen_flows/gen/gen.py, build.rs, vlib/drv_gen.py).
//!
//! * `--dump-status`  prints what build.rs recorded (per-flow generator outcome, how to re-run the generator
//!   executable) -- used by the Python driver for C41 / C42b, which are judged at build time.
//! * `--prop C28`     eventual determinism of the generated programs that use only safe APIs: every such
//!   program is run under many tick partitions of the same inputs; the final observables must agree with
//!   the one-tick run.
#![allow(clippy::type_complexity)]

#[allow(unused_imports)]
pub mod emb {
    include!(concat!(env!("OUT_DIR"), "/all.rs"));
}

use std::cell::{Cell, RefCell};
use std::collections::{BTreeMap, BTreeSet};

use bytes::{Bytes, BytesMut};
use hv_common::{Feed, chunks_of, compositions};
use vcommon::{Reporter, Rng, Value, hash_of, json};

/// One run: which items of which input are released in which tick.
#[derive(Clone, Debug, PartialEq, Eq, Hash)]
pub struct Plan {
    /// number of ticks that carry (possibly empty) input
    pub ticks: usize,
    /// idle rounds (no network traffic) required after the last input tick
    pub extra: usize,
    /// hard cap on additional rounds after the last input tick (a correct run cannot reach it)
    pub cap: usize,
    /// input index -> tick -> items
    pub chunks: Vec<Vec<Vec<(i64, i64)>>>,
}

impl Plan {
    pub fn items(&self, input: usize, tick: usize) -> &[(i64, i64)] {
        self.chunks.get(input).and_then(|c| c.get(tick)).map(|v| &v[..]).unwrap_or(&[])
    }
    fn nonempty_ticks(&self) -> usize {
        (0..self.ticks).filter(|&t| self.chunks.iter().any(|c| c.get(t).is_some_and(|v| !v.is_empty()))).count()
    }
    fn to_json(&self) -> Value {
        json!({"ticks": self.ticks, "extra": self.extra, "cap": self.cap, "chunks": self.chunks})
    }
    fn from_json(v: &Value) -> Plan {
        let chunks = v["chunks"]
            .as_array()
            .unwrap()
            .iter()
            .map(|inp| {
                inp.as_array()
                    .unwrap()
                    .iter()
                    .map(|t| {
                        t.as_array()
                            .unwrap()
                            .iter()
                            .map(|p| (p[0].as_i64().unwrap(), p[1].as_i64().unwrap()))
                            .collect()
                    })
                    .collect()
            })
            .collect();
        Plan {
            ticks: v["ticks"].as_u64().unwrap() as usize,
            extra: v["extra"].as_u64().unwrap() as usize,
            cap: v["cap"].as_u64().unwrap() as usize,
            chunks,
        }
    }
}

pub struct RunOut {
    /// per output: (tick in which it was emitted, Debug rendering)
    pub outs: Vec<Vec<(usize, String)>>,
    pub ticks_run: usize,
    pub hung: bool,
}

#[allow(unused_imports, unused_variables, unused_mut, dead_code, clippy::all)]
mod drivers {
    use super::*;
    include!(concat!(env!("OUT_DIR"), "/drivers.rs"));
}

const STATUS: &str = include_str!(concat!(env!("OUT_DIR"), "/gen_status.json"));
const BUILD_INFO: &str = include_str!(concat!(env!("OUT_DIR"), "/build_info.json"));
const DESC: &str = include_str!("../gen_desc.json");

// ------------------------------------------------------------------------------------------------
// observables

/// Canonical final observable of one output, as demanded by C28 for the *declared* type of the result.
#[derive(Clone, Debug, PartialEq, Eq, Hash, PartialOrd, Ord)]
enum Observable {
    Sequence(Vec<String>),
    Multiset(Vec<String>),
    Set(BTreeSet<String>),
    PerKeySequence(BTreeMap<String, Vec<String>>),
    Last(Option<String>),
}

fn observable(out: &Value, items: &[(usize, String)]) -> Observable {
    let strs = || items.iter().map(|x| x.1.clone());
    match out["observe"].as_str().unwrap() {
        "set" => Observable::Set(strs().collect()),
        "multiset" => {
            let mut v: Vec<String> = strs().collect();
            v.sort();
            Observable::Multiset(v)
        }
        "sequence" => Observable::Sequence(strs().collect()),
        "per_key_sequence" => {
            let mut m: BTreeMap<String, Vec<String>> = BTreeMap::new();
            for s in strs() {
                let (k, v) = s.split_once('\u{1}').unwrap_or((&s, ""));
                m.entry(k.to_string()).or_default().push(v.to_string());
            }
            Observable::PerKeySequence(m)
        }
        "last" => Observable::Last(items.last().map(|x| x.1.clone())),
        o => panic!("unknown observation mode {o}"),
    }
}

/// Signature class of an output: its declared kind/guarantees, plus whether its backward slice contains a
/// join / cross product whose result Hydro types `Bounded` although one operand is `Unbounded`.
fn class_of(out: &Value) -> String {
    let kind = out["kind"].as_str().unwrap();
    let base = match kind {
        "S" | "KS" => format!("{}:{}:{}", kind, out["order"].as_str().unwrap_or(""), out["retry"].as_str().unwrap_or("")),
        k => k.to_string(),
    };
    let mixed = out["slice_ops"]
        .as_array()
        .map(|a| a.iter().any(|o| o.as_str().unwrap_or("").ends_with("_bounded_left_unbounded_right")))
        .unwrap_or(false);
    if mixed {
        // one root cause whatever the kind of the output that shows it
        "slice has a join typed Bounded over an Unbounded operand".to_string()
    } else {
        format!("{base}|no mixed-boundedness join in slice")
    }
}

// ------------------------------------------------------------------------------------------------
// C28

fn rand_items(rng: &mut Rng, n: usize) -> Vec<(i64, i64)> {
    // small key domain so that joins / keyed folds / unique meet equal keys and duplicates
    (0..n).map(|_| (rng.range(0, 3), rng.range(-3, 9))).collect()
}

fn with_gaps(rng: &mut Rng, chunks: Vec<Vec<(i64, i64)>>, max_gap: usize) -> Vec<Vec<(i64, i64)>> {
    let mut out = vec![];
    for c in chunks {
        for _ in 0..rng.below(max_gap + 1) {
            out.push(vec![]);
        }
        out.push(c);
    }
    out
}

fn mk_plan(chunks: Vec<Vec<Vec<(i64, i64)>>>, desc: &Value) -> Plan {
    let ticks = chunks.iter().map(|c| c.len()).max().unwrap_or(0).max(1);
    let looping = desc["has_loop"].as_bool().unwrap_or(false);
    let hops = desc["channels"].as_array().map(|a| a.len()).unwrap_or(0);
    Plan { ticks, extra: 3 + hops, cap: if looping { 400 } else { 40 + 4 * hops }, chunks }
}

struct Outcome {
    obs: Vec<Observable>,
    hung: bool,
}

fn run_plan(f: fn(&Plan) -> RunOut, desc: &Value, plan: &Plan) -> Result<Outcome, String> {
    let r = vcommon::catch(|| f(plan))?;
    let outs = desc["outputs"].as_array().unwrap();
    let obs = outs.iter().zip(r.outs.iter()).map(|(o, items)| observable(o, items)).collect();
    Ok(Outcome { obs, hung: r.hung })
}

fn case_json(desc: &Value, inputs: &[Vec<(i64, i64)>], plan: &Plan) -> Value {
    json!({"engine": "hv_gen_emb", "prop": "C28", "program": desc["name"], "inputs": inputs, "plan": plan.to_json(),
           "desc": desc})
}

/// Judge one (program, inputs, plan) against the one-tick baseline. Returns false on violation.
fn judge(
    rep: &mut Reporter,
    f: fn(&Plan) -> RunOut,
    desc: &Value,
    inputs: &[Vec<(i64, i64)>],
    base: &Outcome,
    plan: &Plan,
    distinct_obs: &mut BTreeSet<u64>,
) -> bool {
    let outs = desc["outputs"].as_array().unwrap();
    rep.eval();
    rep.count("partitions_run");
    if plan.nonempty_ticks() >= 2 {
        rep.nontrivial(hash_of(&(desc["text_hash"].as_str().unwrap_or(""), plan)));
    }
    match run_plan(f, desc, plan) {
        Err(msg) => {
            rep.violation(
                "C28|hv_gen_emb|panic under some tick partitions only",
                &format!("program {} ran to completion in one tick but panicked under a partition: {msg}", desc["name"]),
                case_json(desc, inputs, plan),
            );
            false
        }
        Ok(o) if o.hung => {
            rep.count("partition_not_quiescent");
            true
        }
        Ok(o) => {
            let mut ok = true;
            for (j, (a, b)) in base.obs.iter().zip(o.obs.iter()).enumerate() {
                distinct_obs.insert(hash_of(b));
                if a != b {
                    ok = false;
                    rep.violation(
                        &format!("C28|hv_gen_emb|final observable differs across tick partitions|{}", class_of(&outs[j])),
                        &format!(
                            "program {} output out{j} ({}): one-tick run gives {:?}, partition gives {:?}",
                            desc["name"], outs[j]["type"], a, b
                        ),
                        case_json(desc, inputs, plan),
                    );
                }
            }
            ok
        }
    }
}

fn c28(args: &vcommon::Args) {
    let mut rep = Reporter::new("C28", args.seed);
    let descs: Vec<Value> = vcommon::serde_json::from_str(DESC).expect("gen_desc.json");
    let registry: BTreeMap<&str, fn(&Plan) -> RunOut> = drivers::registry().into_iter().collect();
    let mut distinct_obs = BTreeSet::new();

    if let Some(case) = args.replay_case() {
        let name = case["program"].as_str().unwrap();
        let desc = descs.iter().find(|d| d["name"] == name).expect("replayed program is not in this build");
        let f = *registry.get(name).expect("replayed program has no driver in this build");
        let inputs: Vec<Vec<(i64, i64)>> = case["inputs"]
            .as_array()
            .unwrap()
            .iter()
            .map(|i| i.as_array().unwrap().iter().map(|p| (p[0].as_i64().unwrap(), p[1].as_i64().unwrap())).collect())
            .collect();
        let plan = Plan::from_json(&case["plan"]);
        let base_plan = mk_plan(inputs.iter().map(|i| vec![i.clone()]).collect(), desc);
        let base = run_plan(f, desc, &base_plan).expect("baseline run panicked");
        judge(&mut rep, f, desc, &inputs, &base, &plan, &mut distinct_obs);
        rep.finish("replay", false);
        return;
    }

    let per_program = args.budget(300, 1500, 4);
    let rng = args.rng();
    let mut ops_seen: BTreeSet<String> = BTreeSet::new();
    for desc in &descs {
        let name = desc["name"].as_str().unwrap();
        if !desc["safe"].as_bool().unwrap_or(false) {
            rep.count("programs_out_of_scope_nondet");
            continue;
        }
        let Some(&f) = registry.get(name) else {
            rep.count("programs_without_code");
            continue;
        };
        let mut prng = rng.fork(hash_of(name));
        let n_in = desc["inputs"].as_array().unwrap().len();
        let mut program_ok = true;
        let mut ran = false;
        // regimes: (items per input, exhaustive compositions?)
        for regime in 0..3 {
            let (n_items, budget) = match regime {
                0 => (4usize, per_program / 3),
                1 => (5, per_program / 3),
                _ => (30, per_program / 3),
            };
            let inputs: Vec<Vec<(i64, i64)>> = (0..n_in).map(|_| rand_items(&mut prng, n_items)).collect();
            let base_plan = mk_plan(inputs.iter().map(|i| vec![i.clone()]).collect(), desc);
            let base = match run_plan(f, desc, &base_plan) {
                Err(msg) => {
                    rep.count("baseline_panicked");
                    rep.sample(|| json!({"program": name, "baseline_panic": msg}));
                    break;
                }
                Ok(b) if b.hung => {
                    rep.count("baseline_not_quiescent");
                    break;
                }
                Ok(b) => b,
            };
            ran = true;
            if std::env::var("HV_GEN_SHOW").is_ok() {
                eprintln!("{name} regime {regime} inputs {inputs:?}\n   baseline {:?}", base.obs);
            }
            for o in &base.obs {
                distinct_obs.insert(hash_of(o));
            }
            let mut plans: Vec<Plan> = vec![];
            if n_items <= 5 {
                let comps = compositions(n_items);
                let total: usize = comps.len().pow(n_in as u32);
                if total <= budget {
                    // all combinations of compositions, aligned at tick 0
                    let mut idx = vec![0usize; n_in];
                    loop {
                        let chunks = (0..n_in).map(|k| chunks_of(&inputs[k], &comps[idx[k]])).collect();
                        plans.push(mk_plan(chunks, desc));
                        let mut k = 0;
                        while k < n_in {
                            idx[k] += 1;
                            if idx[k] < comps.len() {
                                break;
                            }
                            idx[k] = 0;
                            k += 1;
                        }
                        if k == n_in {
                            break;
                        }
                    }
                    rep.count("inputs_enumerated_exhaustively");
                }
                while plans.len() < budget {
                    let chunks = (0..n_in)
                        .map(|k| {
                            let c = prng.choose(&comps).clone();
                            with_gaps(&mut prng, chunks_of(&inputs[k], &c), 2)
                        })
                        .collect();
                    plans.push(mk_plan(chunks, desc));
                }
            } else {
                for _ in 0..budget {
                    let chunks = (0..n_in)
                        .map(|k| {
                            let t = 2 + prng.below(7);
                            hv_common::random_chunks(&mut prng, &inputs[k], t)
                        })
                        .collect();
                    plans.push(mk_plan(chunks, desc));
                }
            }
            for plan in &plans {
                if !judge(&mut rep, f, desc, &inputs, &base, plan, &mut distinct_obs) {
                    program_ok = false;
                    break;
                }
            }
            if !program_ok {
                break;
            }
        }
        if ran {
            rep.count("programs_run");
            for op in desc["distinct_ops"].as_array().unwrap() {
                let op = op.as_str().unwrap();
                ops_seen.insert(op.to_string());
                rep.count(&format!("op:{op}"));
            }
            if desc["has_loop"].as_bool().unwrap_or(false) {
                rep.count("programs_with_runtime_loop");
            }
            if desc["nprocs"].as_u64().unwrap_or(1) > 1 {
                rep.count("programs_multi_location");
            }
            rep.sample(|| json!({"program": name, "ops": desc["distinct_ops"], "outputs": desc["outputs"], "ok": program_ok}));
        }
    }
    rep.extra("distinct_final_observables", json!(distinct_obs.len()));
    rep.extra("operators_covered", json!(ops_seen));
    let programs = rep.counter("programs_run");
    let in_scope = descs.iter().filter(|d| d["safe"].as_bool().unwrap_or(false)).count() as u64;
    if args.tier != vcommon::Tier::Miri {
        rep.require(in_scope >= 5, "fewer than 5 generated programs are in scope (no nondet! API)");
        rep.require(programs * 3 >= in_scope * 2, "fewer than two thirds of the in-scope generated programs could be run");
        rep.require(ops_seen.len() >= 25, "fewer than 25 distinct operators covered by the safe programs that ran");
        let bad = rep.counter("baseline_panicked") + rep.counter("baseline_not_quiescent");
        rep.require(bad * 4 <= programs.max(1), "more than a quarter of the safe programs could not be run to quiescence");
    }
    rep.finish(
        "Programs: the seed's generated Hydro flows that use no nondet! API (top-level operators only, incl. multi-location \
         hops and forward-reference loops), compiled by generate_embedded. For each, random inputs of 4, 5 and 30 items per \
         input; every combination of compositions of the small inputs into ticks when that fits the budget, otherwise random \
         compositions with empty ticks interleaved, random chunkings for the 30-item inputs. Each run feeds exactly the \
         chosen chunk per tick, then runs to network quiescence plus idle ticks. Judged: final observable of every output \
         (sequence for TotalOrder, multiset for NoOrder, set for AtLeastOnce, per-key sequence for ordered keyed streams, \
         last sample for singleton/optional/keyed singleton) equals that of the one-tick run. Non-trivial = a run with >= 2 \
         non-empty ticks (distinct program text x plan).",
        false,
    );
}

fn main() {
    let args = vcommon::Args::parse();
    if args.rest.iter().any(|a| a == "--dump-status") {
        let status: Value = vcommon::serde_json::from_str(STATUS).unwrap();
        let info: Value = vcommon::serde_json::from_str(BUILD_INFO).unwrap();
        let drivers: Vec<&str> = drivers::registry().into_iter().map(|x| x.0).collect();
        println!("{}", json!({"status": status, "build_info": info, "drivers": drivers}));
        return;
    }
    if args.prop == "NONE" {
        return;
    }
    match args.prop.as_str() {
        "C28" => c28(&args),
        p => {
            eprintln!("hv_gen_emb: property {p} is judged by vlib/drv_gen.py (build-time), not by this binary");
            std::process::exit(3);
        }
    }
}

#[allow(dead_code)]
fn _unused(_: Cell<u8>, _: RefCell<u8>, _: Bytes, _: BytesMut, _: Feed<u8>) {}
