//! C35, simulator stage (`tests::c35_sim_network`, run by bin/check through the `cargotest` stage kind).
//!
//! The embedded-mode stage (hv_net_emb) plays the transport itself; here the Hydro simulator's own network
//! carries the messages. Two flow shapes are compiled (the simulator recompiles a dylib per shape on every
//! run, so each holds many channels, which also makes the routing tables interesting):
//!   net      process P1 demuxes to TWO clusters A and B over channels with the SAME name and over unnamed
//!            channels; a second process P2 demuxes to A over the same name; A's members send to process Q
//!            (sender tag) and demux to B over one more shared name
//!   net_v2   the same as a multi-version flow: B has a v0 and a v1 (`next_version`), reached by P1,
//!            P2 (v1 only) and A over the shared names
//!   bcast    A's members broadcast and demux to B (its own shape: the simulator explores when each
//!            destination member joins, which multiplies the executions of every script)
//! A script is a list of sends; every member of every receiving location is observed
//! (`sim_cluster_output` / `sim_output`). Small scripts are explored with `exhaustive`, larger random ones
//! with seeded single-instance schedules (`fuzz_repro`, bytes from the monitor's RNG: reproducible).
//! Oracle (the embedded stage's): every delivered value is value-equal to a sent one, appears on the channel
//! it was sent on, at the member it was addressed to, with the sender's id, in per-sender order, exactly
//! once (broadcast: at most once per member, order-preserving); nothing is lost.
use std::collections::HashMap;
use std::ops::Deref;
use std::panic::{AssertUnwindSafe, RefUnwindSafe};
use std::sync::Mutex;

use hydro_lang::live_collections::stream::{ExactlyOnce, TotalOrder};
use hydro_lang::location::{Location, MemberId};
use hydro_lang::prelude::*;
use hydro_lang::sim::compiled::{CompiledSim, CompiledSimInstance};
use hydro_lang::sim::{SimClusterReceiver, SimClusterSender, SimReceiver, SimSender};
use serde::{Deserialize, Serialize};
use vcommon::{Args, Reporter, Rng, Value, hash_of, json};

use crate::{Dst, Rec, Shape, Src, TagA, TagB};

type PTx<Tag> = &'static SimSender<(MemberId<Tag>, Rec), TotalOrder, ExactlyOnce>;
type CTx<T> = &'static SimClusterSender<T, TotalOrder, ExactlyOnce>;

fn leak<T>(t: T) -> &'static T {
    Box::leak(Box::new(t))
}

enum InPort {
    /// process -> cluster A demux
    PdA(PTx<TagA>),
    /// process -> cluster B demux
    PdB(PTx<TagB>),
    /// members of cluster A send a bare value (to a process, or broadcast)
    C(CTx<Rec>),
    /// members of cluster A demux to cluster B
    CdB(CTx<(MemberId<TagB>, Rec)>),
}

enum OutPort {
    C(SimClusterReceiver<Rec, TotalOrder, ExactlyOnce>),
    CtA(SimClusterReceiver<(MemberId<TagA>, Rec), TotalOrder, ExactlyOnce>),
    PtA(SimReceiver<(MemberId<TagA>, Rec), TotalOrder, ExactlyOnce>),
}

#[derive(Clone, Copy, PartialEq, Eq, Debug)]
enum Mode {
    Demux,
    Bcast,
    ToProc,
}

struct Chan {
    label: &'static str,
    input: InPort,
    /// Channels of one class are the same logical channel (same name, same source, same destination
    /// location up to versions); a value sent on a channel may only come out of outputs of its class.
    class: usize,
    mode: Mode,
    /// member ids of the sending cluster (empty: the sender is a process)
    src_members: Vec<u32>,
}

struct Out {
    label: &'static str,
    port: OutPort,
    class: usize,
    /// member ids served by this output (empty: the receiver is a process, observed as member 0)
    members: Vec<u32>,
}

struct Net {
    name: &'static str,
    sim: CompiledSim,
    chans: Vec<Chan>,
    outs: Vec<Out>,
}

#[derive(Clone, Debug, Serialize, Deserialize)]
struct Msg {
    chan: usize,
    /// sending member (0 for a process)
    from: u32,
    /// addressed member for demux channels
    to: Option<u32>,
    val: Rec,
}

#[derive(Clone, Debug, Serialize, Hash)]
struct Obs {
    out: usize,
    member: u32,
    /// (sender id reported by the program, value) in output order
    items: Vec<(Option<u32>, Rec)>,
}

// -------------------------------------------------------------------------------------------------
// flow shapes

fn build_net(versioned: bool) -> Net {
    let mut flow = FlowBuilder::new();
    let p1 = flow.process::<Src>();
    let p2 = flow.process::<Src>();
    let a = flow.cluster::<TagA>();
    let b = flow.cluster::<TagB>();
    let q = flow.process::<Dst>();
    let x = || TCP.fail_stop().bincode().name("x");
    let m = || TCP.fail_stop().bincode().name("m");
    let mut chans = vec![];
    let mut outs = vec![];
    let a_members = vec![0u32, 1];
    let b_members: Vec<u32> = if versioned { vec![0, 1] } else { vec![0, 1, 2] };

    // chan 0 / class 0: P1 -> A over "x"
    let (i, s) = p1.sim_input::<(MemberId<TagA>, Rec), TotalOrder, ExactlyOnce>();
    let o = s.demux(&a, x()).sim_cluster_output();
    chans.push(Chan { label: "P1->A 'x'", input: InPort::PdA(leak(i)), class: 0, mode: Mode::Demux, src_members: vec![] });
    outs.push(Out { label: "A from P1 'x'", port: OutPort::C(o), class: 0, members: a_members.clone() });

    // chan 1 / class 1: P1 -> B over "x" (same name, same source, other destination cluster)
    let (i, s) = p1.sim_input::<(MemberId<TagB>, Rec), TotalOrder, ExactlyOnce>();
    let o = s.demux(&b, x()).sim_cluster_output();
    chans.push(Chan { label: "P1->B 'x'", input: InPort::PdB(leak(i)), class: 1, mode: Mode::Demux, src_members: vec![] });
    outs.push(Out { label: "B from P1 'x'", port: OutPort::C(o), class: 1, members: b_members.clone() });

    // chan 2 / class 2: P2 -> A over "x" (two sources, one cluster, same name)
    let (i, s) = p2.sim_input::<(MemberId<TagA>, Rec), TotalOrder, ExactlyOnce>();
    let o = s.demux(&a, x()).sim_cluster_output();
    chans.push(Chan { label: "P2->A 'x'", input: InPort::PdA(leak(i)), class: 2, mode: Mode::Demux, src_members: vec![] });
    outs.push(Out { label: "A from P2 'x'", port: OutPort::C(o), class: 2, members: a_members.clone() });

    // chans 3, 4 / classes 3, 4: P1 -> A and P1 -> B over unnamed channels
    let (i, s) = p1.sim_input::<(MemberId<TagA>, Rec), TotalOrder, ExactlyOnce>();
    let o = s.demux(&a, TCP.fail_stop().bincode()).sim_cluster_output();
    chans.push(Chan { label: "P1->A unnamed", input: InPort::PdA(leak(i)), class: 3, mode: Mode::Demux, src_members: vec![] });
    outs.push(Out { label: "A from P1 unnamed", port: OutPort::C(o), class: 3, members: a_members.clone() });
    let (i, s) = p1.sim_input::<(MemberId<TagB>, Rec), TotalOrder, ExactlyOnce>();
    let o = s.demux(&b, TCP.fail_stop().bincode()).sim_cluster_output();
    chans.push(Chan { label: "P1->B unnamed", input: InPort::PdB(leak(i)), class: 4, mode: Mode::Demux, src_members: vec![] });
    outs.push(Out { label: "B from P1 unnamed", port: OutPort::C(o), class: 4, members: b_members.clone() });

    // chan 5 / class 5: A -> Q (the receiver sees the sender's member id). In the single-version shape it
    // shares the name "m" with A -> B; in the multi-version shape it has its own name, so that a
    // (hypothetical) confusion of the two channels shows up as a misdelivery instead of as generated
    // simulator code that does not compile (process- and cluster-addressed frames differ in type).
    let (i, s) = a.sim_input::<Rec, TotalOrder, ExactlyOnce>();
    let to_q = if versioned { TCP.fail_stop().bincode().name("q") } else { m() };
    let o = s.send(&q, to_q).entries_partially_ordered(nondet!(/** observer */)).sim_output();
    chans.push(Chan { label: "A->Q 'm'/'q'", input: InPort::C(leak(i)), class: 5, mode: Mode::ToProc, src_members: a_members.clone() });
    outs.push(Out { label: "Q from A 'm'", port: OutPort::PtA(o), class: 5, members: vec![] });

    // chan 6 / class 6: A -> B demux over "m" (same name, same source cluster, other destination)
    let (i, s) = a.sim_input::<(MemberId<TagB>, Rec), TotalOrder, ExactlyOnce>();
    let o = s.demux(&b, m()).entries_partially_ordered(nondet!(/** observer */)).sim_cluster_output();
    chans.push(Chan { label: "A->B 'm'", input: InPort::CdB(leak(i)), class: 6, mode: Mode::Demux, src_members: a_members.clone() });
    outs.push(Out { label: "B from A 'm'", port: OutPort::CtA(o), class: 6, members: b_members.clone() });

    let sim = if versioned {
        // v1 of cluster B: members 2, 3 of the merged cluster
        let b2 = flow.next_version(&b);
        // chan 7 / class 1 again: P1 -> B(v1) over "x" is the same logical channel as P1 -> B(v0) over "x"
        let (i, s) = p1.sim_input::<(MemberId<TagB>, Rec), TotalOrder, ExactlyOnce>();
        let o = s.demux(&b2, x()).sim_cluster_output();
        chans.push(Chan { label: "P1->B(v1) 'x'", input: InPort::PdB(leak(i)), class: 1, mode: Mode::Demux, src_members: vec![] });
        outs.push(Out { label: "B(v1) from P1 'x'", port: OutPort::C(o), class: 1, members: vec![2, 3] });
        // chan 8 / class 8: P2 -> B(v1) over "x" (a v1-only channel from the other source)
        let (i, s) = p2.sim_input::<(MemberId<TagB>, Rec), TotalOrder, ExactlyOnce>();
        let o = s.demux(&b2, x()).sim_cluster_output();
        chans.push(Chan { label: "P2->B(v1) 'x'", input: InPort::PdB(leak(i)), class: 8, mode: Mode::Demux, src_members: vec![] });
        outs.push(Out { label: "B(v1) from P2 'x'", port: OutPort::C(o), class: 8, members: vec![2, 3] });
        // chan 9 / class 6 again: A -> B(v1) demux over "m"
        let (i, s) = a.sim_input::<(MemberId<TagB>, Rec), TotalOrder, ExactlyOnce>();
        let o = s.demux(&b2, m()).entries_partially_ordered(nondet!(/** observer */)).sim_cluster_output();
        chans.push(Chan { label: "A->B(v1) 'm'", input: InPort::CdB(leak(i)), class: 6, mode: Mode::Demux, src_members: a_members.clone() });
        outs.push(Out { label: "B(v1) from A 'm'", port: OutPort::CtA(o), class: 6, members: vec![2, 3] });
        flow.sim().with_cluster_size(&a, 2).with_cluster_size(&b, 2).with_cluster_size(&b2, 2).compiled()
    } else {
        flow.sim().with_cluster_size(&a, 2).with_cluster_size(&b, 3).compiled()
    };
    Net { name: if versioned { "net_v2" } else { "net" }, sim, chans, outs }
}

/// Broadcast lives in its own small shape: the simulator explores when each member of the destination
/// cluster joins, which multiplies the executions of every script of the shape.
fn build_bcast() -> Net {
    let mut flow = FlowBuilder::new();
    let a = flow.cluster::<TagA>();
    let b = flow.cluster::<TagB>();
    let mut chans = vec![];
    let mut outs = vec![];
    // chan 0 / class 0: A -> B broadcast (unnamed)
    let (i, s) = a.sim_input::<Rec, TotalOrder, ExactlyOnce>();
    let o = s
        .broadcast(&b, TCP.fail_stop().bincode(), nondet!(/** membership is the simulator's */))
        .entries_partially_ordered(nondet!(/** observer */))
        .sim_cluster_output();
    chans.push(Chan { label: "A->B broadcast", input: InPort::C(leak(i)), class: 0, mode: Mode::Bcast, src_members: vec![0, 1] });
    outs.push(Out { label: "B from A broadcast", port: OutPort::CtA(o), class: 0, members: vec![0, 1] });
    // chan 1 / class 1: A -> B demux over "m"
    let (i, s) = a.sim_input::<(MemberId<TagB>, Rec), TotalOrder, ExactlyOnce>();
    let o = s
        .demux(&b, TCP.fail_stop().bincode().name("m"))
        .entries_partially_ordered(nondet!(/** observer */))
        .sim_cluster_output();
    chans.push(Chan { label: "A->B 'm'", input: InPort::CdB(leak(i)), class: 1, mode: Mode::Demux, src_members: vec![0, 1] });
    outs.push(Out { label: "B from A 'm'", port: OutPort::CtA(o), class: 1, members: vec![0, 1] });
    let sim = flow.sim().with_cluster_size(&a, 2).with_cluster_size(&b, 2).compiled();
    Net { name: "bcast", sim, chans, outs }
}

// -------------------------------------------------------------------------------------------------
// driving and judging one execution

async fn drive(net: &Net, script: &[Msg]) -> Vec<Obs> {
    for m in script {
        match &net.chans[m.chan].input {
            InPort::PdA(s) => s.send((MemberId::from_raw_id(m.to.expect("demux dest")), m.val.clone())),
            InPort::PdB(s) => s.send((MemberId::from_raw_id(m.to.expect("demux dest")), m.val.clone())),
            InPort::C(s) => s.send(m.from, m.val.clone()),
            InPort::CdB(s) => s.send(m.from, (MemberId::from_raw_id(m.to.expect("demux dest")), m.val.clone())),
        }
    }
    let mut obs = vec![];
    for (i, o) in net.outs.iter().enumerate() {
        match &o.port {
            OutPort::C(r) => {
                for &member in &o.members {
                    let v: Vec<Rec> = (*r).collect(member).await;
                    obs.push(Obs { out: i, member, items: v.into_iter().map(|x| (None, x)).collect() });
                }
            }
            OutPort::CtA(r) => {
                for &member in &o.members {
                    let v: Vec<(MemberId<TagA>, Rec)> = (*r).collect(member).await;
                    obs.push(Obs { out: i, member, items: v.into_iter().map(|(id, x)| (Some(id.get_raw_id()), x)).collect() });
                }
            }
            OutPort::PtA(r) => {
                let v: Vec<(MemberId<TagA>, Rec)> = (*r).collect().await;
                obs.push(Obs { out: i, member: 0, items: v.into_iter().map(|(id, x)| (Some(id.get_raw_id()), x)).collect() });
            }
        }
    }
    obs
}

#[derive(Default)]
struct Judgement {
    findings: Vec<(&'static str, String)>,
    nontrivial: bool,
    evals: u64,
}

impl Judgement {
    fn find(&mut self, kind: &'static str, detail: String) {
        if !self.findings.iter().any(|(k, _)| *k == kind) {
            self.findings.push((kind, detail));
        }
    }
}

fn js<T: Serialize>(t: &T) -> String {
    let s = serde_json::to_string(t).unwrap_or_default();
    if s.len() > 300 { format!("{}…", s.chars().take(300).collect::<String>()) } else { s }
}

fn judge(net: &Net, script: &[Msg], obs: &[Obs]) -> Judgement {
    let mut j = Judgement::default();
    let mut seen: HashMap<usize, Vec<(usize, u32)>> = HashMap::new();
    for ob in obs {
        let out = &net.outs[ob.out];
        let mut last: HashMap<(usize, u32), usize> = HashMap::new();
        for (tag, rec) in &ob.items {
            j.evals += 1;
            let at = format!("output '{}' member {}", out.label, ob.member);
            let Some(mi) = script.iter().position(|m| m.val.id == rec.id) else {
                j.find("unknown-value", format!("{at} produced a value nobody sent: {}", js(rec)));
                continue;
            };
            let m = &script[mi];
            let ch = &net.chans[m.chan];
            if m.val != *rec {
                j.find("value-mismatch", format!("{at}: sent {} on '{}', received {}", js(&m.val), ch.label, js(rec)));
            }
            if ch.class != out.class {
                j.find(
                    "misrouted-channel",
                    format!("message #{mi} sent on '{}' to member {:?} came out of {at}, which belongs to another channel / destination", ch.label, m.to),
                );
            } else if ch.mode == Mode::Demux && m.to != Some(ob.member) {
                j.find("misrouted-member", format!("message #{mi} sent on '{}' to member {:?} was delivered to {at}", ch.label, m.to));
            }
            let expect_tag = if ch.src_members.is_empty() { None } else { Some(m.from) };
            if *tag != expect_tag {
                j.find("wrong-sender-tag", format!("message #{mi} sent on '{}' by {:?} arrived at {at} tagged {:?}", ch.label, expect_tag, tag));
            }
            if let Some(prev) = last.insert((m.chan, m.from), mi) {
                if prev > mi {
                    j.find("order", format!("{at}: message #{prev} came out before message #{mi} of the same sender on '{}'", ch.label));
                }
            }
            seen.entry(mi).or_default().push((ob.out, ob.member));
        }
    }
    for (mi, m) in script.iter().enumerate() {
        j.evals += 1;
        let ch = &net.chans[m.chan];
        let places = seen.get(&mi).cloned().unwrap_or_default();
        let mut uniq = places.clone();
        uniq.sort();
        uniq.dedup();
        if uniq.len() != places.len() {
            j.find("duplicate", format!("message #{mi} sent on '{}' to {:?} was delivered more than once to one member: {:?}", ch.label, m.to, places));
        }
        if ch.mode != Mode::Bcast {
            if places.is_empty() {
                j.find("lost", format!("message #{mi} sent on '{}' to {:?} ({}) was never delivered", ch.label, m.to, js(&m.val)));
            } else if uniq.len() > 1 {
                j.find("delivered-to-several", format!("message #{mi} sent on '{}' to {:?} was delivered at (output, member) {:?}", ch.label, m.to, uniq));
            }
        }
    }
    let mut ends: Vec<(usize, Option<u32>)> = script.iter().map(|m| (net.chans[m.chan].class, m.to)).collect();
    ends.sort();
    ends.dedup();
    let places = obs.iter().filter(|o| !o.items.is_empty()).count();
    j.nontrivial = j.findings.is_empty() && ends.len() >= 2 && places >= 2;
    j
}

// -------------------------------------------------------------------------------------------------
// scripts

fn val(id: i64) -> Rec {
    let blank = Rec { id, name: String::new(), opt: None, items: vec![], shape: Shape::Unit, unit: (), flag: false, pair: (String::new(), (0, vec![])) };
    match id % 5 {
        0 => blank,
        1 => Rec { name: "名前 \0 🦀".into(), flag: true, pair: ("k".into(), (i64::MIN, vec![None, Some(i64::MAX)])), ..blank },
        2 => Rec { opt: Some(Box::new(Rec { id: -id, ..blank.clone() })), items: vec![(i64::MAX, None), (0, Some(String::new()))], ..blank },
        3 => Rec { shape: Shape::Many(vec![Shape::Nest(Box::new(Shape::Pair(-1, "p".into()))), Shape::Named { x: None, tags: vec!["".into()] }]), ..blank },
        _ => Rec { name: "x".repeat(300), shape: Shape::One(i64::MIN), items: (0..20).map(|i| (i, Some(i.to_string()))).collect(), ..blank },
    }
}

/// (channel, from, to) triples -> script with distinct, nested values
fn script_of(sends: &[(usize, u32, Option<u32>)]) -> Vec<Msg> {
    sends.iter().enumerate().map(|(i, (chan, from, to))| Msg { chan: *chan, from: *from, to: *to, val: val(1000 + i as i64) }).collect()
}

fn exhaustive_scripts(net: &Net) -> Vec<Vec<Msg>> {
    let d = |c: usize, to: u32| (c, 0u32, Some(to));
    if net.name == "bcast" {
        let v: Vec<Vec<(usize, u32, Option<u32>)>> =
            vec![vec![(0, 0, None)], vec![(0, 0, None), (0, 1, None)], vec![(0, 1, None), (1, 0, Some(1))]];
        return v.iter().map(|s| script_of(s)).collect();
    }
    let mut v: Vec<Vec<(usize, u32, Option<u32>)>> = vec![
        // same-numbered members of the two clusters over the same-named channels
        vec![d(0, 0), d(1, 0)],
        vec![d(1, 1), d(0, 1), d(1, 0)],
        // two sources, one cluster, same name
        vec![d(0, 0), d(2, 0)],
        vec![d(2, 1), d(0, 1), d(1, 1)],
        // unnamed channels
        vec![d(3, 0), d(4, 0)],
        vec![d(3, 1), d(0, 1), d(4, 1)],
        // order on one link
        vec![d(0, 0), d(0, 0), d(1, 0)],
        // cluster -> process (sender tags), cluster -> cluster demux over the same name
        vec![(5, 0, None), (5, 1, None)],
        vec![(6, 0, Some(0)), (6, 1, Some(0))],
        vec![(6, 0, Some(1)), (5, 0, None), (6, 1, Some(0))],
        vec![(6, 0, Some(0)), (6, 0, Some(0)), (5, 0, None)],
        // process- and cluster-sourced traffic to the same members
        vec![d(1, 0), (6, 1, Some(0)), (5, 1, None)],
    ];
    if net.name == "net" {
        v.push(vec![d(1, 2), d(0, 1), d(4, 2)]);
        v.push(vec![(6, 0, Some(2)), (6, 1, Some(1))]);
    } else {
        // chans 7 = P1->B(v1) 'x' (same logical channel as 1), 8 = P2->B(v1) 'x', 9 = A->B(v1) 'm' (as 6)
        v.push(vec![d(1, 0), d(7, 2)]);
        v.push(vec![d(1, 1), d(7, 3), d(0, 1)]);
        v.push(vec![d(7, 2), d(8, 2), d(0, 0)]);
        v.push(vec![(6, 0, Some(0)), (9, 0, Some(2))]);
        v.push(vec![(6, 1, Some(1)), (9, 0, Some(2)), (5, 1, None)]);
        // cross-version addressing through the shared logical channel
        v.push(vec![d(1, 2), d(7, 0)]);
        v.push(vec![d(1, 3), d(1, 1), d(0, 1)]);
        v.push(vec![(6, 0, Some(2)), (9, 1, Some(0))]);
    }
    v.iter().map(|s| script_of(s)).collect()
}

fn random_script(net: &Net, rng: &mut Rng) -> Vec<Msg> {
    let n = 4 + rng.below(7);
    let mut sends = vec![];
    for _ in 0..n {
        let c = rng.below(net.chans.len());
        let ch = &net.chans[c];
        let from = if ch.src_members.is_empty() { 0 } else { *rng.choose(&ch.src_members) };
        let to = if ch.mode == Mode::Demux {
            let members: Vec<u32> = net.outs.iter().filter(|o| o.class == ch.class).flat_map(|o| o.members.iter().copied()).collect();
            Some(*rng.choose(&members))
        } else {
            None
        };
        sends.push((c, from, to));
    }
    script_of(&sends)
}

// -------------------------------------------------------------------------------------------------
// exploration

const SCHED_BYTES: usize = 4096;

fn sched_bytes(rng: &mut Rng) -> Vec<u8> {
    let mut v = Vec::with_capacity(SCHED_BYTES + 8);
    while v.len() < SCHED_BYTES {
        v.extend_from_slice(&rng.next_u64().to_le_bytes());
    }
    v.truncate(SCHED_BYTES);
    v
}
fn hex(b: &[u8]) -> String {
    b.iter().map(|x| format!("{x:02x}")).collect()
}
fn unhex(s: &str) -> Vec<u8> {
    (0..s.len() / 2).map(|i| u8::from_str_radix(&s[2 * i..2 * i + 2], 16).expect("hex")).collect()
}

fn run_schedule<F>(sim: &CompiledSim, bytes: Vec<u8>, thunk: F) -> Result<(), String>
where
    F: AsyncFnOnce() + RefUnwindSafe,
{
    vcommon::catch(|| {
        sim.fuzz_repro(bytes, async |inst: CompiledSimInstance<'_>| {
            inst.run_with_scheduler_and_logger(std::io::sink(), thunk()).await
        })
    })
}

#[derive(Default)]
struct Agg {
    executions: u64,
    evals: u64,
    nontrivial: Vec<u64>,
    /// first failing execution per kind: (kind, detail, observed)
    findings: Vec<(&'static str, String, Value)>,
    failing: u64,
}

impl Agg {
    fn book(&mut self, net: &Net, j: Judgement, obs: &[Obs]) {
        self.executions += 1;
        self.evals += j.evals.max(1);
        if j.nontrivial {
            self.nontrivial.push(hash_of(&(net.name, obs)));
        }
        if !j.findings.is_empty() {
            self.failing += 1;
        }
        for (k, d) in j.findings {
            if !self.findings.iter().any(|(k2, _, _)| *k2 == k) {
                self.findings.push((k, d, serde_json::to_value(obs).unwrap_or(Value::Null)));
            }
        }
    }
}

fn report(rep: &mut Reporter, net: &Net, mode: &str, script: &[Msg], bytes: Option<&[u8]>, agg: Agg, stopped: Option<String>) {
    rep.evals(agg.evals);
    rep.count_n(&format!("{}:{mode}_executions", net.name), agg.executions);
    rep.count_n(&format!("{}:{mode}_failing_executions", net.name), agg.failing);
    rep.count(&format!("{}:{mode}_scripts", net.name));
    rep.count_n(&format!("{}:messages", net.name), script.len() as u64);
    for h in &agg.nontrivial {
        rep.nontrivial(*h);
    }
    rep.count_n(&format!("{}:nontrivial_executions", net.name), agg.nontrivial.len() as u64);
    let case = |observed: Value| {
        let mut c = json!({"engine": "hydro/hv_net_flows", "test": "c35_sim_network", "shape": net.name, "mode": mode,
                           "script": serde_json::to_value(script).unwrap(),
                           "channels": net.chans.iter().map(|c| c.label).collect::<Vec<_>>(),
                           "observed": observed});
        if let Some(b) = bytes {
            c["bytes_hex"] = json!(hex(b));
        }
        c
    };
    for (k, d, observed) in agg.findings {
        rep.violation(&format!("C35|sim:{}|{k}", net.name), &d, case(observed));
    }
    if let Some(msg) = stopped {
        let short: String = msg.chars().take(600).collect();
        rep.violation(
            &format!("C35|sim:{}|panic", net.name),
            &format!("the simulation panicked while delivering the script ({mode}): {short}"),
            case(Value::Null),
        );
    }
    rep.sample(|| json!({"shape": net.name, "mode": mode, "messages": script.len(), "executions": agg.executions}));
}

fn explore_exhaustive(rep: &mut Reporter, net: &Net, script: &Vec<Msg>) {
    let agg: Mutex<Agg> = Mutex::new(Agg::default());
    let wrapped = AssertUnwindSafe(net);
    let res = vcommon::catch(|| {
        net.sim.exhaustive(async || {
            let n: &Net = wrapped.deref();
            let obs = drive(n, script).await;
            let j = judge(n, script, &obs);
            agg.lock().unwrap_or_else(|e| e.into_inner()).book(n, j, &obs);
        })
    });
    let agg = agg.into_inner().unwrap_or_else(|e| e.into_inner());
    report(rep, net, "exhaustive", script, None, agg, res.err());
}

fn explore_schedule(rep: &mut Reporter, net: &Net, script: &Vec<Msg>, bytes: Vec<u8>) {
    let agg: Mutex<Agg> = Mutex::new(Agg::default());
    let wrapped = AssertUnwindSafe(net);
    let res = run_schedule(&net.sim, bytes.clone(), async || {
        let n: &Net = wrapped.deref();
        let obs = drive(n, script).await;
        let j = judge(n, script, &obs);
        agg.lock().unwrap_or_else(|e| e.into_inner()).book(n, j, &obs);
    });
    let agg = agg.into_inner().unwrap_or_else(|e| e.into_inner());
    report(rep, net, "fuzz", script, Some(&bytes), agg, res.err());
}

fn build(name: &str) -> Net {
    match name {
        "net" => build_net(false),
        "net_v2" => build_net(true),
        "bcast" => build_bcast(),
        other => panic!("unknown shape {other}"),
    }
}

const SHAPES: [&str; 3] = ["net_v2", "net", "bcast"];

#[test]
fn c35_sim_network() {
    // libtest prints "test <name> ... " without a newline; JSON lines must start a line
    println!();
    let args = Args::from_env();
    let mut rep = Reporter::new("C35", args.seed);

    if let Some(case) = args.replay_case() {
        if case["test"].as_str() != Some("c35_sim_network") {
            // a case of the embedded stage: not ours
            rep.finish("replay: case belongs to another stage", false);
            return;
        }
        let net = build(case["shape"].as_str().expect("shape"));
        let script: Vec<Msg> = serde_json::from_value(case["script"].clone()).expect("script");
        if case["mode"].as_str() == Some("fuzz") {
            explore_schedule(&mut rep, &net, &script, unhex(case["bytes_hex"].as_str().expect("bytes_hex")));
        } else {
            explore_exhaustive(&mut rep, &net, &script);
        }
        rep.finish("replay of one recorded case", false);
        return;
    }

    let only = std::env::var("VERIF_SIM_SHAPE").ok();
    let fuzz_budget = args.budget(150, 1500, 1);
    for name in SHAPES {
        if only.as_deref().is_some_and(|o| o != name) {
            continue;
        }
        let t0 = std::time::Instant::now();
        let net = match vcommon::catch(|| build(name)) {
            Ok(n) => n,
            Err(msg) => {
                eprintln!("shape {name}: building the simulator failed:\n{msg}");
                rep.require(false, &format!("shape {name}: the simulator could not be built: {}", msg.chars().take(400).collect::<String>()));
                continue;
            }
        };
        rep.count_n(&format!("{name}:ms_build"), t0.elapsed().as_millis() as u64);
        let t1 = std::time::Instant::now();
        for script in exhaustive_scripts(&net) {
            explore_exhaustive(&mut rep, &net, &script);
        }
        rep.count_n(&format!("{name}:ms_exhaustive"), t1.elapsed().as_millis() as u64);
        let t2 = std::time::Instant::now();
        let base = args.rng().fork(hash_of(name));
        for i in 0..fuzz_budget {
            let mut rng = base.fork(i as u64);
            let script = random_script(&net, &mut rng);
            let bytes = sched_bytes(&mut rng);
            explore_schedule(&mut rep, &net, &script, bytes);
        }
        rep.count_n(&format!("{name}:ms_fuzz"), t2.elapsed().as_millis() as u64);
        if only.is_none() {
            let want = if name == "bcast" { 3 } else { 16 };
            rep.require(rep.counter(&format!("{name}:exhaustive_executions")) >= want, &format!("shape {name}: fewer than {want} exhaustive executions"));
            rep.require(rep.counter(&format!("{name}:fuzz_executions")) >= fuzz_budget as u64, &format!("shape {name}: some seeded schedules did not complete"));
            rep.require(rep.counter(&format!("{name}:nontrivial_executions")) >= 20, &format!("shape {name}: fewer than 20 non-trivial executions"));
        }
    }
    rep.finish(
        "Simulator network: 3 compiled flow shapes (net: P1 demuxes to clusters A and B over the same channel name and over \
         unnamed channels, P2 demuxes to A over the same name, A's members send to process Q and demux to B over another shared \
         name; net_v2: the same as a multi-version flow, B in two versions (next_version) reached by P1, P2 (v1 only) and A over \
         the shared names; bcast: A's members broadcast and demux to B). Hand-written 2-3 message scripts (same-numbered members of different \
         clusters, two sources, cross-version addresses, repeated sends on one link) are explored with the simulator's \
         exhaustive engine; random 4-10 message scripts with one seeded schedule each. Every member of every receiver is \
         observed. Oracle per execution: each delivered value equals a sent one, comes out of an output of the channel it was \
         sent on, at the addressed member, with the sender's id, in per-sender order, exactly once (broadcast: at most once per \
         member); no message is lost; a panic of the simulation is a violation. Non-trivial = execution with >= 2 distinct \
         (channel, destination) pairs and >= 2 (output, member) places that received something, judged correct.",
        false,
    );
}
