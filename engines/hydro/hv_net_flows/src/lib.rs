//! C35 flows: every process/cluster networking shape of `hydro_lang`, generic over the payload type, plus
//! the payload types themselves. The flows contain nothing but the networking operator under test and
//! (where the result is a keyed / unordered collection) a fixed observer that turns it into the
//! `Stream<_, _, _, TotalOrder, ExactlyOnce>` that `embedded_output` needs.
#[cfg(stageleft_runtime)]
hydro_lang::setup!();

use hydro_lang::live_collections::stream::{ExactlyOnce, TotalOrder};
use hydro_lang::location::MemberId;
use hydro_lang::location::cluster::CLUSTER_SELF_ID;
use hydro_lang::prelude::*;
use serde::de::DeserializeOwned;
use serde::{Deserialize, Serialize};

/// Location tag of the sending side.
pub struct Src;
/// Location tag of the receiving side.
pub struct Dst;
/// Cluster tags of the simulator-driven flows (see `tests`).
pub struct TagA;
pub struct TagB;

// Simulator-driven monitors. `stageleft_runtime`-gated so that the staged copy of this crate (compiled
// into every simulator dylib) does not contain them; they hold no `q!` code.
#[cfg(stageleft_runtime)]
#[cfg(test)]
mod tests;

// ------------------------------------------------------------------------------------------------
// payload types (nested from i64, String, Option, Vec, tuple, enum, struct)

pub type PInt = i64;
pub type PStr = String;
pub type POptVec = Option<Vec<(i64, String)>>;

#[derive(Serialize, Deserialize, Clone, Debug, PartialEq, Eq, Hash)]
pub enum Shape {
    Unit,
    One(i64),
    Pair(i64, String),
    Named { x: Option<i64>, tags: Vec<String> },
    Nest(Box<Shape>),
    Many(Vec<Shape>),
}

#[derive(Serialize, Deserialize, Clone, Debug, PartialEq, Eq, Hash)]
pub struct Rec {
    pub id: i64,
    pub name: String,
    pub opt: Option<Box<Rec>>,
    pub items: Vec<(i64, Option<String>)>,
    pub shape: Shape,
    pub unit: (),
    pub flag: bool,
    pub pair: (String, (i64, Vec<Option<i64>>)),
}

/// A payload that itself carries typed member ids (their custom `Serialize`/`Deserialize` impls go
/// through the untyped form).
#[derive(Serialize, Deserialize, Clone, Debug, PartialEq, Eq, Hash)]
pub struct Routed {
    pub via: MemberId<Dst>,
    pub hops: Vec<MemberId<Src>>,
    pub reply_to: Option<(MemberId<Src>, i64)>,
    pub body: String,
}

type Out<'a, T, L> = Stream<T, L, Unbounded, TotalOrder, ExactlyOnce>;

// ------------------------------------------------------------------------------------------------
// process -> process

pub fn o2o<'a, T: Serialize + DeserializeOwned>(
    input: Stream<T, Process<'a, Src>>,
    to: &Process<'a, Dst>,
) -> Out<'a, T, Process<'a, Dst>> {
    input.send(to, TCP.fail_stop().bincode().name("ch"))
}

pub fn o2o_raw<'a, T: Serialize + DeserializeOwned>(
    input: Stream<T, Process<'a, Src>>,
    to: &Process<'a, Dst>,
) -> Out<'a, T, Process<'a, Dst>> {
    input.send(to, TCP.fail_stop().embedded().name("ch"))
}

// ------------------------------------------------------------------------------------------------
// process -> cluster

pub fn o2m_demux<'a, T: Serialize + DeserializeOwned>(
    input: Stream<(MemberId<Dst>, T), Process<'a, Src>>,
    to: &Cluster<'a, Dst>,
) -> Out<'a, T, Cluster<'a, Dst>> {
    input.demux(to, TCP.fail_stop().bincode().name("ch"))
}

pub fn o2m_demux_raw<'a, T: Serialize + DeserializeOwned>(
    input: Stream<(MemberId<Dst>, T), Process<'a, Src>>,
    to: &Cluster<'a, Dst>,
) -> Out<'a, T, Cluster<'a, Dst>> {
    input.demux(to, TCP.fail_stop().embedded().name("ch"))
}

/// Keyed demux: `KeyedStream<(MemberId, K), V>` travels as the tuple `(K, V)`.
pub fn o2m_keyed_demux<'a, K: Serialize + DeserializeOwned, V: Serialize + DeserializeOwned>(
    input: Stream<(MemberId<Dst>, (K, V)), Process<'a, Src>>,
    to: &Cluster<'a, Dst>,
) -> Out<'a, (K, V), Cluster<'a, Dst>> {
    input
        .map(q!(|(id, (k, v))| ((id, k), v)))
        .into_keyed()
        .demux(to, TCP.fail_stop().bincode().name("ch"))
        .entries()
        .assume_ordering(nondet!(/** observer */))
}

pub fn o2m_bcast<'a, T: Clone + Serialize + DeserializeOwned>(
    input: Stream<T, Process<'a, Src>>,
    to: &Cluster<'a, Dst>,
) -> Out<'a, T, Cluster<'a, Dst>> {
    input.broadcast(
        to,
        TCP.fail_stop().bincode().name("ch"),
        nondet!(/** the harness feeds membership in ticks before any data */),
    )
}

// ------------------------------------------------------------------------------------------------
// cluster -> process

pub fn m2o<'a, T: Serialize + DeserializeOwned>(
    input: Stream<T, Cluster<'a, Src>>,
    to: &Process<'a, Dst>,
) -> Out<'a, (MemberId<Src>, T), Process<'a, Dst>> {
    input
        .send(to, TCP.fail_stop().bincode().name("ch"))
        .entries()
        .assume_ordering(nondet!(/** observer */))
}

pub fn m2o_raw<'a, T: Serialize + DeserializeOwned>(
    input: Stream<T, Cluster<'a, Src>>,
    to: &Process<'a, Dst>,
) -> Out<'a, (MemberId<Src>, T), Process<'a, Dst>> {
    input
        .send(to, TCP.fail_stop().embedded().name("ch"))
        .entries()
        .assume_ordering(nondet!(/** observer */))
}

/// Keyed send: `KeyedStream<K, V>` from a cluster arrives as `KeyedStream<(MemberId, K), V>`.
pub fn m2o_keyed<'a, K: Serialize + DeserializeOwned, V: Serialize + DeserializeOwned>(
    input: Stream<(K, V), Cluster<'a, Src>>,
    to: &Process<'a, Dst>,
) -> Out<'a, (MemberId<Src>, (K, V)), Process<'a, Dst>> {
    input
        .into_keyed()
        .send(to, TCP.fail_stop().bincode().name("ch"))
        .entries()
        .map(q!(|((id, k), v)| (id, (k, v))))
        .assume_ordering(nondet!(/** observer */))
}

/// Every member stamps its payload with `CLUSTER_SELF_ID`; the receiver sees (transport tag, (self id, t)).
pub fn m2o_selfid<'a, T: Serialize + DeserializeOwned>(
    input: Stream<T, Cluster<'a, Src>>,
    to: &Process<'a, Dst>,
) -> Out<'a, (MemberId<Src>, (MemberId<Src>, T)), Process<'a, Dst>> {
    input
        .map(q!(move |t| (CLUSTER_SELF_ID.clone(), t)))
        .send(to, TCP.fail_stop().bincode().name("ch"))
        .entries()
        .assume_ordering(nondet!(/** observer */))
}

// ------------------------------------------------------------------------------------------------
// cluster -> cluster

pub fn m2m_demux<'a, T: Serialize + DeserializeOwned>(
    input: Stream<(MemberId<Dst>, T), Cluster<'a, Src>>,
    to: &Cluster<'a, Dst>,
) -> Out<'a, (MemberId<Src>, T), Cluster<'a, Dst>> {
    input
        .demux(to, TCP.fail_stop().bincode().name("ch"))
        .entries()
        .assume_ordering(nondet!(/** observer */))
}

pub fn m2m_demux_raw<'a, T: Serialize + DeserializeOwned>(
    input: Stream<(MemberId<Dst>, T), Cluster<'a, Src>>,
    to: &Cluster<'a, Dst>,
) -> Out<'a, (MemberId<Src>, T), Cluster<'a, Dst>> {
    input
        .demux(to, TCP.fail_stop().embedded().name("ch"))
        .entries()
        .assume_ordering(nondet!(/** observer */))
}

pub fn m2m_bcast<'a, T: Clone + Serialize + DeserializeOwned>(
    input: Stream<T, Cluster<'a, Src>>,
    to: &Cluster<'a, Dst>,
) -> Out<'a, (MemberId<Src>, T), Cluster<'a, Dst>> {
    input
        .broadcast(
            to,
            TCP.fail_stop().bincode().name("ch"),
            nondet!(/** the harness feeds membership in ticks before any data */),
        )
        .entries()
        .assume_ordering(nondet!(/** observer */))
}
