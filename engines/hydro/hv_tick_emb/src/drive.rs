//! Tick-partition drivers: instantiate a generated `Dfir`, push each tick's chunk into the harness feeds, call
//! `run_tick_sync`, and record what every embedded output emitted during that tick.
//!
//! The generated entry points all have different types, so the drivers are produced by macros; every driver
//! returns `Err(panic message)` when the code under test panics.
use std::cell::RefCell;
use std::rc::Rc;

pub use hv_common::Feed;

pub type KV = (i64, i64);
/// Per-tick outputs of one embedded output.
pub type Trace<T> = Vec<Vec<T>>;

pub fn sink<T>() -> Rc<RefCell<Trace<T>>> {
    Rc::new(RefCell::new(vec![]))
}

pub fn take<T>(t: Rc<RefCell<Trace<T>>>) -> Trace<T> {
    std::mem::take(&mut *t.borrow_mut())
}

/// One input `a`, one output `out`.
#[macro_export]
macro_rules! run1 {
    ($name:ident, $tin:ty, $tout:ty) => {
        pub fn $name(ticks: &[Vec<$tin>]) -> Result<$crate::drive::Trace<$tout>, String> {
            vcommon::catch(|| {
                let feed = $crate::drive::Feed::new();
                let out = $crate::drive::sink::<$tout>();
                {
                    let o = out.clone();
                    let mut outputs = $crate::emb::$name::$name::EmbeddedOutputs {
                        out: move |x: $tout| o.borrow_mut().last_mut().unwrap().push(x),
                    };
                    let mut flow = $crate::emb::$name::$name(feed.clone(), &mut outputs);
                    for chunk in ticks {
                        out.borrow_mut().push(vec![]);
                        feed.push_all(chunk.iter().cloned());
                        flow.run_tick_sync();
                    }
                }
                $crate::drive::take(out)
            })
        }
    };
}

/// Two inputs `a`, `b`, one output `out`.
#[macro_export]
macro_rules! run2 {
    ($name:ident, $ta:ty, $tb:ty, $tout:ty) => {
        pub fn $name(ticks: &[(Vec<$ta>, Vec<$tb>)]) -> Result<$crate::drive::Trace<$tout>, String> {
            vcommon::catch(|| {
                let fa = $crate::drive::Feed::new();
                let fb = $crate::drive::Feed::new();
                let out = $crate::drive::sink::<$tout>();
                {
                    let o = out.clone();
                    let mut outputs = $crate::emb::$name::$name::EmbeddedOutputs {
                        out: move |x: $tout| o.borrow_mut().last_mut().unwrap().push(x),
                    };
                    let mut flow = $crate::emb::$name::$name(fa.clone(), fb.clone(), &mut outputs);
                    for (ca, cb) in ticks {
                        out.borrow_mut().push(vec![]);
                        fa.push_all(ca.iter().cloned());
                        fb.push_all(cb.iter().cloned());
                        flow.run_tick_sync();
                    }
                }
                $crate::drive::take(out)
            })
        }
    };
}
