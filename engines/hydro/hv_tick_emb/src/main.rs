//! Embedded-mode (production code generation) monitors for C30, C31, C34 and C39: every flow of the
//! `hv_tick_flows` corpus is compiled by `generate_embedded` (build.rs) and driven tick by tick; the harness
//! chooses each tick's batch (pushes a chunk, then `run_tick_sync`), so it knows exactly what every tick saw.
pub mod emb {
    include!(concat!(env!("OUT_DIR"), "/all.rs"));
}
pub mod drive;
mod p30;
mod p31;
mod p34;
mod p39;

fn main() {
    let args = vcommon::Args::parse();
    match args.prop.as_str() {
        "NONE" => {}
        "C30" => p30::run(&args),
        "C31" => p31::run(&args),
        "C34" => p34::run(&args),
        "C39" => p39::run(&args),
        other => {
            eprintln!("hv_tick_emb does not serve property {other}");
            std::process::exit(3);
        }
    }
}
