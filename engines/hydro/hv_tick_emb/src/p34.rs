//! C34 — atomic acknowledgements imply read-after-write (production code generation).
//!
//! A scripted + reactive client: increments and gets are pushed at the start of ticks; the client records
//! every acknowledgement at the moment it is observed and may issue a get from inside the acknowledgement
//! callback (the earliest possible "afterwards"). Every get remembers how much had been acknowledged for
//! its key when it was issued; the value it reads must not be smaller.
use std::cell::RefCell;
use std::collections::BTreeMap;
use std::rc::Rc;

use serde::{Deserialize, Serialize};
use vcommon::{Args, Reporter, Tier, hash_of, json};

use crate::drive::{Feed, KV};

type Resp = (i64, i64, i64);

#[derive(Serialize, Deserialize, Clone, Hash, Debug)]
struct Case {
    engine: String,
    family: String,
    /// Per tick: increments (key, amount >= 1) pushed before the tick runs.
    incs: Vec<Vec<KV>>,
    /// Per tick: keys of the gets pushed before the tick runs.
    gets: Vec<Vec<i64>>,
    /// Reactive client: whether to issue a get for the key of the i-th observed acknowledgement from inside
    /// the acknowledgement callback (missing entries = false).
    react: Vec<bool>,
}

#[derive(Clone, Debug)]
struct GetInfo {
    key: i64,
    tick: usize,
    reactive: bool,
    /// Acknowledged before this get was issued: count / sum for its key, and count over all keys.
    key_count: i64,
    key_sum: i64,
    total_count: i64,
}

#[derive(Default)]
struct Client {
    tick: usize,
    acks: Vec<(usize, KV)>,
    resps: Vec<(usize, Resp)>,
    count: BTreeMap<i64, i64>,
    sum: BTreeMap<i64, i64>,
    total: i64,
    react: Vec<bool>,
    issued: Vec<GetInfo>,
}

impl Client {
    fn issue(&mut self, gets: &Feed<KV>, key: i64, reactive: bool) {
        let id = self.issued.len() as i64;
        self.issued.push(GetInfo {
            key,
            tick: self.tick,
            reactive,
            key_count: self.count.get(&key).copied().unwrap_or(0),
            key_sum: self.sum.get(&key).copied().unwrap_or(0),
            total_count: self.total,
        });
        gets.push_all([(key, id)]);
    }
}

const QUIESCE: usize = 3;

macro_rules! counter_run {
    ($name:ident) => {
        fn $name(case: &Case) -> Result<Client, String> {
            vcommon::catch(|| {
                let incs = Feed::<KV>::new();
                let gets = Feed::<KV>::new();
                let client = Rc::new(RefCell::new(Client { react: case.react.clone(), ..Default::default() }));
                {
                    let (c1, c2, g) = (client.clone(), client.clone(), gets.clone());
                    let mut outputs = crate::emb::$name::$name::EmbeddedOutputs {
                        acks: move |a: KV| {
                            let mut c = c1.borrow_mut();
                            let t = c.tick;
                            let seq = c.acks.len();
                            c.acks.push((t, a));
                            *c.count.entry(a.0).or_insert(0) += 1;
                            *c.sum.entry(a.0).or_insert(0) += a.1;
                            c.total += 1;
                            if c.react.get(seq).copied().unwrap_or(false) {
                                c.issue(&g, a.0, true);
                            }
                        },
                        resp: move |r: Resp| {
                            let mut c = c2.borrow_mut();
                            let t = c.tick;
                            c.resps.push((t, r));
                        },
                    };
                    // generated parameter order: stream inputs sorted by name
                    let mut flow = crate::emb::$name::$name(gets.clone(), incs.clone(), &mut outputs);
                    let n = case.incs.len().max(case.gets.len());
                    for t in 0..n + QUIESCE {
                        {
                            let mut c = client.borrow_mut();
                            c.tick = t;
                            if let Some(ks) = case.gets.get(t) {
                                for k in ks {
                                    c.issue(&gets, *k, false);
                                }
                            }
                        }
                        if let Some(xs) = case.incs.get(t) {
                            incs.push_all(xs.iter().copied());
                        }
                        flow.run_tick_sync();
                    }
                }
                client.take()
            })
        }
    };
}
counter_run!(kc_atomic);
counter_run!(kc_atomic_sum);
counter_run!(sc_atomic);
counter_run!(sc_yield_atomic);
counter_run!(kc_nonatomic);
counter_run!(sc_nonatomic);

#[derive(Clone, Copy, PartialEq)]
enum Reads {
    KeyCount,
    KeySum,
    TotalCount,
}

struct Family {
    name: &'static str,
    run: fn(&Case) -> Result<Client, String>,
    reads: Reads,
    /// Positive control (documented buggy variant): findings are counted, not reported.
    control: bool,
}

static FAMILIES: [Family; 6] = [
    Family { name: "kc_atomic", run: kc_atomic, reads: Reads::KeyCount, control: false },
    Family { name: "kc_atomic_sum", run: kc_atomic_sum, reads: Reads::KeySum, control: false },
    Family { name: "sc_atomic", run: sc_atomic, reads: Reads::TotalCount, control: false },
    Family { name: "sc_yield_atomic", run: sc_yield_atomic, reads: Reads::TotalCount, control: false },
    Family { name: "kc_nonatomic", run: kc_nonatomic, reads: Reads::KeyCount, control: true },
    Family { name: "sc_nonatomic", run: sc_nonatomic, reads: Reads::TotalCount, control: true },
];

fn check_case(rep: &mut Reporter, case: &Case) {
    let Some(f) = FAMILIES.iter().find(|f| f.name == case.family) else {
        eprintln!("unknown family {}", case.family);
        std::process::exit(3);
    };
    let mut failed: Vec<String> = vec![];
    let mut judge = |rep: &mut Reporter, ok: bool, kind: &str, what: &dyn Fn() -> String| {
        rep.eval();
        if ok {
            return;
        }
        if f.control {
            rep.count(&format!("control/{}/{kind}", f.name));
        } else if !failed.iter().any(|k| k == kind) {
            failed.push(kind.to_string());
            rep.violation(&format!("C34|{}|{kind}", f.name), &what(), json!(case));
        }
    };
    let c = match (f.run)(case) {
        Ok(c) => c,
        Err(p) => {
            judge(rep, false, "panic", &|| format!("flow panicked: {p}"));
            return;
        }
    };
    // every increment is acknowledged exactly once
    let mut sent: Vec<KV> = case.incs.iter().flatten().copied().collect();
    let mut acked: Vec<KV> = c.acks.iter().map(|a| a.1).collect();
    sent.sort();
    acked.sort();
    judge(rep, sent == acked, "acknowledgements are not the increments", &|| {
        format!("sent {sent:?}, acknowledged {acked:?}")
    });
    // totals ever sent (upper bound for any read)
    let mut sent_count: BTreeMap<i64, i64> = BTreeMap::new();
    let mut sent_sum: BTreeMap<i64, i64> = BTreeMap::new();
    for (k, v) in &sent {
        *sent_count.entry(*k).or_insert(0) += 1;
        *sent_sum.entry(*k).or_insert(0) += v;
    }
    let mut answers: BTreeMap<i64, Vec<(usize, Resp)>> = BTreeMap::new();
    for (t, r) in &c.resps {
        answers.entry(r.1).or_default().push((*t, *r));
    }
    for (id, rs) in &answers {
        let known = c.issued.get(*id as usize);
        judge(rep, known.is_some_and(|g| rs.iter().all(|(t, r)| r.0 == g.key && *t >= g.tick)), "response to a get that was not issued", &|| {
            format!("responses {rs:?} for get id {id}; issued: {known:?}")
        });
    }
    let mut informative = 0;
    for (id, g) in c.issued.iter().enumerate() {
        let rs = answers.get(&(id as i64)).cloned().unwrap_or_default();
        judge(rep, rs.len() <= 1, "get answered more than once", &|| format!("get {id} {g:?}: {rs:?}"));
        let (need, cap) = match f.reads {
            Reads::KeyCount => (g.key_count, sent_count.get(&g.key).copied().unwrap_or(0)),
            Reads::KeySum => (g.key_sum, sent_sum.get(&g.key).copied().unwrap_or(0)),
            Reads::TotalCount => (g.total_count, sent.len() as i64),
        };
        if need >= 1 {
            informative += 1;
            rep.count(if g.reactive { "gets_after_ack/reactive" } else { "gets_after_ack/scripted" });
        }
        match rs.first() {
            None => {
                // a keyed lookup may legitimately miss a key nobody incremented yet
                let must = need >= 1 || f.reads == Reads::TotalCount;
                judge(rep, !must, "get never answered", &|| {
                    format!("get {id} {g:?}: no response by quiescence although {need} had been acknowledged")
                });
            }
            Some((t, r)) => {
                judge(rep, r.2 >= need, "stale read after acknowledgement", &|| {
                    format!("get {id} {g:?} issued after observing {need} acknowledged, read {} at tick {t}", r.2)
                });
                judge(rep, r.2 <= cap, "read exceeds everything ever sent", &|| {
                    format!("get {id} {g:?} read {} but only {cap} was ever sent", r.2)
                });
                if need >= 1 {
                    rep.count(if *t == g.tick { "answered/same_tick_as_issue" } else { "answered/later_tick" });
                }
            }
        }
    }
    let busy = (0..case.incs.len().max(case.gets.len()))
        .filter(|t| case.incs.get(*t).is_some_and(|x| !x.is_empty()) || case.gets.get(*t).is_some_and(|x| !x.is_empty()))
        .count();
    if busy >= 2 && informative >= 1 {
        rep.nontrivial(hash_of(case));
        rep.count(&format!("nontrivial/{}", f.name));
    }
    rep.sample(|| json!(case));
}

pub fn run(args: &Args) {
    let mut rep = Reporter::new("C34", args.seed);
    if let Some(c) = args.replay_case() {
        let case: Case = serde_json::from_value(c).expect("replay case");
        check_case(&mut rep, &case);
        rep.finish("replay", false);
        return;
    }
    let mut rng = args.rng();
    let mk = |f: &Family, incs: Vec<Vec<KV>>, gets: Vec<Vec<i64>>, react: Vec<bool>| Case {
        engine: "hv_tick_emb".into(),
        family: f.name.into(),
        incs,
        gets,
        react,
    };
    // (A) bounded-exhaustive scripts: 3 ticks, 2 keys; per tick <= 2 increments (7 choices) and a subset of
    // {get 0, get 1} (4 choices); reactive client off / on for every acknowledgement.
    let inc_choices: Vec<Vec<KV>> = {
        let mut v = vec![vec![]];
        for a in 0..2 {
            v.push(vec![(a, 1)]);
        }
        for a in 0..2 {
            for b in 0..2 {
                v.push(vec![(a, 1), (b, 2)]);
            }
        }
        v
    };
    let get_choices: Vec<Vec<i64>> = vec![vec![], vec![0], vec![1], vec![0, 1]];
    let per_tick: Vec<(Vec<KV>, Vec<i64>)> =
        inc_choices.iter().flat_map(|i| get_choices.iter().map(move |g| (i.clone(), g.clone()))).collect();
    // thorough tier: a fourth tick (614 656 scripts per service and client mode)
    let fourth: Vec<Option<&(Vec<KV>, Vec<i64>)>> =
        if args.tier == Tier::Thorough { per_tick.iter().map(Some).collect() } else { vec![None] };
    if args.tier != Tier::Miri {
        for f in &FAMILIES {
            for t0 in &per_tick {
                for t1 in &per_tick {
                    for t2 in &per_tick {
                        for t3 in &fourth {
                            for react in [false, true] {
                                let mut incs = vec![t0.0.clone(), t1.0.clone(), t2.0.clone()];
                                let mut gets = vec![t0.1.clone(), t1.1.clone(), t2.1.clone()];
                                if let Some(x) = t3 {
                                    incs.push(x.0.clone());
                                    gets.push(x.1.clone());
                                }
                                check_case(&mut rep, &mk(f, incs, gets, vec![react; 8]));
                            }
                        }
                    }
                }
            }
        }
    }
    // (B) random longer scripts
    for f in &FAMILIES {
        for _ in 0..args.budget(10_000, 300_000, 3) {
            let t = 2 + rng.below(7);
            let keys = 1 + rng.below(3) as i64;
            let mut incs = vec![];
            let mut gets = vec![];
            let mut n_incs = 0;
            for _ in 0..t {
                let ni = if rng.chance(1, 4) { 0 } else { rng.below(5) };
                let ng = if rng.chance(1, 3) { 0 } else { rng.below(4) };
                incs.push((0..ni).map(|_| (rng.range(0, keys - 1), rng.range(1, 3))).collect::<Vec<KV>>());
                gets.push((0..ng).map(|_| rng.range(0, keys - 1)).collect::<Vec<i64>>());
                n_incs += ni;
            }
            let react = (0..n_incs).map(|_| rng.chance(1, 2)).collect();
            check_case(&mut rep, &mk(f, incs, gets, react));
        }
    }
    if args.tier != Tier::Miri {
        for f in &FAMILIES {
            let n = rep.counter(&format!("nontrivial/{}", f.name));
            rep.require(n >= 500, &format!("family {} saw only {n} non-trivial scripts", f.name));
        }
        rep.require(rep.counter("gets_after_ack/reactive") >= 1000, "too few reactive gets after an acknowledgement");
        rep.require(rep.counter("gets_after_ack/scripted") >= 1000, "too few scripted gets after an acknowledgement");
    }
    let manifested: u64 = ["kc_nonatomic", "sc_nonatomic"]
        .iter()
        .map(|n| rep.counter(&format!("control/{n}/stale read after acknowledgement")))
        .sum();
    rep.extra(
        "positive_control",
        json!({"flows": ["kc_nonatomic", "sc_nonatomic"], "stale_reads_in_production_mode": manifested,
               "note": "informational: the documented non-atomic variants are not shipped code; whether their bug manifests under production scheduling is recorded, not judged"}),
    );
    rep.finish(
        "Counter services (keyed value_counts, keyed sum, single count, single count behind yield_atomic; plus \
         the two documented non-atomic variants as controls) compiled by generate_embedded. Scripts: (A) every \
         one of the 3-tick (thorough: also 4-tick) scripts over 2 keys with <= 2 increments and any \
         subset of gets per tick, with the reactive client off and on; (B) random scripts of 2-8 ticks, <= 4 \
         increments and <= 3 gets per tick, 1-3 keys, reactive client on for a random half of the \
         acknowledgements. The client issues gets at tick starts and from inside the acknowledgement callback; \
         each get must read at least what had been acknowledged for its key (all keys for the single counters) \
         when it was issued, at most what was ever sent, and be answered exactly once. Non-trivial = at least \
         two ticks received input and at least one get was issued after an acknowledgement.",
        true,
    );
}
