//! C39 — quorum collection is batching-independent and fires once per key; join_responses pairs each response
//! with its request's metadata exactly once (production code generation).
use std::collections::BTreeMap;

use serde::{Deserialize, Serialize};
use vcommon::{Args, Reporter, Rng, Tier, hash_of, json};

use crate::drive::{KV, Trace};

/// (key, Ok(payload) | Err(payload)) as fed to the flow.
type R = (i64, Result<i64, i64>);

#[derive(Default)]
struct QObs {
    ok: Trace<i64>,
    err: Trace<KV>,
    rok: Trace<KV>,
    rerr: Trace<KV>,
}

macro_rules! quorum_run {
    ($name:ident) => {
        fn $name(ticks: &[Vec<R>]) -> Result<QObs, String> {
            vcommon::catch(|| {
                let feed = crate::drive::Feed::new();
                let (ok, err, rok, rerr) =
                    (crate::drive::sink::<i64>(), crate::drive::sink::<KV>(), crate::drive::sink::<KV>(), crate::drive::sink::<KV>());
                {
                    let (a, b, c, d) = (ok.clone(), err.clone(), rok.clone(), rerr.clone());
                    let mut outputs = crate::emb::$name::$name::EmbeddedOutputs {
                        ok: move |x: i64| a.borrow_mut().last_mut().unwrap().push(x),
                        err: move |x: KV| b.borrow_mut().last_mut().unwrap().push(x),
                        rok: move |x: KV| c.borrow_mut().last_mut().unwrap().push(x),
                        rerr: move |x: KV| d.borrow_mut().last_mut().unwrap().push(x),
                    };
                    let mut flow = crate::emb::$name::$name(feed.clone(), &mut outputs);
                    for chunk in ticks {
                        ok.borrow_mut().push(vec![]);
                        for s in [&err, &rok, &rerr] {
                            s.borrow_mut().push(vec![]);
                        }
                        feed.push_all(chunk.iter().cloned());
                        flow.run_tick_sync();
                    }
                }
                QObs {
                    ok: crate::drive::take(ok),
                    err: crate::drive::take(err),
                    rok: crate::drive::take(rok),
                    rerr: crate::drive::take(rerr),
                }
            })
        }
    };
}
quorum_run!(quorum_1_1);
quorum_run!(quorum_1_2);
quorum_run!(quorum_2_2);
quorum_run!(quorum_1_3);
quorum_run!(quorum_2_3);
quorum_run!(quorum_3_3);
quorum_run!(quorum_1_4);
quorum_run!(quorum_2_4);
quorum_run!(quorum_3_4);
quorum_run!(quorum_4_4);
quorum_run!(quorum_1_5);
quorum_run!(quorum_2_5);
quorum_run!(quorum_3_5);
quorum_run!(quorum_4_5);
quorum_run!(quorum_5_5);

mod jr {
    use crate::drive::KV;
    crate::run2!(join_resp, KV, KV, (i64, i64, i64));
}

const MINMAX: [(usize, usize); 15] = [
    (1, 1), (1, 2), (2, 2), (1, 3), (2, 3), (3, 3),
    (1, 4), (2, 4), (3, 4), (4, 4), (1, 5), (2, 5), (3, 5), (4, 5), (5, 5),
];

/// Sub-majority quorum: a key can still reach `min` Ok after more than half of `max` answered Err.
fn sub_majority(min: usize, max: usize) -> bool {
    max >= 2 * min + 1
}

fn quorum_runner(min: usize, max: usize) -> fn(&[Vec<R>]) -> Result<QObs, String> {
    match (min, max) {
        (1, 1) => quorum_1_1,
        (1, 2) => quorum_1_2,
        (2, 2) => quorum_2_2,
        (1, 3) => quorum_1_3,
        (2, 3) => quorum_2_3,
        (3, 3) => quorum_3_3,
        (1, 4) => quorum_1_4,
        (2, 4) => quorum_2_4,
        (3, 4) => quorum_3_4,
        (4, 4) => quorum_4_4,
        (1, 5) => quorum_1_5,
        (2, 5) => quorum_2_5,
        (3, 5) => quorum_3_5,
        (4, 5) => quorum_4_5,
        (5, 5) => quorum_5_5,
        _ => {
            eprintln!("no flow for min={min} max={max}");
            std::process::exit(3)
        }
    }
}

#[derive(Serialize, Deserialize, Clone, Hash, Debug)]
struct Case {
    engine: String,
    /// "quorum" | "join_resp"
    family: String,
    min: usize,
    max: usize,
    /// quorum: per tick the responses (key, is_ok); payloads are the global input positions.
    /// join_resp: per tick the responses (key, true); payload = 100 + key.
    ticks: Vec<Vec<(i64, bool)>>,
    /// join_resp only: per tick the keys whose request metadata (= 10 + key) is generated in that tick.
    meta: Vec<Vec<i64>>,
}

const QUIESCE: usize = 3;

struct Ctx<'a> {
    rep: &'a mut Reporter,
    case: &'a Case,
    failed: Vec<String>,
}
impl Ctx<'_> {
    fn judge(&mut self, ok: bool, site: &str, kind: &str, what: impl FnOnce() -> String) {
        self.rep.eval();
        if !ok && !self.failed.iter().any(|k| k == kind) {
            self.failed.push(kind.to_string());
            let sig = if self.case.family == "quorum" {
                format!(
                    "C39|{site}|{kind}|{}",
                    if self.case.min == self.case.max {
                        "min==max"
                    } else if sub_majority(self.case.min, self.case.max) {
                        "max>=2min+1"
                    } else {
                        "min<max"
                    }
                )
            } else {
                format!("C39|{site}|{kind}")
            };
            self.rep.violation(&sig, &what(), json!(self.case));
        }
    }
}

fn check_quorum(rep: &mut Reporter, case: &Case) {
    let (min, max) = (case.min, case.max);
    // materialise the input: payload = global position
    let mut ticks: Vec<Vec<R>> = vec![];
    let mut pos = 0i64;
    // per key: (position, tick) of its Ok / Err responses, in input order
    let mut oks: BTreeMap<i64, Vec<(i64, usize)>> = BTreeMap::new();
    let mut errs_in_order: Vec<(KV, usize)> = vec![];
    let mut per_key_total: BTreeMap<i64, usize> = BTreeMap::new();
    for (t, chunk) in case.ticks.iter().enumerate() {
        let mut c = vec![];
        for (k, is_ok) in chunk {
            c.push((*k, if *is_ok { Ok(pos) } else { Err(pos) }));
            if *is_ok {
                oks.entry(*k).or_default().push((pos, t));
            } else {
                errs_in_order.push(((*k, pos), t));
            }
            *per_key_total.entry(*k).or_insert(0) += 1;
            pos += 1;
        }
        ticks.push(c);
    }
    if per_key_total.values().any(|n| *n > max) {
        eprintln!("case outside the helpers' contract (more than max responses for a key)");
        std::process::exit(3);
    }
    ticks.extend(std::iter::repeat_n(vec![], QUIESCE));
    let nonempty = case.ticks.iter().filter(|t| !t.is_empty()).count();
    if nonempty >= 2 {
        rep.nontrivial(hash_of(case));
        rep.count(&format!("nontrivial/quorum_{min}_{max}"));
    }
    // coverage of sub-majority histories: for some key, more than max/2 errors have arrived by the end of
    // some tick and an Ok of that key arrives in a strictly later tick (still within max responses)
    if sub_majority(min, max) {
        let mut err_majority_then_ok = false;
        let mut quorum_completed_after_err_majority = false;
        for k in per_key_total.keys() {
            let err_ticks: Vec<usize> = errs_in_order.iter().filter(|e| e.0.0 == *k).map(|e| e.1).collect();
            if err_ticks.len() <= max / 2 {
                continue;
            }
            let majority_tick = err_ticks[max / 2]; // tick in which the (max/2 + 1)-th error arrives
            let my_oks = oks.get(k).cloned().unwrap_or_default();
            if my_oks.iter().any(|o| o.1 > majority_tick) {
                err_majority_then_ok = true;
            }
            if my_oks.len() >= min && my_oks[min - 1].1 > majority_tick {
                quorum_completed_after_err_majority = true;
            }
        }
        if err_majority_then_ok {
            rep.count(&format!("sub_majority/errors_majority_then_later_ok/{min}_{max}"));
        }
        if quorum_completed_after_err_majority {
            rep.count(&format!("sub_majority/quorum_completed_after_errors_majority/{min}_{max}"));
        }
    }
    rep.sample(|| json!(case));
    let mut cx = Ctx { rep, case, failed: vec![] };
    let obs = match quorum_runner(min, max)(&ticks) {
        Ok(o) => o,
        Err(p) => {
            cx.judge(false, "quorum", "panic", || format!("flow panicked: {p}"));
            return;
        }
    };
    // tick at which key k has received its min-th Ok (None = never reaches quorum)
    let quorum_tick = |k: i64| oks.get(&k).and_then(|v| v.get(min - 1)).map(|x| x.1);
    let keys: Vec<i64> = per_key_total.keys().copied().collect();

    // --- collect_quorum: success side ---------------------------------------------------------
    let mut fired: BTreeMap<i64, Vec<usize>> = BTreeMap::new();
    for (t, ks) in obs.ok.iter().enumerate() {
        for k in ks {
            fired.entry(*k).or_default().push(t);
        }
    }
    for k in fired.keys() {
        cx.judge(keys.contains(k), "collect_quorum", "reported a key that never responded", || format!("key {k}"));
    }
    for k in &keys {
        let f = fired.get(k).cloned().unwrap_or_default();
        match quorum_tick(*k) {
            None => cx.judge(f.is_empty(), "collect_quorum", "key reported without a quorum of Ok", || {
                format!("key {k} has {} Ok < min {min} but was reported at ticks {f:?}", oks.get(k).map(|v| v.len()).unwrap_or(0))
            }),
            Some(qt) => {
                cx.judge(!f.is_empty(), "collect_quorum", "key with a quorum of Ok never reported", || {
                    format!("key {k} reached {min} Ok at tick {qt} but was never reported")
                });
                cx.judge(f.len() <= 1, "collect_quorum", "key reported more than once", || {
                    format!("key {k} reported at ticks {f:?}")
                });
                cx.judge(f.iter().all(|t| *t >= qt), "collect_quorum", "key reported before its quorum arrived", || {
                    format!("key {k} reached {min} Ok at tick {qt} but was reported at ticks {f:?}")
                });
                if f.first() == Some(&qt) {
                    cx.rep.count("collect_quorum/reported_in_quorum_tick");
                }
                cx.rep.count("keys_reaching_quorum");
            }
        }
    }
    // --- error side of both helpers: every Err exactly once, in order, not before it arrived ---
    for (site, tr) in [("collect_quorum", &obs.err), ("collect_quorum_with_response", &obs.rerr)] {
        let got: Vec<(KV, usize)> = tr.iter().enumerate().flat_map(|(t, v)| v.iter().map(move |e| (*e, t))).collect();
        let same = got.len() == errs_in_order.len()
            && got.iter().zip(&errs_in_order).all(|(g, w)| g.0 == w.0 && g.1 >= w.1);
        cx.judge(same, site, "errors not passed through exactly once in order", || {
            format!("errors (payload, tick) observed {got:?}, fed {errs_in_order:?}")
        });
    }
    // --- collect_quorum_with_response: success side --------------------------------------------
    let mut released: BTreeMap<i64, Vec<(i64, usize)>> = BTreeMap::new();
    for (t, v) in obs.rok.iter().enumerate() {
        cx.judge(v.windows(2).all(|w| w[0].1 < w[1].1), "collect_quorum_with_response", "payloads of one tick not in input order", || {
            format!("tick {t} released {v:?} (payload = input position)")
        });
        for (k, p) in v {
            released.entry(*k).or_default().push((*p, t));
        }
    }
    for k in released.keys() {
        cx.judge(keys.contains(k), "collect_quorum_with_response", "released a key that never responded", || format!("key {k}"));
    }
    for k in &keys {
        let rel = released.get(k).cloned().unwrap_or_default();
        let my_oks = oks.get(k).cloned().unwrap_or_default();
        match quorum_tick(*k) {
            None => cx.judge(rel.is_empty(), "collect_quorum_with_response", "payloads released without a quorum of Ok", || {
                format!("key {k} has {} Ok < min {min} but released {rel:?}", my_oks.len())
            }),
            Some(qt) => {
                cx.judge(rel.len() >= min, "collect_quorum_with_response", "fewer than min payloads released for a key with quorum", || {
                    format!("key {k} reached {min} Ok at tick {qt}; released (payload, tick) {rel:?}")
                });
                cx.judge(rel.iter().all(|(p, t)| my_oks.iter().any(|(op, ot)| op == p && ot <= t)),
                    "collect_quorum_with_response", "released something that is not an arrived Ok payload of the key", || {
                    format!("key {k}: released {rel:?}, its Ok (payload, tick) {my_oks:?}")
                });
                cx.judge(rel.windows(2).all(|w| w[0].0 < w[1].0), "collect_quorum_with_response", "payload released twice or out of input order", || {
                    format!("key {k}: released {rel:?}")
                });
                cx.judge(rel.windows(2).all(|w| w[0].1 == w[1].1), "collect_quorum_with_response", "key fired in more than one tick", || {
                    format!("key {k}: released (payload, tick) {rel:?}")
                });
                cx.judge(rel.iter().all(|(_, t)| *t >= qt), "collect_quorum_with_response", "payloads released before the quorum arrived", || {
                    format!("key {k} reached {min} Ok at tick {qt}; released (payload, tick) {rel:?}")
                });
                if rel.len() > min {
                    cx.rep.count("with_response/released_more_than_min");
                }
            }
        }
    }
}

fn check_join(rep: &mut Reporter, case: &Case) {
    let n = case.ticks.len().max(case.meta.len());
    let mut ticks: Vec<(Vec<KV>, Vec<KV>)> = (0..n)
        .map(|t| {
            (
                case.ticks.get(t).map(|v| v.iter().map(|(k, _)| (*k, 100 + *k)).collect()).unwrap_or_default(),
                case.meta.get(t).map(|v| v.iter().map(|k| (*k, 10 + *k)).collect()).unwrap_or_default(),
            )
        })
        .collect();
    ticks.extend(std::iter::repeat_n((vec![], vec![]), QUIESCE));
    let mut resp_tick: BTreeMap<i64, usize> = BTreeMap::new();
    let mut meta_tick: BTreeMap<i64, usize> = BTreeMap::new();
    for (t, (r, m)) in ticks.iter().enumerate() {
        for (k, _) in r {
            if resp_tick.insert(*k, t).is_some() {
                eprintln!("case outside the contract: two responses for key {k}");
                std::process::exit(3);
            }
        }
        for (k, _) in m {
            if meta_tick.insert(*k, t).is_some() {
                eprintln!("case outside the contract: two requests for key {k}");
                std::process::exit(3);
            }
        }
    }
    let busy = ticks.iter().filter(|t| !t.0.is_empty() || !t.1.is_empty()).count();
    if busy >= 2 {
        rep.nontrivial(hash_of(case));
        rep.count("nontrivial/join_resp");
    }
    rep.sample(|| json!(case));
    let mut cx = Ctx { rep, case, failed: vec![] };
    let tr = match jr::join_resp(&ticks) {
        Ok(t) => t,
        Err(p) => {
            cx.judge(false, "join_responses", "panic", || format!("flow panicked: {p}"));
            return;
        }
    };
    let mut got: BTreeMap<i64, Vec<(i64, i64, usize)>> = BTreeMap::new();
    for (t, rows) in tr.iter().enumerate() {
        for (k, m, v) in rows {
            got.entry(*k).or_default().push((*m, *v, t));
        }
    }
    for (k, rows) in &got {
        let (mt, rt) = (meta_tick.get(k), resp_tick.get(k));
        cx.judge(mt.is_some() && rt.is_some(), "join_responses", "joined a key without request or without response", || {
            format!("key {k}: rows {rows:?}, request tick {mt:?}, response tick {rt:?}")
        });
    }
    for (k, rt) in &resp_tick {
        let rows = got.get(k).cloned().unwrap_or_default();
        match meta_tick.get(k) {
            // the documented contract: the metadata is generated in the same or a previous tick
            Some(mt) if mt <= rt => {
                cx.rep.count(if mt == rt { "join/same_tick" } else { "join/metadata_from_earlier_tick" });
                cx.judge(!rows.is_empty(), "join_responses", "response never joined with its request metadata", || {
                    format!("key {k}: request at tick {mt}, response at tick {rt}, no output")
                });
                cx.judge(rows.len() <= 1, "join_responses", "response joined more than once", || format!("key {k}: rows {rows:?}"));
                cx.judge(rows.iter().all(|(m, v, t)| *m == 10 + k && *v == 100 + k && t >= rt), "join_responses", "wrong pairing", || {
                    format!("key {k}: rows (meta, response, tick) {rows:?}; expected meta {} response {} at tick >= {rt}", 10 + k, 100 + k)
                });
            }
            // response before its request: outside the documented contract, recorded only
            Some(_) => cx.rep.count(if rows.is_empty() { "out_of_contract/early_response_dropped" } else { "out_of_contract/early_response_joined" }),
            None => {}
        }
    }
}

fn check_case(rep: &mut Reporter, case: &Case) {
    match case.family.as_str() {
        "quorum" => check_quorum(rep, case),
        "join_resp" => check_join(rep, case),
        other => {
            eprintln!("unknown family {other}");
            std::process::exit(3);
        }
    }
}

// ---------------------------------------------------------------------------------------------
// workload

/// All response sequences over keys 0..nkeys with at most `max` responses per key (each Ok or Err) and at
/// most `cap` responses in total.
fn sequences(max: usize, nkeys: usize, cap: usize) -> Vec<Vec<(i64, bool)>> {
    fn go(cur: &mut Vec<(i64, bool)>, left: &mut Vec<usize>, cap: usize, out: &mut Vec<Vec<(i64, bool)>>) {
        out.push(cur.clone());
        if cur.len() == cap {
            return;
        }
        for k in 0..left.len() {
            if left[k] > 0 {
                for ok in [true, false] {
                    cur.push((k as i64, ok));
                    left[k] -= 1;
                    go(cur, left, cap, out);
                    left[k] += 1;
                    cur.pop();
                }
            }
        }
    }
    let mut out = vec![];
    go(&mut vec![], &mut vec![max; nkeys], cap, &mut out);
    out
}

fn layout<T: Clone>(items: &[T], comp: &[usize], gap: usize) -> Vec<Vec<T>> {
    let mut out = vec![];
    for (i, c) in hv_common::chunks_of(items, comp).into_iter().enumerate() {
        if i > 0 {
            out.extend(std::iter::repeat_n(vec![], gap));
        }
        out.push(c);
    }
    out
}

fn random_quorum_case(rng: &mut Rng, min: usize, max: usize) -> Vec<Vec<(i64, bool)>> {
    let keys = 1 + rng.below(5) as i64;
    // Ok probability per case: 1/3, 1/2, 2/3 or 5/6 (error-heavy and success-heavy histories)
    let (num, den) = *rng.choose(&[(1u32, 3u32), (1, 2), (2, 3), (5, 6)]);
    let mut seq = vec![];
    for k in 0..keys {
        // mostly full response sets (max per key), sometimes fewer
        let n = if rng.chance(1, 2) { max } else { rng.below(max + 1) };
        for _ in 0..n {
            seq.push((k, rng.chance(num, den) || min == max && rng.chance(1, 2)));
        }
    }
    rng.shuffle(&mut seq);
    if rng.chance(1, 2) {
        // a random composition, optionally with an empty tick between chunks
        let mut comp: Vec<usize> = vec![];
        for i in 0..seq.len() {
            if i == 0 || rng.chance(1, 2) {
                comp.push(1);
            } else {
                *comp.last_mut().unwrap() += 1;
            }
        }
        let gap = rng.below(2);
        layout(&seq, &comp, gap)
    } else {
        let t = 1 + rng.below(7);
        hv_common::random_chunks(rng, &seq, t)
    }
}

pub fn run(args: &Args) {
    let mut rep = Reporter::new("C39", args.seed);
    if let Some(c) = args.replay_case() {
        let case: Case = serde_json::from_value(c).expect("replay case");
        check_case(&mut rep, &case);
        rep.finish("replay", false);
        return;
    }
    let mut rng = args.rng();
    let q = |min: usize, max: usize, ticks: Vec<Vec<(i64, bool)>>| Case {
        engine: "hv_tick_emb".into(),
        family: "quorum".into(),
        min,
        max,
        ticks,
        meta: vec![],
    };
    // (A) all response sequences over <= 2 keys and <= max responses per key, every composition, without and
    // with an empty tick between chunks.
        if args.tier != Tier::Miri {
        for (min, max) in MINMAX {
            // thorough tier: three keys while the sequences stay short (max <= 2)
            let thorough = args.tier == Tier::Thorough;
            let nkeys = if thorough && max <= 2 { 3 } else { 2 };
            // total-length cap: none up to max 3; for max 4 / 5 every one-key sequence (length <= max) is
            // inside the cap, two-key sequences up to the cap
            let cap = match (max, thorough) {
                (0..=3, _) => 6,
                (4, false) => 6,
                (4, true) => 7,
                (_, false) => 5,
                (_, true) => 6,
            };
            for seq in sequences(max, nkeys, cap) {
                for comp in hv_common::compositions(seq.len()) {
                    for gap in 0..2 {
                        if gap == 1 && comp.len() < 2 {
                            continue;
                        }
                        check_case(&mut rep, &q(min, max, layout(&seq, &comp, gap)));
                    }
                }
            }
        }
    }
    // (B) random sequences over 1-5 keys (error-heavy to success-heavy), random compositions / partitions
    for (min, max) in MINMAX {
        for _ in 0..args.budget(10_000, 150_000, 2) {
            let ticks = random_quorum_case(&mut rng, min, max);
            check_case(&mut rep, &q(min, max, ticks));
        }
    }
    // (C) join_responses: 3 keys, 3 ticks; per key: nothing | request only (tick m) | response only (tick r) |
    // both with m <= r (the documented contract); two key orders inside a tick.
    let j = |ticks: Vec<Vec<(i64, bool)>>, meta: Vec<Vec<i64>>| Case {
        engine: "hv_tick_emb".into(),
        family: "join_resp".into(),
        min: 0,
        max: 0,
        ticks,
        meta,
    };
    let t_max = 3usize;
    let mut plans: Vec<(Option<usize>, Option<usize>)> = vec![(None, None)];
    for m in 0..t_max {
        plans.push((Some(m), None));
        plans.push((None, Some(m)));
        for r in m..t_max {
            plans.push((Some(m), Some(r)));
        }
    }
    for p0 in &plans {
        for p1 in &plans {
            for p2 in &plans {
                for rev in [false, true] {
                    let mut ticks = vec![vec![]; t_max];
                    let mut meta = vec![vec![]; t_max];
                    let order: Vec<usize> = if rev { vec![2, 1, 0] } else { vec![0, 1, 2] };
                    for k in order {
                        let p = [p0, p1, p2][k];
                        if let Some(m) = p.0 {
                            meta[m].push(k as i64);
                        }
                        if let Some(r) = p.1 {
                            ticks[r].push((k as i64, true));
                        }
                    }
                    check_case(&mut rep, &j(ticks, meta));
                }
            }
        }
    }
    // random: up to 6 keys over up to 6 ticks, within the contract; plus a few out-of-contract probes
    // (response before request) that are recorded, not judged.
    for i in 0..args.budget(20_000, 400_000, 2) {
        let t = 2 + rng.below(5);
        let keys = 1 + rng.below(6);
        let mut ticks = vec![vec![]; t];
        let mut meta = vec![vec![]; t];
        let mut ks: Vec<usize> = (0..keys).collect();
        rng.shuffle(&mut ks);
        for k in ks {
            let m = rng.below(t);
            let r = if i % 10 == 0 { rng.below(t) } else { m + rng.below(t - m) };
            if rng.chance(5, 6) {
                meta[m].push(k as i64);
            }
            if rng.chance(5, 6) {
                ticks[r].push((k as i64, true));
            }
        }
        check_case(&mut rep, &j(ticks, meta));
    }
    if args.tier != Tier::Miri {
        for (min, max) in MINMAX {
            let n = rep.counter(&format!("nontrivial/quorum_{min}_{max}"));
            rep.require(n >= 200, &format!("quorum_{min}_{max} saw only {n} non-trivial partitions"));
        }
        for (min, max) in MINMAX {
            if sub_majority(min, max) {
                let a = rep.counter(&format!("sub_majority/errors_majority_then_later_ok/{min}_{max}"));
                rep.require(a >= 300, &format!("({min},{max}): only {a} cases with > max/2 errors in a tick strictly before a later Ok"));
                let b = rep.counter(&format!("sub_majority/quorum_completed_after_errors_majority/{min}_{max}"));
                rep.require(b >= 100, &format!("({min},{max}): only {b} cases whose quorum completes after > max/2 errors arrived"));
            }
        }
        rep.require(rep.counter("nontrivial/join_resp") >= 1000, "too few non-trivial join_responses cases");
        rep.require(rep.counter("keys_reaching_quorum") >= 5000, "too few keys reached quorum");
        rep.require(rep.counter("with_response/released_more_than_min") >= 100, "max > min surplus never observed");
        rep.require(rep.counter("join/metadata_from_earlier_tick") >= 500, "persisted metadata rarely exercised");
    }
    rep.finish(
        "hydro_std collect_quorum + collect_quorum_with_response (one generated flow per (min,max), 1<=min<=max<=5, \
         including the sub-majority shapes max >= 2*min+1) \
         and join_responses, compiled by generate_embedded. (A) every response sequence over keys {0,1} (thorough: {0,1,2} when max <= 2) with <= max \
         responses per key (Ok/Err each; for max 4 / 5 capped at 6 / 5 responses in total, thorough 7 / 6, which \
         contains every one-key sequence), under every \
         composition into ticks, without and with an empty tick between chunks; (B) random sequences over 1-5 keys, \
         error-heavy to success-heavy, in random compositions / partitions with and without empty ticks; (C) join_responses: every placement of request / response over 3 keys x 3 ticks \
         with request tick <= response tick (the documented contract), both key orders, plus random cases with \
         up to 6 keys and 6 ticks. Judged from the documented intent: a key is reported exactly once iff it \
         gathered >= min Ok, never before that; with_response releases only arrived Ok payloads of such keys, \
         each once, >= min of them, in one tick, in input order; every Err is passed through once in order; each \
         response is paired with its request's metadata exactly once. Non-trivial = at least two ticks received \
         a non-empty chunk.",
        true,
    );
}
