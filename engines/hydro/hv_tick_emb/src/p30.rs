//! C30 — tick-scoped collections behave like finite batches (production code generation).
use serde::{Deserialize, Serialize};
use vcommon::{Args, Reporter, Rng, Tier, hash_of, json};

use crate::drive::{KV, Trace};

type Row = Vec<i64>;
/// One tick's input: (batch of `a`, batch of `b`).
type TickIn = (Vec<KV>, Vec<KV>);

mod run {
    use crate::drive::KV;
    type Row = Vec<i64>;
    crate::run1!(t_fold_sum, KV, Row);
    crate::run1!(t_fold_poly, KV, Row);
    crate::run1!(t_collect_vec, KV, Row);
    crate::run1!(t_reduce, KV, Row);
    crate::run1!(t_count, KV, Row);
    crate::run1!(t_max, KV, Row);
    crate::run1!(t_min, KV, Row);
    crate::run1!(t_first, KV, Row);
    crate::run1!(t_last, KV, Row);
    crate::run1!(t_limit2, KV, Row);
    crate::run1!(t_limit0, KV, Row);
    crate::run1!(t_sort, KV, Row);
    crate::run1!(t_enumerate, KV, Row);
    crate::run1!(t_cross_count, KV, Row);
    crate::run2!(t_cross_max, KV, KV, Row);
    crate::run2!(t_join, KV, KV, Row);
    crate::run2!(t_anti_join, KV, KV, Row);
    crate::run2!(t_filter_not_in, KV, KV, Row);
    crate::run1!(t_unique, KV, Row);
    crate::run1!(t_chain, KV, Row);
    crate::run1!(t_keyed_fold, KV, Row);
    crate::run1!(t_keyed_reduce_first, KV, Row);
    crate::run2!(t_composite, KV, KV, Row);
    crate::run1!(d_defer1, KV, Row);
    crate::run1!(d_defer2, KV, Row);
    crate::run1!(d_defer_mix, KV, Row);
    crate::run1!(d_diff_prev, KV, Row);
    crate::run1!(d_opt_defer, KV, Row);
    crate::run1!(d_keyed_defer, KV, Row);
    crate::run1!(d_keyed_singleton_defer, KV, Row);
    crate::run1!(d_cycle_count, KV, Row);
    crate::run1!(d_cycle_stream, KV, Row);
    crate::run1!(d_cycle_opt, KV, Row);
    crate::run1!(d_forward_ref, KV, Row);
    crate::run1!(d_across_count, KV, Row);
    crate::run1!(d_across_fold, KV, Row);
    crate::run1!(d_across_map, KV, Row);
    crate::run1!(d_across_vs_local, KV, Row);
    crate::run1!(d_first_tick, KV, Row);
    crate::run1!(d_snapshot_total, KV, Row);
    crate::run1!(f_cross_first, KV, Row);
    crate::run1!(f_cross_const, KV, Row);
    crate::run1!(f_cross_none, KV, Row);
    crate::run1!(f_zip_count_first, KV, Row);
    crate::run1!(f_zip_count_const, KV, Row);
    crate::run1!(f_zip_max_first, KV, Row);
    crate::run1!(f_zip_const_first, KV, Row);
    crate::run1!(f_first_zip_count, KV, Row);
    crate::run1!(f_filter_if_first, KV, Row);
    crate::run1!(f_filter_if_some_first, KV, Row);
    crate::run1!(f_filter_if_none_first, KV, Row);
    crate::run1!(f_count_filter_if_some, KV, Row);
    crate::run1!(f_chain_first, KV, Row);
    crate::run1!(f_or_first, KV, Row);
    crate::run1!(f_or_max_first, KV, Row);
    crate::run1!(f_unwrap_cross, KV, Row);
    crate::run1!(f_join_first, KV, Row);
    crate::run1!(f_anti_first, KV, Row);
}

enum Runner {
    One(fn(&[Vec<KV>]) -> Result<Trace<Row>, String>),
    Two(fn(&[TickIn]) -> Result<Trace<Row>, String>),
}

/// Expected rows of the *last* tick of `hist`, as (block id, row): the real rows of that tick must split into
/// consecutive blocks that equal the model's blocks as multisets. A totally ordered result has one row per
/// block, an unordered one a single block, a half join one block per probe-side item.
type Model = fn(&[TickIn]) -> Vec<(usize, Row)>;

struct Flow {
    name: &'static str,
    run: Runner,
    model: Model,
    /// Output of tick t is a function of batch t only (checked by the isolation re-run as well).
    local: bool,
    /// Operator families covered (for the coverage counters).
    ops: &'static [&'static str],
}

// ---------------------------------------------------------------------------------------------
// reference semantics (plain Rust over the finite batch)

const M: i64 = 1_000_003;

fn va(t: &TickIn) -> Vec<i64> {
    t.0.iter().map(|p| p.1).collect()
}
fn vb(t: &TickIn) -> Vec<i64> {
    t.1.iter().map(|p| p.1).collect()
}
fn last(h: &[TickIn]) -> &TickIn {
    h.last().unwrap()
}
/// `n` ticks back from the last one (None before the first tick).
fn back(h: &[TickIn], n: usize) -> Option<&TickIn> {
    if h.len() > n { Some(&h[h.len() - 1 - n]) } else { None }
}
fn seq(rows: Vec<Row>) -> Vec<(usize, Row)> {
    rows.into_iter().enumerate().collect()
}
fn bag(rows: Vec<Row>) -> Vec<(usize, Row)> {
    rows.into_iter().map(|r| (0, r)).collect()
}
fn one(x: i64) -> Vec<(usize, Row)> {
    vec![(0, vec![x])]
}
fn opt(x: Option<i64>) -> Vec<(usize, Row)> {
    x.map(one).unwrap_or_default()
}
fn each(xs: Vec<i64>) -> Vec<(usize, Row)> {
    seq(xs.into_iter().map(|x| vec![x]).collect())
}
fn poly(init: i64, mul: i64, xs: impl IntoIterator<Item = i64>) -> i64 {
    xs.into_iter().fold(init, |acc, x| (acc * mul + x) % M)
}
fn reduce3(xs: &[i64]) -> Option<i64> {
    let mut it = xs.iter().copied();
    let first = it.next()?;
    Some(it.fold(first, |acc, x| (acc * 3 + x) % M))
}
fn keys_in_order(ps: &[KV]) -> Vec<i64> {
    let mut ks = vec![];
    for p in ps {
        if !ks.contains(&p.0) {
            ks.push(p.0);
        }
    }
    ks
}
fn all_vals(h: &[TickIn]) -> Vec<i64> {
    h.iter().flat_map(va).collect()
}

fn m_fold_sum(h: &[TickIn]) -> Vec<(usize, Row)> {
    one(va(last(h)).iter().sum())
}
fn m_fold_poly(h: &[TickIn]) -> Vec<(usize, Row)> {
    one(poly(1, 31, va(last(h))))
}
fn m_collect_vec(h: &[TickIn]) -> Vec<(usize, Row)> {
    vec![(0, va(last(h)))]
}
fn m_reduce(h: &[TickIn]) -> Vec<(usize, Row)> {
    opt(reduce3(&va(last(h))))
}
fn m_count(h: &[TickIn]) -> Vec<(usize, Row)> {
    one(last(h).0.len() as i64)
}
fn m_max(h: &[TickIn]) -> Vec<(usize, Row)> {
    opt(va(last(h)).into_iter().max())
}
fn m_min(h: &[TickIn]) -> Vec<(usize, Row)> {
    opt(va(last(h)).into_iter().min())
}
fn m_first(h: &[TickIn]) -> Vec<(usize, Row)> {
    opt(va(last(h)).first().copied())
}
fn m_last(h: &[TickIn]) -> Vec<(usize, Row)> {
    opt(va(last(h)).last().copied())
}
fn m_limit2(h: &[TickIn]) -> Vec<(usize, Row)> {
    each(va(last(h)).into_iter().take(2).collect())
}
fn m_limit0(_h: &[TickIn]) -> Vec<(usize, Row)> {
    vec![]
}
fn m_sort(h: &[TickIn]) -> Vec<(usize, Row)> {
    let mut ps = last(h).0.clone();
    ps.sort(); // equal elements are indistinguishable, so stability is not observable
    seq(ps.into_iter().map(|(k, v)| vec![k, v]).collect())
}
fn m_enumerate(h: &[TickIn]) -> Vec<(usize, Row)> {
    seq(va(last(h)).into_iter().enumerate().map(|(i, x)| vec![i as i64, x]).collect())
}
fn m_cross_count(h: &[TickIn]) -> Vec<(usize, Row)> {
    let xs = va(last(h));
    let n = xs.len() as i64;
    seq(xs.into_iter().map(|x| vec![x, n]).collect())
}
fn m_cross_max(h: &[TickIn]) -> Vec<(usize, Row)> {
    match vb(last(h)).into_iter().max() {
        None => vec![],
        Some(m) => seq(va(last(h)).into_iter().map(|x| vec![x, m]).collect()),
    }
}
fn m_join(h: &[TickIn]) -> Vec<(usize, Row)> {
    let (a, b) = last(h);
    let mut out = vec![];
    for (i, (k, v1)) in a.iter().enumerate() {
        for (k2, v2) in b {
            if k == k2 {
                out.push((i, vec![*k, *v1, *v2]));
            }
        }
    }
    out
}
fn m_anti_join(h: &[TickIn]) -> Vec<(usize, Row)> {
    let (a, b) = last(h);
    seq(a.iter().filter(|p| !b.iter().any(|q| q.0 == p.0)).map(|p| vec![p.0, p.1]).collect())
}
fn m_filter_not_in(h: &[TickIn]) -> Vec<(usize, Row)> {
    let b = vb(last(h));
    each(va(last(h)).into_iter().filter(|x| !b.contains(x)).collect())
}
fn m_unique(h: &[TickIn]) -> Vec<(usize, Row)> {
    let mut seen = vec![];
    for x in va(last(h)) {
        if !seen.contains(&x) {
            seen.push(x);
        }
    }
    each(seen)
}
fn m_chain(h: &[TickIn]) -> Vec<(usize, Row)> {
    let xs = va(last(h));
    each(xs.iter().map(|x| x + 100).chain(xs.iter().copied()).collect())
}
fn m_keyed_fold(h: &[TickIn]) -> Vec<(usize, Row)> {
    let ps = &last(h).0;
    bag(keys_in_order(ps)
        .into_iter()
        .map(|k| vec![k, poly(1, 31, ps.iter().filter(|p| p.0 == k).map(|p| p.1))])
        .collect())
}
fn m_keyed_reduce_first(h: &[TickIn]) -> Vec<(usize, Row)> {
    let ps = &last(h).0;
    bag(keys_in_order(ps)
        .into_iter()
        .map(|k| {
            let vs: Vec<i64> = ps.iter().filter(|p| p.0 == k).map(|p| p.1).collect();
            vec![k, reduce3(&vs).unwrap(), vs[0]]
        })
        .collect())
}
fn m_composite(h: &[TickIn]) -> Vec<(usize, Row)> {
    let mut xs = va(last(h));
    let n = xs.len() as i64;
    xs.sort();
    let mut out = vec![];
    for (rank, x) in xs.into_iter().enumerate().take(3) {
        for (k, y) in &last(h).1 {
            if *k == rank as i64 {
                out.push((rank, vec![rank as i64, x, *y, n]));
            }
        }
    }
    out
}

fn m_defer1(h: &[TickIn]) -> Vec<(usize, Row)> {
    each(back(h, 1).map(va).unwrap_or_default())
}
fn m_defer2(h: &[TickIn]) -> Vec<(usize, Row)> {
    each(back(h, 2).map(va).unwrap_or_default())
}
fn m_defer_mix(h: &[TickIn]) -> Vec<(usize, Row)> {
    let mut xs = va(last(h));
    xs.extend(back(h, 1).map(va).unwrap_or_default().into_iter().map(|x| x + 1000));
    xs.extend(back(h, 2).map(va).unwrap_or_default().into_iter().map(|x| x + 2000));
    each(xs)
}
fn m_diff_prev(h: &[TickIn]) -> Vec<(usize, Row)> {
    let prev = back(h, 1).map(va).unwrap_or_default();
    each(va(last(h)).into_iter().filter(|x| !prev.contains(x)).collect())
}
fn m_opt_defer(h: &[TickIn]) -> Vec<(usize, Row)> {
    opt(back(h, 1).and_then(|t| va(t).into_iter().max()))
}
fn m_keyed_defer(h: &[TickIn]) -> Vec<(usize, Row)> {
    bag(back(h, 1).map(|t| t.0.iter().map(|p| vec![p.0, p.1]).collect()).unwrap_or_default())
}
fn m_keyed_singleton_defer(h: &[TickIn]) -> Vec<(usize, Row)> {
    match back(h, 1) {
        None => vec![],
        Some(t) => bag(keys_in_order(&t.0)
            .into_iter()
            .map(|k| vec![k, t.0.iter().filter(|p| p.0 == k).map(|p| p.1).sum()])
            .collect()),
    }
}
fn m_cycle_count(h: &[TickIn]) -> Vec<(usize, Row)> {
    one(all_vals(h).len() as i64)
}
fn m_cycle_stream(h: &[TickIn]) -> Vec<(usize, Row)> {
    let mut acc: Vec<i64> = vec![];
    for t in h {
        acc.retain(|x| x % 2 == 0);
        acc.extend(va(t));
    }
    each(acc)
}
fn m_cycle_opt(h: &[TickIn]) -> Vec<(usize, Row)> {
    opt(all_vals(h).into_iter().max())
}
fn m_forward_ref(h: &[TickIn]) -> Vec<(usize, Row)> {
    each(va(last(h)).into_iter().map(|x| x + 1).collect())
}
fn m_across_count(h: &[TickIn]) -> Vec<(usize, Row)> {
    one(all_vals(h).len() as i64)
}
fn m_across_fold(h: &[TickIn]) -> Vec<(usize, Row)> {
    one(poly(1, 31, all_vals(h)))
}
fn m_across_map(h: &[TickIn]) -> Vec<(usize, Row)> {
    each(va(last(h)).into_iter().map(|x| x * 2).collect())
}
fn m_across_vs_local(h: &[TickIn]) -> Vec<(usize, Row)> {
    vec![(0, vec![all_vals(h).len() as i64, last(h).0.len() as i64])]
}
fn m_first_tick(h: &[TickIn]) -> Vec<(usize, Row)> {
    vec![(0, vec![if h.len() == 1 { 7 } else { 1 }, last(h).0.len() as i64])]
}
fn m_snapshot_total(h: &[TickIn]) -> Vec<(usize, Row)> {
    vec![(0, vec![all_vals(h).len() as i64, last(h).0.len() as i64])]
}

// tick-level sources used directly as operands: a first-tick value exists in tick 0 only
fn is_first(h: &[TickIn]) -> bool {
    h.len() == 1
}
fn m_f_cross_first(h: &[TickIn]) -> Vec<(usize, Row)> {
    if is_first(h) { seq(va(last(h)).into_iter().map(|x| vec![x, 7]).collect()) } else { vec![] }
}
fn m_f_cross_const(h: &[TickIn]) -> Vec<(usize, Row)> {
    seq(va(last(h)).into_iter().map(|x| vec![x, 5]).collect())
}
fn m_f_cross_none(_h: &[TickIn]) -> Vec<(usize, Row)> {
    vec![]
}
fn m_f_zip_count_first(h: &[TickIn]) -> Vec<(usize, Row)> {
    if is_first(h) { vec![(0, vec![last(h).0.len() as i64, 7])] } else { vec![] }
}
fn m_f_zip_count_const(h: &[TickIn]) -> Vec<(usize, Row)> {
    vec![(0, vec![last(h).0.len() as i64, 5])]
}
fn m_f_zip_max_first(h: &[TickIn]) -> Vec<(usize, Row)> {
    match va(last(h)).into_iter().max() {
        Some(m) if is_first(h) => vec![(0, vec![m, 7])],
        _ => vec![],
    }
}
fn m_f_zip_const_first(h: &[TickIn]) -> Vec<(usize, Row)> {
    if is_first(h) { vec![(0, vec![5, 7, last(h).0.len() as i64])] } else { vec![] }
}
fn m_f_first_zip_count(h: &[TickIn]) -> Vec<(usize, Row)> {
    if is_first(h) { vec![(0, vec![7, last(h).0.len() as i64])] } else { vec![] }
}
fn m_f_pass_first_only(h: &[TickIn]) -> Vec<(usize, Row)> {
    if is_first(h) { each(va(last(h))) } else { vec![] }
}
fn m_f_pass_after_first(h: &[TickIn]) -> Vec<(usize, Row)> {
    if is_first(h) { vec![] } else { each(va(last(h))) }
}
fn m_f_count_filter_if_some(h: &[TickIn]) -> Vec<(usize, Row)> {
    if is_first(h) { one(last(h).0.len() as i64) } else { vec![] }
}
fn m_f_chain_first(h: &[TickIn]) -> Vec<(usize, Row)> {
    let mut xs = if is_first(h) { vec![7] } else { vec![] };
    xs.extend(va(last(h)));
    each(xs)
}
fn m_f_or_first(h: &[TickIn]) -> Vec<(usize, Row)> {
    if is_first(h) { one(7) } else { opt(va(last(h)).into_iter().max()) }
}
fn m_f_or_max_first(h: &[TickIn]) -> Vec<(usize, Row)> {
    match va(last(h)).into_iter().max() {
        Some(m) => one(m),
        None if is_first(h) => one(7),
        None => vec![],
    }
}
fn m_f_unwrap_cross(h: &[TickIn]) -> Vec<(usize, Row)> {
    let f = if is_first(h) { 7 } else { 1 };
    seq(va(last(h)).into_iter().map(|x| vec![x, f]).collect())
}
fn m_f_join_first(h: &[TickIn]) -> Vec<(usize, Row)> {
    if is_first(h) {
        seq(last(h).0.iter().filter(|p| p.0 == 0).map(|p| vec![p.0, p.1, 7]).collect())
    } else {
        vec![]
    }
}
fn m_f_anti_first(h: &[TickIn]) -> Vec<(usize, Row)> {
    seq(last(h).0.iter().filter(|p| !(is_first(h) && p.0 == 0)).map(|p| vec![p.0, p.1]).collect())
}

macro_rules! f1 {
    ($name:ident, $model:ident, $local:expr, [$($op:literal),*]) => {
        Flow { name: stringify!($name), run: Runner::One(run::$name), model: $model, local: $local, ops: &[$($op),*] }
    };
}
macro_rules! f2 {
    ($name:ident, $model:ident, $local:expr, [$($op:literal),*]) => {
        Flow { name: stringify!($name), run: Runner::Two(run::$name), model: $model, local: $local, ops: &[$($op),*] }
    };
}

fn flows() -> Vec<Flow> {
    vec![
        f1!(t_fold_sum, m_fold_sum, true, ["fold"]),
        f1!(t_fold_poly, m_fold_poly, true, ["fold"]),
        f1!(t_collect_vec, m_collect_vec, true, ["fold"]),
        f1!(t_reduce, m_reduce, true, ["reduce"]),
        f1!(t_count, m_count, true, ["count"]),
        f1!(t_max, m_max, true, ["max"]),
        f1!(t_min, m_min, true, ["min"]),
        f1!(t_first, m_first, true, ["first"]),
        f1!(t_last, m_last, true, ["last"]),
        f1!(t_limit2, m_limit2, true, ["limit"]),
        f1!(t_limit0, m_limit0, true, ["limit"]),
        f1!(t_sort, m_sort, true, ["sort"]),
        f1!(t_enumerate, m_enumerate, true, ["enumerate"]),
        f1!(t_cross_count, m_cross_count, true, ["cross_singleton", "count"]),
        f2!(t_cross_max, m_cross_max, true, ["cross_singleton", "max"]),
        f2!(t_join, m_join, true, ["join"]),
        f2!(t_anti_join, m_anti_join, true, ["anti_join"]),
        f2!(t_filter_not_in, m_filter_not_in, true, ["filter_not_in"]),
        f1!(t_unique, m_unique, true, ["unique"]),
        f1!(t_chain, m_chain, true, ["chain"]),
        f1!(t_keyed_fold, m_keyed_fold, true, ["keyed_fold"]),
        f1!(t_keyed_reduce_first, m_keyed_reduce_first, true, ["keyed_reduce", "keyed_first"]),
        f2!(t_composite, m_composite, true, ["sort", "enumerate", "limit", "join", "cross_singleton"]),
        f1!(d_defer1, m_defer1, false, ["defer_tick"]),
        f1!(d_defer2, m_defer2, false, ["defer_tick"]),
        f1!(d_defer_mix, m_defer_mix, false, ["defer_tick", "chain"]),
        f1!(d_diff_prev, m_diff_prev, false, ["defer_tick", "filter_not_in"]),
        f1!(d_opt_defer, m_opt_defer, false, ["defer_tick", "max"]),
        f1!(d_keyed_defer, m_keyed_defer, false, ["defer_tick"]),
        f1!(d_keyed_singleton_defer, m_keyed_singleton_defer, false, ["defer_tick", "keyed_fold"]),
        f1!(d_cycle_count, m_cycle_count, false, ["tick_cycle"]),
        f1!(d_cycle_stream, m_cycle_stream, false, ["tick_cycle", "chain"]),
        f1!(d_cycle_opt, m_cycle_opt, false, ["tick_cycle", "max"]),
        f1!(d_forward_ref, m_forward_ref, true, ["forward_ref"]),
        f1!(d_across_count, m_across_count, false, ["across_ticks"]),
        f1!(d_across_fold, m_across_fold, false, ["across_ticks"]),
        f1!(d_across_map, m_across_map, true, ["across_ticks"]),
        f1!(d_across_vs_local, m_across_vs_local, false, ["across_ticks", "count"]),
        f1!(d_first_tick, m_first_tick, false, ["first_tick"]),
        f1!(d_snapshot_total, m_snapshot_total, false, ["snapshot"]),
        f1!(f_cross_first, m_f_cross_first, false, ["first_tick_source", "cross_singleton"]),
        f1!(f_cross_const, m_f_cross_const, true, ["tick_singleton_source", "cross_singleton"]),
        f1!(f_cross_none, m_f_cross_none, true, ["tick_none_source", "cross_singleton"]),
        f1!(f_zip_count_first, m_f_zip_count_first, false, ["first_tick_source", "zip"]),
        f1!(f_zip_count_const, m_f_zip_count_const, true, ["tick_singleton_source", "zip"]),
        f1!(f_zip_max_first, m_f_zip_max_first, false, ["first_tick_source", "zip"]),
        f1!(f_zip_const_first, m_f_zip_const_first, false, ["first_tick_source", "tick_singleton_source", "zip"]),
        f1!(f_first_zip_count, m_f_first_zip_count, false, ["first_tick_source", "zip"]),
        f1!(f_filter_if_first, m_f_pass_first_only, false, ["first_tick_source", "filter_if"]),
        f1!(f_filter_if_some_first, m_f_pass_first_only, false, ["first_tick_source", "filter_if"]),
        f1!(f_filter_if_none_first, m_f_pass_after_first, false, ["first_tick_source", "filter_if"]),
        f1!(f_count_filter_if_some, m_f_count_filter_if_some, false, ["first_tick_source", "filter_if"]),
        f1!(f_chain_first, m_f_chain_first, false, ["first_tick_source", "chain"]),
        f1!(f_or_first, m_f_or_first, false, ["first_tick_source", "or"]),
        f1!(f_or_max_first, m_f_or_max_first, false, ["first_tick_source", "or"]),
        f1!(f_unwrap_cross, m_f_unwrap_cross, false, ["first_tick_source", "tick_singleton_source", "cross_singleton"]),
        f1!(f_join_first, m_f_join_first, false, ["first_tick_source", "join"]),
        f1!(f_anti_first, m_f_anti_first, false, ["first_tick_source", "anti_join"]),
    ]
}

// ---------------------------------------------------------------------------------------------
// cases

#[derive(Serialize, Deserialize, Clone, Hash, Debug)]
struct Case {
    engine: String,
    family: String,
    /// Per tick: (batch of input a, batch of input b). Trailing quiescence ticks are added by the driver.
    ticks: Vec<TickIn>,
}

/// Extra empty ticks after the last chunk: 2 + the maximum deferral depth of the corpus (2).
const QUIESCE: usize = 4;

fn run_flow(f: &Flow, ticks: &[TickIn]) -> Result<Trace<Row>, String> {
    match f.run {
        Runner::One(r) => r(&ticks.iter().map(|t| t.0.clone()).collect::<Vec<_>>()),
        Runner::Two(r) => r(ticks),
    }
}

/// `real` must split into consecutive blocks equal (as multisets) to the model's blocks.
fn blocks_match(real: &[Row], model: &[(usize, Row)]) -> bool {
    if real.len() != model.len() {
        return false;
    }
    let mut at = 0;
    while at < model.len() {
        let id = model[at].0;
        let mut end = at;
        while end < model.len() && model[end].0 == id {
            end += 1;
        }
        let mut want: Vec<&Row> = model[at..end].iter().map(|x| &x.1).collect();
        let mut got: Vec<&Row> = real[at..end].iter().collect();
        want.sort();
        got.sort();
        if want != got {
            return false;
        }
        at = end;
    }
    true
}

fn check_case(rep: &mut Reporter, fl: &[Flow], case: &Case, isolate: bool) {
    let Some(f) = fl.iter().find(|f| f.name == case.family) else {
        eprintln!("unknown family {}", case.family);
        std::process::exit(3);
    };
    let mut ticks = case.ticks.clone();
    ticks.extend(std::iter::repeat_n((vec![], vec![]), QUIESCE));
    let nonempty = case.ticks.iter().filter(|t| !t.0.is_empty() || !t.1.is_empty()).count();
    if nonempty >= 2 {
        rep.nontrivial(hash_of(case));
        rep.count(&format!("nontrivial/{}", f.name));
        for op in f.ops {
            rep.count(&format!("op/{op}"));
        }
    }
    rep.sample(|| json!(case));
    let cj = || json!(case);
    let real = match run_flow(f, &ticks) {
        Ok(r) => r,
        Err(p) => {
            rep.eval();
            rep.violation(
                &format!("C30|{}|panic", f.name),
                &format!("flow panicked while running the tick partition: {p}"),
                cj(),
            );
            return;
        }
    };
    // (1) plain-Rust batch semantics per tick; deferred values exactly one tick later
    for t in 0..ticks.len() {
        rep.eval();
        let want = (f.model)(&ticks[..=t]);
        if !blocks_match(&real[t], &want) {
            let kind = if t >= case.ticks.len() {
                "output during quiescence differs from reference"
            } else if f.local {
                "tick output differs from batch semantics"
            } else {
                "tick output differs from cross-tick reference"
            };
            rep.violation(
                &format!("C30|{}|{kind}", f.name),
                &format!(
                    "tick {t}: observed rows {:?}, reference {:?}",
                    real[t],
                    want.iter().map(|x| &x.1).collect::<Vec<_>>()
                ),
                cj(),
            );
            return;
        }
    }
    // (2) no leak: a tick-local flow run on batch t alone gives the same rows as tick t of the full run
    if isolate && f.local {
        for t in 1..case.ticks.len() {
            let solo = vec![case.ticks[t].clone()];
            rep.eval();
            rep.count("isolation_reruns");
            match run_flow(f, &solo) {
                Ok(r) => {
                    let mut a = r[0].clone();
                    let mut b = real[t].clone();
                    // same multiset and, unless the flow's rows are unordered, same order (the model check
                    // above already pinned the order of both)
                    a.sort();
                    b.sort();
                    if a != b {
                        rep.violation(
                            &format!("C30|{}|tick output depends on earlier ticks (isolation re-run differs)", f.name),
                            &format!("tick {t} in the full run: {:?}; the same batch alone: {:?}", real[t], r[0]),
                            cj(),
                        );
                        return;
                    }
                }
                Err(p) => {
                    rep.violation(
                        &format!("C30|{}|panic", f.name),
                        &format!("flow panicked in the isolation re-run: {p}"),
                        cj(),
                    );
                    return;
                }
            }
        }
    }
}

// ---------------------------------------------------------------------------------------------
// workload

fn rand_batch(rng: &mut Rng, max_len: usize, keys: i64, vals: i64) -> Vec<KV> {
    let n = rng.below(max_len + 1);
    (0..n).map(|_| (rng.range(0, keys - 1), rng.range(0, vals - 1))).collect()
}

/// All batches of length <= 2 over a 3-element domain (13 of them).
fn small_batches() -> Vec<Vec<KV>> {
    let dom: [KV; 3] = [(0, 1), (0, 2), (1, 1)];
    let mut out = vec![vec![]];
    for x in dom {
        out.push(vec![x]);
    }
    for x in dom {
        for y in dom {
            out.push(vec![x, y]);
        }
    }
    out
}

pub fn run(args: &Args) {
    let mut rep = Reporter::new("C30", args.seed);
    let fl = flows();
    if let Some(c) = args.replay_case() {
        let case: Case = serde_json::from_value(c).expect("replay case");
        check_case(&mut rep, &fl, &case, true);
        rep.finish("replay", false);
        return;
    }
    let mut rng = args.rng();
    let mk = |f: &Flow, ticks: Vec<TickIn>| Case { engine: "hv_tick_emb".into(), family: f.name.into(), ticks };

    // (A) bounded-exhaustive: every history of T ticks over the 13 small batches; T = 3 for one-input
    // flows (2197 histories), T = 2 with all pairs for two-input flows (28 561 histories).
    let sb = small_batches();
    // thorough tier: a fourth tick for the one-input flows (28 561 histories each)
    let fourth: Vec<Option<&Vec<KV>>> =
        if args.tier == Tier::Thorough { sb.iter().map(Some).collect() } else { vec![None] };
    for f in &fl {
        match f.run {
            Runner::One(_) => {
                for a0 in &sb {
                    for a1 in &sb {
                        for a2 in &sb {
                            for a3 in &fourth {
                                let mut ticks = vec![(a0.clone(), vec![]), (a1.clone(), vec![]), (a2.clone(), vec![])];
                                if let Some(x) = a3 {
                                    ticks.push(((*x).clone(), vec![]));
                                }
                                check_case(&mut rep, &fl, &mk(f, ticks), true);
                            }
                        }
                    }
                }
            }
            Runner::Two(_) => {
                for a0 in &sb {
                    for b0 in &sb {
                        for a1 in &sb {
                            for b1 in &sb {
                                let ticks = vec![(a0.clone(), b0.clone()), (a1.clone(), b1.clone())];
                                check_case(&mut rep, &fl, &mk(f, ticks), true);
                            }
                        }
                    }
                }
            }
        }
    }
    // (B) random: longer histories, larger batches, wider domains, empty ticks in between.
    let n_random = args.budget(3000, 60_000, 5);
    for f in &fl {
        for _ in 0..n_random {
            let t = 2 + rng.below(6);
            let keys = 1 + rng.below(4) as i64;
            let vals = 2 + rng.below(6) as i64;
            let two = matches!(f.run, Runner::Two(_));
            let ticks: Vec<TickIn> = (0..t)
                .map(|_| {
                    if rng.chance(1, 5) {
                        (vec![], vec![])
                    } else {
                        (
                            rand_batch(&mut rng, 5, keys, vals),
                            if two { rand_batch(&mut rng, 4, keys, vals) } else { vec![] },
                        )
                    }
                })
                .collect();
            check_case(&mut rep, &fl, &mk(f, ticks), true);
        }
    }
    for f in &fl {
        let n = rep.counter(&format!("nontrivial/{}", f.name));
        rep.require(n >= 100, &format!("flow {} saw only {n} non-trivial histories", f.name));
    }
    rep.require(rep.counter("isolation_reruns") >= 10_000, "too few isolation re-runs");
    rep.finish(
        "Corpus of 58 Hydro tick programs compiled by generate_embedded (production DFIR codegen), each driven \
         tick by tick with harness-chosen batches: (A) every 3-tick (thorough: also every 4-tick) history over the 13 batches \
         of length <= 2 from {(0,1),(0,2),(1,1)} for one-input flows, every 2-tick history over pairs of those batches for \
         two-input flows; (B) random histories of 2-7 ticks, batches \
         of <= 5 items, 1-4 keys, 2-7 values, 20% empty ticks; 4 empty ticks appended. Per tick the observed \
         rows are compared with plain-Rust batch semantics (cross-tick reference for defer_tick / tick cycles / \
         across_ticks / snapshot flows and for flows that consume a tick-level source - optional_first_tick, \
         tick.singleton, tick.none - directly as the singleton side of cross_singleton / zip / filter_if / or / \
         chain / join / anti_join: a first-tick value exists in tick 0 only); tick-local flows are re-run on each batch in isolation. \
         Non-trivial = at least two ticks received a non-empty chunk.",
        true,
    );
}
