//! C31 — slices partition streams and take monotone snapshots (production code generation).
//!
//! Oracle = the "Guarantees" section of docs/hydro/reference/state-management/slices.mdx: batches partition the
//! input in order; snapshots never go back (but may lag); all hooks of one slice are taken at the same logical
//! point; state hooks carry the value written by the previous slice.
use std::collections::BTreeMap;

use serde::{Deserialize, Serialize};
use vcommon::{Args, Reporter, Rng, Tier, hash_of, json};

use crate::drive::{KV, Trace};

type Basic = (Vec<i64>, usize, i64, usize);
type AtomicSlice = (Vec<i64>, usize, usize);
type KeyedSlice = (Vec<(i64, Vec<i64>)>, Vec<(i64, usize)>);
type BufferSlice = (Vec<i64>, Option<i64>, Vec<i64>);

mod run {
    use super::*;
    crate::run1!(s_basic, KV, Basic);
    crate::run1!(s_keyed, KV, KeyedSlice);
    crate::run2!(s_buffer, KV, KV, BufferSlice);
    crate::run1!(s_kfirst, KV, Vec<KV>);
    crate::run1!(s_prev_first, KV, (Vec<i64>, i64));

    /// `s_atomic` has two outputs: the acknowledgements and the slices.
    pub fn s_atomic(ticks: &[Vec<KV>]) -> Result<(Trace<i64>, Trace<AtomicSlice>), String> {
        vcommon::catch(|| {
            let feed = crate::drive::Feed::new();
            let acks = crate::drive::sink::<i64>();
            let out = crate::drive::sink::<AtomicSlice>();
            {
                let (a, o) = (acks.clone(), out.clone());
                let mut outputs = crate::emb::s_atomic::s_atomic::EmbeddedOutputs {
                    acks: move |x: i64| a.borrow_mut().last_mut().unwrap().push(x),
                    out: move |x: AtomicSlice| o.borrow_mut().last_mut().unwrap().push(x),
                };
                let mut flow = crate::emb::s_atomic::s_atomic(feed.clone(), &mut outputs);
                for chunk in ticks {
                    acks.borrow_mut().push(vec![]);
                    out.borrow_mut().push(vec![]);
                    feed.push_all(chunk.iter().cloned());
                    flow.run_tick_sync();
                }
            }
            (crate::drive::take(acks), crate::drive::take(out))
        })
    }
}

const FAMILIES: [&str; 6] = ["s_basic", "s_atomic", "s_keyed", "s_buffer", "s_kfirst", "s_prev_first"];
const QUIESCE: usize = 3;
const M: i64 = 1_000_003;

#[derive(Serialize, Deserialize, Clone, Hash, Debug)]
struct Case {
    engine: String,
    family: String,
    /// Per tick: (chunk of input a, chunk of input b).
    ticks: Vec<(Vec<KV>, Vec<KV>)>,
}

struct Ctx<'a> {
    rep: &'a mut Reporter,
    case: &'a Case,
    failed: Vec<String>,
}
impl Ctx<'_> {
    /// One oracle judgement; reports at most one violation per failure kind and case.
    fn judge(&mut self, ok: bool, kind: &str, what: impl FnOnce() -> String) {
        self.rep.eval();
        if !ok && !self.failed.iter().any(|k| k == kind) {
            self.failed.push(kind.to_string());
            self.rep.violation(&format!("C31|{}|{kind}", self.case.family), &what(), json!(self.case));
        }
    }
}

fn prefix_hash(xs: &[i64]) -> i64 {
    xs.iter().fold(1i64, |acc, x| (acc * 31 + x) % M)
}

fn check_case(rep: &mut Reporter, case: &Case) {
    let mut ticks = case.ticks.clone();
    ticks.extend(std::iter::repeat_n((vec![], vec![]), QUIESCE));
    let a_ticks: Vec<Vec<KV>> = ticks.iter().map(|t| t.0.clone()).collect();
    let a_all: Vec<KV> = a_ticks.iter().flatten().copied().collect();
    let a_vals: Vec<i64> = a_all.iter().map(|p| p.1).collect();
    let nonempty = case.ticks.iter().filter(|t| !t.0.is_empty() || !t.1.is_empty()).count();
    if nonempty >= 2 {
        rep.nontrivial(hash_of(case));
        rep.count(&format!("nontrivial/{}", case.family));
    }
    rep.sample(|| json!(case));
    let mut cx = Ctx { rep, case, failed: vec![] };
    macro_rules! ran {
        ($e:expr) => {
            match $e {
                Ok(r) => r,
                Err(p) => {
                    cx.judge(false, "panic", || format!("flow panicked: {p}"));
                    return;
                }
            }
        };
    }
    match case.family.as_str() {
        "s_basic" => {
            let tr = ran!(run::s_basic(&a_ticks));
            let slices: Vec<&Basic> = tr.iter().flatten().collect();
            cx.rep.count_n("slices", slices.len() as u64);
            let batches: Vec<i64> = slices.iter().flat_map(|s| s.0.iter().copied()).collect();
            cx.judge(batches == a_vals, "batches do not partition the input in order", || {
                format!("concatenated batches {batches:?} != input {a_vals:?}")
            });
            let mut seen = 0usize;
            let mut prev_c = 0usize;
            for (i, (b, c, h, s)) in slices.iter().map(|x| (&x.0, x.1, x.2, x.3)).enumerate() {
                cx.judge(c >= prev_c, "count snapshot went back", || {
                    format!("slice {i}: count snapshot {c} after {prev_c}")
                });
                cx.judge(c <= a_vals.len() && h == prefix_hash(&a_vals[..c.min(a_vals.len())]),
                    "two snapshot hooks of one slice reflect different prefixes", || {
                    format!("slice {i}: count snapshot {c} but fold snapshot {h} is not the fold of the first {c} inputs")
                });
                cx.judge(s == seen, "state hook does not carry the previous slice's value", || {
                    format!("slice {i}: state {s}, previous slice wrote {seen}")
                });
                // informational (snapshots may lag in general; in production they do not)
                if c >= seen + b.len() {
                    cx.rep.count("snapshot_covers_batch");
                } else {
                    cx.rep.count("snapshot_lags_batch");
                }
                prev_c = c;
                seen += b.len();
            }
        }
        "s_atomic" => {
            let (acks, tr) = ran!(run::s_atomic(&a_ticks));
            let slices: Vec<&AtomicSlice> = tr.iter().flatten().collect();
            cx.rep.count_n("slices", slices.len() as u64);
            let batches: Vec<i64> = slices.iter().flat_map(|s| s.0.iter().copied()).collect();
            cx.judge(batches == a_vals, "batches do not partition the input in order", || {
                format!("concatenated atomic batches {batches:?} != input {a_vals:?}")
            });
            let acked: Vec<i64> = acks.iter().flatten().copied().collect();
            cx.judge(acked == a_vals, "end_atomic output is not the input", || {
                format!("acks {acked:?} != input {a_vals:?}")
            });
            let mut seen = 0usize;
            let mut prev_c = 0usize;
            for (i, (b, c, s)) in slices.iter().map(|x| (&x.0, x.1, x.2)).enumerate() {
                cx.judge(c >= prev_c, "count snapshot went back", || {
                    format!("slice {i}: count snapshot {c} after {prev_c}")
                });
                cx.judge(s == seen, "state hook does not carry the previous slice's value", || {
                    format!("slice {i}: state {s}, previous slice wrote {seen}")
                });
                // single cut inside one atomic region: the snapshot includes the batch revealed with it
                cx.judge(c >= seen + b.len() && c <= a_vals.len(),
                    "atomic snapshot and atomic batch of one slice are not one cut", || {
                    format!("slice {i}: batched so far {} (incl. this batch) but atomic count snapshot {c}", seen + b.len())
                });
                prev_c = c;
                seen += b.len();
            }
            // acknowledgements observed up to tick t are covered by every atomic snapshot from tick t on
            let mut acked_so_far = 0usize;
            for t in 0..ticks.len() {
                acked_so_far += acks[t].len();
                for s in &tr[t] {
                    cx.judge(s.1 >= acked_so_far.saturating_sub(acks[t].len()),
                        "atomic snapshot misses acknowledged elements", || {
                        format!("tick {t}: snapshot {} but {} acks were observed in earlier ticks", s.1, acked_so_far - acks[t].len())
                    });
                }
            }
        }
        "s_keyed" => {
            let tr = ran!(run::s_keyed(&a_ticks));
            let slices: Vec<&KeyedSlice> = tr.iter().flatten().collect();
            cx.rep.count_n("slices", slices.len() as u64);
            let mut per_key: BTreeMap<i64, Vec<i64>> = BTreeMap::new();
            let mut want: BTreeMap<i64, Vec<i64>> = BTreeMap::new();
            for (k, v) in &a_all {
                want.entry(*k).or_default().push(*v);
            }
            let mut prev: BTreeMap<i64, usize> = BTreeMap::new();
            for (i, s) in slices.iter().enumerate() {
                let mut keys: Vec<i64> = s.0.iter().map(|x| x.0).collect();
                keys.sort();
                let n = keys.len();
                keys.dedup();
                cx.judge(n == keys.len(), "a key appears twice in one keyed batch", || format!("slice {i}: {:?}", s.0));
                for (k, vs) in &s.0 {
                    per_key.entry(*k).or_default().extend(vs);
                }
                let cur: BTreeMap<i64, usize> = s.1.iter().copied().collect();
                cx.judge(cur.len() == s.1.len(), "a key appears twice in one keyed snapshot", || format!("slice {i}: {:?}", s.1));
                for (k, c) in &prev {
                    let now = cur.get(k).copied();
                    cx.judge(now.is_some_and(|x| x >= *c), "keyed snapshot went back", || {
                        format!("slice {i}: key {k} had count {c}, now {now:?}")
                    });
                }
                for (k, c) in &cur {
                    let total = want.get(k).map(|v| v.len()).unwrap_or(0);
                    cx.judge(*c >= 1 && *c <= total, "keyed snapshot is not the count of a prefix", || {
                        format!("slice {i}: key {k} count {c}, the input has {total} values for it")
                    });
                }
                prev = cur;
            }
            cx.judge(per_key == want, "keyed batches do not partition the input per key in order", || {
                format!("per-key concatenation {per_key:?} != per-key input {want:?}")
            });
        }
        "s_buffer" => {
            let tr = ran!(run::s_buffer(&ticks));
            let slices: Vec<&BufferSlice> = tr.iter().flatten().collect();
            cx.rep.count_n("slices", slices.len() as u64);
            let b_vals: Vec<i64> = ticks.iter().flat_map(|t| t.1.iter().map(|p| p.1)).collect();
            // values the leader (running max of b) can take, by prefix length
            let prefix_max: Vec<Option<i64>> = (0..=b_vals.len()).map(|p| b_vals[..p].iter().copied().max()).collect();
            let mut written: Vec<i64> = vec![];
            let mut batches: Vec<i64> = vec![];
            let mut min_prefix = 0usize;
            for (i, (all, leader, carried)) in slices.iter().map(|x| (&x.0, x.1, &x.2)).enumerate() {
                cx.judge(*carried == written, "state hook does not carry the previous slice's value", || {
                    format!("slice {i}: state {carried:?}, previous slice wrote {written:?}")
                });
                cx.judge(all.len() >= carried.len() && all[..carried.len().min(all.len())] == carried[..],
                    "chain(state, batch) does not start with the state", || format!("slice {i}: all {all:?}, state {carried:?}"));
                batches.extend(all.iter().skip(carried.len()));
                // the optional snapshot is the max of a prefix of b no shorter than the previous slice's prefix
                let found = (min_prefix..prefix_max.len()).find(|p| prefix_max[*p] == leader);
                cx.judge(found.is_some(), "optional snapshot went back or is no prefix value", || {
                    format!("slice {i}: leader snapshot {leader:?}; b = {b_vals:?}; earlier snapshots needed a prefix >= {min_prefix}")
                });
                if let Some(p) = found {
                    min_prefix = p;
                }
                written = if leader.is_none() { (*all).clone() } else { vec![] };
                if !carried.is_empty() {
                    cx.rep.count("buffer_slices_with_carried_state");
                }
            }
            cx.judge(batches == a_vals, "batches do not partition the input in order", || {
                format!("concatenated batches {batches:?} != input {a_vals:?}")
            });
        }
        "s_kfirst" => {
            let tr = ran!(run::s_kfirst(&a_ticks));
            cx.rep.count_n("slices", tr.iter().map(|t| t.len() as u64).sum());
            let mut first_val: BTreeMap<i64, (i64, usize)> = BTreeMap::new();
            for (t, chunk) in a_ticks.iter().enumerate() {
                for (k, v) in chunk {
                    first_val.entry(*k).or_insert((*v, t));
                }
            }
            let mut revealed: BTreeMap<i64, i64> = BTreeMap::new();
            for (t, slices) in tr.iter().enumerate() {
                for s in slices {
                    for (k, v) in s {
                        let dup = revealed.insert(*k, *v).is_some();
                        cx.judge(!dup, "bounded-value entry revealed in more than one slice", || {
                            format!("tick {t}: key {k} revealed again")
                        });
                        let fv = first_val.get(k).copied();
                        cx.judge(fv.is_some_and(|(fv, ft)| fv == *v && ft <= t), "revealed entry is not the key's first value", || {
                            format!("tick {t}: revealed ({k},{v}); first value/tick of the key in the input: {fv:?}")
                        });
                    }
                }
            }
            cx.judge(revealed.len() == first_val.len(), "bounded-value entry never revealed", || {
                format!("revealed {revealed:?}, expected keys {:?}", first_val.keys().collect::<Vec<_>>())
            });
        }
        "s_prev_first" => {
            let tr = ran!(run::s_prev_first(&a_ticks));
            let slices: Vec<&(Vec<i64>, i64)> = tr.iter().flatten().collect();
            cx.rep.count_n("slices", slices.len() as u64);
            let batches: Vec<i64> = slices.iter().flat_map(|s| s.0.iter().copied()).collect();
            cx.judge(batches == a_vals, "batches do not partition the input in order", || {
                format!("concatenated batches {batches:?} != input {a_vals:?}")
            });
            let mut written: i64 = -1;
            for (i, (b, prev)) in slices.iter().map(|x| (&x.0, x.1)).enumerate() {
                cx.judge(prev == written, "state hook does not carry the previous slice's value", || {
                    format!("slice {i}: state {prev}, previous slice wrote {written}")
                });
                written = b.first().copied().unwrap_or(-1);
            }
        }
        other => {
            eprintln!("unknown family {other}");
            std::process::exit(3);
        }
    }
}

// ---------------------------------------------------------------------------------------------
// workload

/// Distinct values so that every element is identifiable; keys from a small domain.
fn gen_items(rng: &mut Rng, n: usize, keys: i64) -> Vec<KV> {
    let mut vals: Vec<i64> = (1..=(n as i64 * 3)).collect();
    rng.shuffle(&mut vals);
    (0..n).map(|i| (rng.range(0, keys - 1), vals[i])).collect()
}

/// Chunk `items` by a composition, with `gap` empty ticks between chunks.
fn layout(items: &[KV], comp: &[usize], gap: usize) -> Vec<Vec<KV>> {
    let mut out = vec![];
    for (i, c) in hv_common::chunks_of(items, comp).into_iter().enumerate() {
        if i > 0 {
            out.extend(std::iter::repeat_n(vec![], gap));
        }
        out.push(c);
    }
    out
}

pub fn run(args: &Args) {
    let mut rep = Reporter::new("C31", args.seed);
    if let Some(c) = args.replay_case() {
        let case: Case = serde_json::from_value(c).expect("replay case");
        check_case(&mut rep, &case);
        rep.finish("replay", false);
        return;
    }
    let mut rng = args.rng();
    let mk = |family: &str, ticks: Vec<(Vec<KV>, Vec<KV>)>| Case { engine: "hv_tick_emb".into(), family: family.into(), ticks };
    let single = ["s_basic", "s_atomic", "s_keyed", "s_kfirst", "s_prev_first"];

    // (A) all partitions: for a few inputs per length n <= 6 every composition, without and with an empty
    // tick between chunks.
    let inputs_per_len = args.budget(20, 120, 1);
    let max_n = match args.tier {
        Tier::Miri => 3,
        Tier::Quick => 6,
        Tier::Thorough => 8,
    };
    for fam in single {
        for n in 1..=max_n {
            for _ in 0..inputs_per_len {
                let keys = 1 + rng.below(3) as i64;
                let items = gen_items(&mut rng, n, keys);
                for comp in hv_common::compositions(n) {
                    for gap in 0..2 {
                        let ticks = layout(&items, &comp, gap).into_iter().map(|c| (c, vec![])).collect();
                        check_case(&mut rep, &mk(fam, ticks));
                    }
                }
            }
        }
    }
    // two inputs: every pair of compositions for |a| <= 4, |b| <= 3, b shifted by 0..2 ticks
    for na in 1..=4usize {
        for nb in 0..=3usize {
            for _ in 0..args.budget(6, 40, 1) {
                let a = gen_items(&mut rng, na, 1);
                let b = gen_items(&mut rng, nb, 1);
                for ca in hv_common::compositions(na) {
                    for cb in hv_common::compositions(nb) {
                        for shift in 0..3usize {
                            let la = layout(&a, &ca, 0);
                            let mut lb = vec![vec![]; shift];
                            lb.extend(layout(&b, &cb, 0));
                            let t = la.len().max(lb.len());
                            let ticks = (0..t)
                                .map(|i| (la.get(i).cloned().unwrap_or_default(), lb.get(i).cloned().unwrap_or_default()))
                                .collect();
                            check_case(&mut rep, &mk("s_buffer", ticks));
                        }
                    }
                }
            }
        }
    }
    // (B) random partitions of longer inputs
    for fam in FAMILIES {
        for _ in 0..args.budget(3000, 60_000, 3) {
            let n = 5 + rng.below(26);
            let t = 2 + rng.below(9);
            let keys = 1 + rng.below(4) as i64;
            let a_items = gen_items(&mut rng, n, keys);
            let a = hv_common::random_chunks(&mut rng, &a_items, t);
            let b = if fam == "s_buffer" {
                let nb = rng.below(6);
                let b_items = gen_items(&mut rng, nb, 1);
                hv_common::random_chunks(&mut rng, &b_items, t)
            } else {
                vec![vec![]; t]
            };
            check_case(&mut rep, &mk(fam, a.into_iter().zip(b).collect()));
        }
    }
    if args.tier != Tier::Miri {
        for fam in FAMILIES {
            let n = rep.counter(&format!("nontrivial/{fam}"));
            rep.require(n >= 300, &format!("family {fam} saw only {n} non-trivial partitions"));
        }
        rep.require(rep.counter("buffer_slices_with_carried_state") >= 100, "state_null buffer was rarely non-empty");
    }
    rep.finish(
        "Six sliced! programs (batch + two snapshots + state; atomic batch + atomic snapshot + state; keyed \
         batch + keyed snapshot; two batched inputs + optional snapshot + state_null buffer; bounded-value keyed \
         singleton batch; state_null optional) compiled by generate_embedded and driven slice by slice. (A) for \
         20 (quick) / 120 (thorough) random inputs per length 1..6 (thorough: 1..8) with distinct values: every composition, without \
         and with an empty tick between chunks; for the two-input program every pair of compositions (|a|<=4, \
         |b|<=3, b shifted 0-2 ticks). (B) random partitions of 5-30 items over 2-10 ticks. Each slice emits \
         what its hooks revealed; judged: batches partition the input in order (per key for keyed), snapshots \
         never go back, hooks of one slice agree on one cut, state equals what the previous slice wrote. \
         Non-trivial = at least two ticks received a non-empty chunk.",
        true,
    );
}
