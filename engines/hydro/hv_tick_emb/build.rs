//! Runs the production code generator (`generate_embedded`) for every flow of `hv_tick_flows` and writes one
//! module per flow to $OUT_DIR/<name>.rs plus $OUT_DIR/all.rs declaring them.
use hydro_lang::location::Location;

type KV = (i64, i64);

fn main() {
    println!("cargo::rerun-if-changed=build.rs");
    let out_dir = std::env::var("OUT_DIR").unwrap();
    let mut mods: Vec<String> = vec![];
    let mut emit = |name: &str, code: syn::File| {
        std::fs::write(format!("{out_dir}/{name}.rs"), prettyplease::unparse(&code)).unwrap();
        mods.push(name.to_string());
    };

    // one input `a`, one output `out`
    macro_rules! flow1 {
        ($m:ident :: $name:ident, $tin:ty) => {{
            let mut flow = hydro_lang::compile::builder::FlowBuilder::new();
            let process = flow.process::<()>();
            hv_tick_flows::$m::$name(process.embedded_input::<$tin>("a")).embedded_output("out");
            emit(
                stringify!($name),
                flow.with_process(&process, stringify!($name)).generate_embedded("hv_tick_flows"),
            );
        }};
    }
    // two inputs `a`, `b`, one output `out`
    macro_rules! flow2 {
        ($m:ident :: $name:ident, $ta:ty, $tb:ty) => {{
            let mut flow = hydro_lang::compile::builder::FlowBuilder::new();
            let process = flow.process::<()>();
            hv_tick_flows::$m::$name(process.embedded_input::<$ta>("a"), process.embedded_input::<$tb>("b"))
                .embedded_output("out");
            emit(
                stringify!($name),
                flow.with_process(&process, stringify!($name)).generate_embedded("hv_tick_flows"),
            );
        }};
    }

    // --- C30 ----------------------------------------------------------------------------------
    flow1!(c30::t_fold_sum, KV);
    flow1!(c30::t_fold_poly, KV);
    flow1!(c30::t_collect_vec, KV);
    flow1!(c30::t_reduce, KV);
    flow1!(c30::t_count, KV);
    flow1!(c30::t_max, KV);
    flow1!(c30::t_min, KV);
    flow1!(c30::t_first, KV);
    flow1!(c30::t_last, KV);
    flow1!(c30::t_limit2, KV);
    flow1!(c30::t_limit0, KV);
    flow1!(c30::t_sort, KV);
    flow1!(c30::t_enumerate, KV);
    flow1!(c30::t_cross_count, KV);
    flow2!(c30::t_cross_max, KV, KV);
    flow2!(c30::t_join, KV, KV);
    flow2!(c30::t_anti_join, KV, KV);
    flow2!(c30::t_filter_not_in, KV, KV);
    flow1!(c30::t_unique, KV);
    flow1!(c30::t_chain, KV);
    flow1!(c30::t_keyed_fold, KV);
    flow1!(c30::t_keyed_reduce_first, KV);
    flow2!(c30::t_composite, KV, KV);
    flow1!(c30::d_defer1, KV);
    flow1!(c30::d_defer2, KV);
    flow1!(c30::d_defer_mix, KV);
    flow1!(c30::d_diff_prev, KV);
    flow1!(c30::d_opt_defer, KV);
    flow1!(c30::d_keyed_defer, KV);
    flow1!(c30::d_keyed_singleton_defer, KV);
    flow1!(c30::d_cycle_count, KV);
    flow1!(c30::d_cycle_stream, KV);
    flow1!(c30::d_cycle_opt, KV);
    flow1!(c30::d_forward_ref, KV);
    flow1!(c30::d_across_count, KV);
    flow1!(c30::d_across_fold, KV);
    flow1!(c30::d_across_map, KV);
    flow1!(c30::d_across_vs_local, KV);
    flow1!(c30::d_first_tick, KV);
    flow1!(c30::d_snapshot_total, KV);
    flow1!(c30::f_cross_first, KV);
    flow1!(c30::f_cross_const, KV);
    flow1!(c30::f_cross_none, KV);
    flow1!(c30::f_zip_count_first, KV);
    flow1!(c30::f_zip_count_const, KV);
    flow1!(c30::f_zip_max_first, KV);
    flow1!(c30::f_zip_const_first, KV);
    flow1!(c30::f_first_zip_count, KV);
    flow1!(c30::f_filter_if_first, KV);
    flow1!(c30::f_filter_if_some_first, KV);
    flow1!(c30::f_filter_if_none_first, KV);
    flow1!(c30::f_count_filter_if_some, KV);
    flow1!(c30::f_chain_first, KV);
    flow1!(c30::f_or_first, KV);
    flow1!(c30::f_or_max_first, KV);
    flow1!(c30::f_unwrap_cross, KV);
    flow1!(c30::f_join_first, KV);
    flow1!(c30::f_anti_first, KV);

    // --- C31 ----------------------------------------------------------------------------------
    flow1!(c31::s_basic, KV);
    {
        let mut flow = hydro_lang::compile::builder::FlowBuilder::new();
        let process = flow.process::<()>();
        let (acks, slices) = hv_tick_flows::c31::s_atomic(process.embedded_input::<KV>("a"));
        acks.embedded_output("acks");
        slices.embedded_output("out");
        emit("s_atomic", flow.with_process(&process, "s_atomic").generate_embedded("hv_tick_flows"));
    }
    flow1!(c31::s_keyed, KV);
    flow2!(c31::s_buffer, KV, KV);
    flow1!(c31::s_kfirst, KV);
    flow1!(c31::s_prev_first, KV);

    // --- C34 ----------------------------------------------------------------------------------
    macro_rules! counter {
        ($name:ident) => {{
            let mut flow = hydro_lang::compile::builder::FlowBuilder::new();
            let process = flow.process::<()>();
            let (acks, resp) = hv_tick_flows::c34::$name(
                process.embedded_input::<KV>("incs"),
                process.embedded_input::<KV>("gets"),
            );
            acks.embedded_output("acks");
            resp.embedded_output("resp");
            emit(
                stringify!($name),
                flow.with_process(&process, stringify!($name)).generate_embedded("hv_tick_flows"),
            );
        }};
    }
    counter!(kc_atomic);
    counter!(kc_atomic_sum);
    counter!(sc_atomic);
    counter!(sc_yield_atomic);
    counter!(kc_nonatomic);
    counter!(sc_nonatomic);

    // --- C39 ----------------------------------------------------------------------------------
    for (min, max) in [
        (1usize, 1usize), (1, 2), (2, 2), (1, 3), (2, 3), (3, 3),
        // larger maxima: sub-majority quorums (max >= 2*min+1) and other non-majority shapes
        (1, 4), (2, 4), (3, 4), (4, 4), (1, 5), (2, 5), (3, 5), (4, 5), (5, 5),
    ] {
        let mut flow = hydro_lang::compile::builder::FlowBuilder::new();
        let process = flow.process::<()>();
        let (ok, err, rok, rerr) =
            hv_tick_flows::c39::quorum(process.embedded_input::<hv_tick_flows::c39::R>("a"), min, max);
        ok.embedded_output("ok");
        err.embedded_output("err");
        rok.embedded_output("rok");
        rerr.embedded_output("rerr");
        let name = format!("quorum_{min}_{max}");
        emit(&name, flow.with_process(&process, &name).generate_embedded("hv_tick_flows"));
    }
    {
        let mut flow = hydro_lang::compile::builder::FlowBuilder::new();
        let process = flow.process::<()>();
        hv_tick_flows::c39::join_resp(process.embedded_input::<KV>("a"), process.embedded_input::<KV>("b"))
            .embedded_output("out");
        emit("join_resp", flow.with_process(&process, "join_resp").generate_embedded("hv_tick_flows"));
    }

    let mut all = String::new();
    for m in &mods {
        all.push_str(&format!(
            "#[allow(unused_imports, unused_qualifications, missing_docs, non_snake_case, unused_variables, unused_mut, dead_code)]\npub mod {m} {{ include!(concat!(env!(\"OUT_DIR\"), \"/{m}.rs\")); }}\n"
        ));
    }
    std::fs::write(format!("{out_dir}/all.rs"), all).unwrap();
}
