//! C31 corpus: `sliced!` programs that emit, per slice, what every hook revealed.
use hydro_lang::live_collections::stream::TotalOrder;
use hydro_lang::location::Location;
use hydro_lang::prelude::*;

use crate::{KV, S};

/// (batch, count snapshot, positional-hash snapshot, state = number of elements batched in earlier slices)
pub type Basic = (Vec<i64>, usize, i64, usize);

/// batch + two snapshots derived from the same input + state with initial value.
pub fn s_basic<'a>(a: S<'a, KV>) -> S<'a, Basic> {
    let v = a.map(q!(|p| p.1));
    let cnt = v.clone().count();
    let hash = v
        .clone()
        .fold(q!(|| 1i64), q!(|acc, x| *acc = (*acc * 31 + x) % 1_000_003));
    sliced! {
        let batch = use::batch(v, nondet!(/** the harness chooses the slices */));
        let c = use::snapshot(cnt, nondet!(/** the harness chooses the slices */));
        let h = use::snapshot(hash, nondet!(/** the harness chooses the slices */));
        let mut seen = use::state(|l| l.singleton(q!(0usize)));

        let out = batch
            .clone()
            .collect_vec()
            .zip(c)
            .zip(h)
            .zip(seen.clone())
            .map(q!(|(((b, c), h), s)| (b, c, h, s)));
        seen = seen.zip(batch.count()).map(q!(|(s, n)| s + n));
        out.into_stream()
    }
}

/// (batch, atomic count snapshot, state = number of elements batched in earlier slices)
pub type AtomicSlice = (Vec<i64>, usize, usize);

/// Atomic flavour: the batch and the snapshot both come from one atomic region.
pub fn s_atomic<'a>(a: S<'a, KV>) -> (S<'a, i64>, S<'a, AtomicSlice>) {
    let v = a.map(q!(|p| p.1)).atomic();
    let cnt = v.clone().count();
    let acks = v.clone().end_atomic();
    let slices = sliced! {
        let batch = use::atomic(v, nondet!(/** the harness chooses the slices */));
        let c = use::atomic(cnt, nondet!(/** the harness chooses the slices */));
        let mut seen = use::state(|l| l.singleton(q!(0usize)));

        let out = batch
            .clone()
            .collect_vec()
            .zip(c)
            .zip(seen.clone())
            .map(q!(|((b, c), s)| (b, c, s)));
        seen = seen.zip(batch.count()).map(q!(|(s, n)| s + n));
        out.into_stream()
    };
    (acks, slices)
}

/// (per-key batches in per-key order, per-key count snapshot); both unordered across keys.
pub type KeyedSlice = (Vec<(i64, Vec<i64>)>, Vec<(i64, usize)>);

/// Keyed stream batch + keyed singleton snapshot.
pub fn s_keyed<'a>(a: S<'a, KV>) -> S<'a, KeyedSlice> {
    let ks = a.into_keyed();
    let counts = ks.clone().value_counts();
    sliced! {
        let batch = use::batch(ks, nondet!(/** the harness chooses the slices */));
        let snap = use::snapshot(counts, nondet!(/** the harness chooses the slices */));

        let b = batch
            .fold(q!(|| vec![]), q!(|acc: &mut Vec<i64>, v| acc.push(v)))
            .entries()
            .assume_ordering::<TotalOrder>(nondet!(/** observer */))
            .collect_vec();
        let s = snap
            .entries()
            .assume_ordering::<TotalOrder>(nondet!(/** observer */))
            .collect_vec();
        b.zip(s).into_stream()
    }
}

/// (buffered ++ batch, leader snapshot, buffered state as seen at the start of the slice)
pub type BufferSlice = (Vec<i64>, Option<i64>, Vec<i64>);

/// The documented buffering idiom: two inputs, `state_null` stream, optional snapshot.
pub fn s_buffer<'a>(a: S<'a, KV>, b: S<'a, KV>) -> S<'a, BufferSlice> {
    let payloads = a.map(q!(|p| p.1));
    let leader = b.map(q!(|p| p.1)).max();
    sliced! {
        let mut unsent = use::state_null::<Stream<i64, _, _, TotalOrder>>();
        let batch = use::batch(payloads, nondet!(/** the harness chooses the slices */));
        let latest = use::snapshot(leader, nondet!(/** the harness chooses the slices */));

        let carried = unsent.clone().collect_vec();
        let all = unsent.chain(batch);
        unsent = all.clone().filter_if(latest.clone().is_none());
        all.collect_vec()
            .zip(latest.into_singleton())
            .zip(carried)
            .map(q!(|((a, l), c)| (a, l, c)))
            .into_stream()
    }
}

/// Bounded-value keyed singleton with `use::batch`: every entry is revealed in exactly one slice.
pub fn s_kfirst<'a>(a: S<'a, KV>) -> S<'a, Vec<KV>> {
    let firsts = a.into_keyed().first();
    sliced! {
        let fresh = use::batch(firsts, nondet!(/** the harness chooses the slices */));
        fresh
            .entries()
            .assume_ordering::<TotalOrder>(nondet!(/** observer */))
            .collect_vec()
            .into_stream()
    }
}

/// `state_null` optional: (batch, first element of the previous slice's batch or -1).
pub fn s_prev_first<'a>(a: S<'a, KV>) -> S<'a, (Vec<i64>, i64)> {
    let v = a.map(q!(|p| p.1));
    sliced! {
        let batch = use::batch(v, nondet!(/** the harness chooses the slices */));
        let mut prev = use::state_null::<Optional<i64, Tick<_>, Bounded>>();

        let fallback = prev.location().singleton(q!(-1i64));
        let out = batch.clone().collect_vec().zip(prev.clone().unwrap_or(fallback));
        prev = batch.first();
        out.into_stream()
    }
}
