//! Hand-written corpus of Hydro flows for the production-codegen halves of C30 (tick-scoped
//! collections are finite batches), C31 (slices), C34 (atomic read-after-write) and C39 (quorum helpers).
//!
//! Conventions: every flow takes embedded inputs named `a` (and `b`) and returns the stream that the
//! build script registers as embedded output `out` (a few flows return several outputs). The
//! `nondet!(/** observer */)` annotations belong to the observation scaffold, not to the program judged.
#[cfg(stageleft_runtime)]
hydro_lang::setup!();

use hydro_lang::live_collections::stream::{ExactlyOnce, NoOrder, TotalOrder};
use hydro_lang::prelude::*;

pub mod c30;
pub mod c31;
pub mod c34;
pub mod c39;

pub type P<'a> = Process<'a, ()>;
/// Harness-fed input / observed output.
pub type S<'a, T> = Stream<T, P<'a>, Unbounded, TotalOrder, ExactlyOnce>;
/// A batch inside a tick.
pub type B<'a, T> = Stream<T, Tick<P<'a>>, Bounded, TotalOrder, ExactlyOnce>;
pub type BU<'a, T> = Stream<T, Tick<P<'a>>, Bounded, NoOrder, ExactlyOnce>;
pub type KV = (i64, i64);
