//! C39 corpus: wrappers around the `hydro_std` quorum helpers and the request/response joiner.
use hydro_lang::live_collections::stream::{NoOrder, TotalOrder};
use hydro_lang::location::Location;
use hydro_lang::prelude::*;
use hydro_std::quorum::{collect_quorum, collect_quorum_with_response};
use hydro_std::request_response::join_responses;

use crate::{KV, S};

/// A response: (key, Ok(payload) | Err(payload)).
pub type R = (i64, Result<i64, i64>);

/// Both helpers over the same response stream. Outputs: keys that reached quorum, errors passed through by
/// `collect_quorum`, payloads released by `collect_quorum_with_response`, errors passed through by it.
#[expect(clippy::type_complexity, reason = "corpus")]
pub fn quorum<'a>(
    a: S<'a, R>,
    min: usize,
    max: usize,
) -> (S<'a, i64>, S<'a, KV>, S<'a, KV>, S<'a, KV>) {
    let (ok, err) = collect_quorum(a.clone().map(q!(|(k, r)| (k, r.map(|_| ())))), min, max);
    let (rok, rerr) = collect_quorum_with_response(a, min, max);
    (
        ok.assume_ordering::<TotalOrder>(nondet!(/** observer */)),
        err,
        rok,
        rerr,
    )
}

/// `join_responses` with the metadata batched into a tick as at request time.
/// Output rows: (key, metadata, response).
pub fn join_resp<'a>(resp: S<'a, KV>, meta: S<'a, KV>) -> S<'a, (i64, i64, i64)> {
    let tick = meta.location().tick();
    let m = meta
        .batch(&tick, nondet!(/** the harness chooses each tick's batch */))
        .weaken_ordering::<NoOrder>();
    join_responses(resp.weaken_ordering::<NoOrder>(), m)
        .map(q!(|(k, (m, v))| (k, m, v)))
        .assume_ordering::<TotalOrder>(nondet!(/** observer */))
}
