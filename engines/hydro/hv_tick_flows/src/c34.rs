//! C34 corpus: counter services with an atomic write/ack path and an atomic read path (the keyed-counter
//! tutorial generalised), plus the documented non-atomic variants as positive controls.
//!
//! Inputs: `incs` = (key, request id | amount), `gets` = (key, get id).
//! Outputs: `acks` = the increments as acknowledged, `resp` = (key, get id, value read).
use hydro_lang::live_collections::sliced::yield_atomic;
use hydro_lang::live_collections::stream::TotalOrder;
use hydro_lang::prelude::*;

use crate::{KV, S};

pub type Resp = (i64, i64, i64);

/// The tutorial's `keyed_counter_service`: per-key `value_counts` inside the atomic region.
pub fn kc_atomic<'a>(incs: S<'a, KV>, gets: S<'a, KV>) -> (S<'a, KV>, S<'a, Resp>) {
    let processing = incs.into_keyed().atomic();
    let counts = processing.clone().value_counts();
    let acks = processing.end_atomic();

    let lookup = sliced! {
        let reqs = use::batch(gets.into_keyed(), nondet!(/** batch boundaries are never observed */));
        let snap = use::atomic(counts, nondet!(/** atomicity guarantees consistency wrt increments */));
        reqs.join_keyed_singleton(snap)
    };
    (
        acks.entries()
            .assume_ordering::<TotalOrder>(nondet!(/** observer */)),
        lookup
            .entries()
            .map(q!(|(k, (id, c))| (k, id, c as i64)))
            .assume_ordering::<TotalOrder>(nondet!(/** observer */)),
    )
}

/// Per-key sum of amounts (keyed fold) inside the atomic region.
pub fn kc_atomic_sum<'a>(incs: S<'a, KV>, gets: S<'a, KV>) -> (S<'a, KV>, S<'a, Resp>) {
    let processing = incs.into_keyed().atomic();
    let sums = processing
        .clone()
        .fold(q!(|| 0i64), q!(|acc, amount| *acc += amount));
    let acks = processing.end_atomic();

    let lookup = sliced! {
        let reqs = use::batch(gets.into_keyed(), nondet!(/** batch boundaries are never observed */));
        let snap = use::atomic(sums, nondet!(/** atomicity guarantees consistency wrt increments */));
        reqs.join_keyed_singleton(snap)
    };
    (
        acks.entries()
            .assume_ordering::<TotalOrder>(nondet!(/** observer */)),
        lookup
            .entries()
            .map(q!(|(k, (id, c))| (k, id, c)))
            .assume_ordering::<TotalOrder>(nondet!(/** observer */)),
    )
}

/// Single (unkeyed) counter from the atomic-collections docs: `count()` + `cross_singleton`.
pub fn sc_atomic<'a>(incs: S<'a, KV>, gets: S<'a, KV>) -> (S<'a, KV>, S<'a, Resp>) {
    let processing = incs.atomic();
    let count = processing.clone().count();
    let acks = processing.end_atomic();

    let resp = sliced! {
        let reqs = use::batch(gets, nondet!(/** batch boundaries are never observed */));
        let snap = use::atomic(count, nondet!(/** atomicity guarantees consistency wrt increments */));
        reqs.cross_singleton(snap)
    };
    (acks, resp.map(q!(|((k, id), c)| (k, id, c as i64))))
}

/// The atomic region is opened by a slice (`yield_atomic`) instead of `atomic()`.
pub fn sc_yield_atomic<'a>(incs: S<'a, KV>, gets: S<'a, KV>) -> (S<'a, KV>, S<'a, Resp>) {
    let processing = sliced! {
        let batch = use::batch(incs, nondet!(/** batch boundaries are never observed */));
        yield_atomic(batch.map(q!(|(k, v)| (k, v))))
    };
    let count = processing.clone().count();
    let acks = processing.end_atomic();

    let resp = sliced! {
        let reqs = use::batch(gets, nondet!(/** batch boundaries are never observed */));
        let snap = use::atomic(count, nondet!(/** atomicity guarantees consistency wrt increments */));
        reqs.cross_singleton(snap)
    };
    (acks, resp.map(q!(|((k, id), c)| (k, id, c as i64))))
}

// ---------------------------------------------------------------------------------------------
// positive controls: the documented buggy (non-atomic) variants

/// The tutorial's `keyed_counter_service_buggy`.
pub fn kc_nonatomic<'a>(incs: S<'a, KV>, gets: S<'a, KV>) -> (S<'a, KV>, S<'a, Resp>) {
    let incs = incs.into_keyed();
    let counts = incs.clone().value_counts();
    let acks = incs;

    let lookup = sliced! {
        let reqs = use::batch(gets.into_keyed(), nondet!(/** batch boundaries are never observed */));
        let snap = use::snapshot(counts, nondet!(/** BUG (control): not atomic wrt the acks */));
        reqs.join_keyed_singleton(snap)
    };
    (
        acks.entries()
            .assume_ordering::<TotalOrder>(nondet!(/** observer */)),
        lookup
            .entries()
            .map(q!(|(k, (id, c))| (k, id, c as i64)))
            .assume_ordering::<TotalOrder>(nondet!(/** observer */)),
    )
}

/// The non-atomic single counter from the atomic-collections docs.
pub fn sc_nonatomic<'a>(incs: S<'a, KV>, gets: S<'a, KV>) -> (S<'a, KV>, S<'a, Resp>) {
    let count = incs.clone().count();
    let acks = incs;

    let resp = sliced! {
        let reqs = use::batch(gets, nondet!(/** batch boundaries are never observed */));
        let snap = use::snapshot(count, nondet!(/** BUG (control): not atomic wrt the acks */));
        reqs.cross_singleton(snap)
    };
    (acks, resp.map(q!(|((k, id), c)| (k, id, c as i64))))
}
