//! C30 corpus: tick-scoped collections behave like finite batches. Every flow observes `Vec<i64>` rows.
use hydro_lang::live_collections::stream::TotalOrder;
use hydro_lang::location::Location;
use hydro_lang::prelude::*;

use crate::{B, KV, S};

fn vals<'a>(a: S<'a, KV>) -> (Tick<crate::P<'a>>, B<'a, i64>) {
    let tick = a.location().tick();
    let b = a
        .map(q!(|p| p.1))
        .batch(&tick, nondet!(/** the harness chooses each tick's batch */));
    (tick, b)
}

fn pairs<'a>(a: S<'a, KV>) -> (Tick<crate::P<'a>>, B<'a, KV>) {
    let tick = a.location().tick();
    let b = a.batch(&tick, nondet!(/** the harness chooses each tick's batch */));
    (tick, b)
}

// ---------------------------------------------------------------------------------------------
// tick-local operators: output of tick t is a function of batch t only

pub fn t_fold_sum<'a>(a: S<'a, KV>) -> S<'a, Vec<i64>> {
    let (_t, b) = vals(a);
    b.fold(q!(|| 0i64), q!(|acc, x| *acc += x))
        .all_ticks()
        .map(q!(|s| vec![s]))
}

/// Order-sensitive fold (positional hash).
pub fn t_fold_poly<'a>(a: S<'a, KV>) -> S<'a, Vec<i64>> {
    let (_t, b) = vals(a);
    b.fold(q!(|| 1i64), q!(|acc, x| *acc = (*acc * 31 + x) % 1_000_003))
        .all_ticks()
        .map(q!(|s| vec![s]))
}

pub fn t_collect_vec<'a>(a: S<'a, KV>) -> S<'a, Vec<i64>> {
    let (_t, b) = vals(a);
    b.collect_vec().all_ticks()
}

pub fn t_reduce<'a>(a: S<'a, KV>) -> S<'a, Vec<i64>> {
    let (_t, b) = vals(a);
    b.reduce(q!(|acc, x| *acc = (*acc * 3 + x) % 1_000_003))
        .all_ticks()
        .map(q!(|s| vec![s]))
}

pub fn t_count<'a>(a: S<'a, KV>) -> S<'a, Vec<i64>> {
    let (_t, b) = vals(a);
    b.count().all_ticks().map(q!(|s| vec![s as i64]))
}

pub fn t_max<'a>(a: S<'a, KV>) -> S<'a, Vec<i64>> {
    let (_t, b) = vals(a);
    b.max().all_ticks().map(q!(|s| vec![s]))
}

pub fn t_min<'a>(a: S<'a, KV>) -> S<'a, Vec<i64>> {
    let (_t, b) = vals(a);
    b.min().all_ticks().map(q!(|s| vec![s]))
}

pub fn t_first<'a>(a: S<'a, KV>) -> S<'a, Vec<i64>> {
    let (_t, b) = vals(a);
    b.first().all_ticks().map(q!(|s| vec![s]))
}

pub fn t_last<'a>(a: S<'a, KV>) -> S<'a, Vec<i64>> {
    let (_t, b) = vals(a);
    b.last().all_ticks().map(q!(|s| vec![s]))
}

pub fn t_limit2<'a>(a: S<'a, KV>) -> S<'a, Vec<i64>> {
    let (_t, b) = vals(a);
    b.limit(q!(2)).all_ticks().map(q!(|s| vec![s]))
}

pub fn t_limit0<'a>(a: S<'a, KV>) -> S<'a, Vec<i64>> {
    let (_t, b) = vals(a);
    b.limit(q!(0)).all_ticks().map(q!(|s| vec![s]))
}

pub fn t_sort<'a>(a: S<'a, KV>) -> S<'a, Vec<i64>> {
    let (_t, b) = pairs(a);
    b.sort().all_ticks().map(q!(|(k, v)| vec![k, v]))
}

pub fn t_enumerate<'a>(a: S<'a, KV>) -> S<'a, Vec<i64>> {
    let (_t, b) = vals(a);
    b.enumerate().all_ticks().map(q!(|(i, x)| vec![i as i64, x]))
}

pub fn t_cross_count<'a>(a: S<'a, KV>) -> S<'a, Vec<i64>> {
    let (_t, b) = vals(a);
    let n = b.clone().count();
    b.cross_singleton(n)
        .all_ticks()
        .map(q!(|(x, n)| vec![x, n as i64]))
}

/// cross_singleton with an Optional (null on an empty batch) computed from another input.
pub fn t_cross_max<'a>(a: S<'a, KV>, b: S<'a, KV>) -> S<'a, Vec<i64>> {
    let (tick, ba) = vals(a);
    let bb = b
        .map(q!(|p| p.1))
        .batch(&tick, nondet!(/** the harness chooses each tick's batch */));
    ba.cross_singleton(bb.max())
        .all_ticks()
        .map(q!(|(x, m)| vec![x, m]))
}

pub fn t_join<'a>(a: S<'a, KV>, b: S<'a, KV>) -> S<'a, Vec<i64>> {
    let (tick, ba) = pairs(a);
    let bb = b.batch(&tick, nondet!(/** the harness chooses each tick's batch */));
    ba.join(bb)
        .all_ticks()
        .map(q!(|(k, (v1, v2))| vec![k, v1, v2]))
}

pub fn t_anti_join<'a>(a: S<'a, KV>, b: S<'a, KV>) -> S<'a, Vec<i64>> {
    let (tick, ba) = pairs(a);
    let bb = b.batch(&tick, nondet!(/** the harness chooses each tick's batch */));
    ba.anti_join(bb.map(q!(|p| p.0)))
        .all_ticks()
        .map(q!(|(k, v)| vec![k, v]))
}

pub fn t_filter_not_in<'a>(a: S<'a, KV>, b: S<'a, KV>) -> S<'a, Vec<i64>> {
    let (tick, ba) = vals(a);
    let bb = b
        .map(q!(|p| p.1))
        .batch(&tick, nondet!(/** the harness chooses each tick's batch */));
    ba.filter_not_in(bb).all_ticks().map(q!(|x| vec![x]))
}

pub fn t_unique<'a>(a: S<'a, KV>) -> S<'a, Vec<i64>> {
    let (_t, b) = vals(a);
    b.unique().all_ticks().map(q!(|x| vec![x]))
}

pub fn t_chain<'a>(a: S<'a, KV>) -> S<'a, Vec<i64>> {
    let (_t, b) = vals(a);
    b.clone()
        .map(q!(|x| x + 100))
        .chain(b)
        .all_ticks()
        .map(q!(|x| vec![x]))
}

/// Keyed fold per tick (rows unordered).
pub fn t_keyed_fold<'a>(a: S<'a, KV>) -> S<'a, Vec<i64>> {
    let (_t, b) = pairs(a);
    b.into_keyed()
        .fold(q!(|| 1i64), q!(|acc, v| *acc = (*acc * 31 + v) % 1_000_003))
        .entries()
        .all_ticks()
        .assume_ordering::<TotalOrder>(nondet!(/** observer */))
        .map(q!(|(k, v)| vec![k, v]))
}

/// Keyed reduce + keyed first per tick (rows unordered).
pub fn t_keyed_reduce_first<'a>(a: S<'a, KV>) -> S<'a, Vec<i64>> {
    let (_t, b) = pairs(a);
    let red = b
        .clone()
        .into_keyed()
        .reduce(q!(|acc, v| *acc = (*acc * 3 + v) % 1_000_003));
    let first = b.into_keyed().first();
    red.join_keyed_singleton(first)
        .entries()
        .all_ticks()
        .assume_ordering::<TotalOrder>(nondet!(/** observer */))
        .map(q!(|(k, (r, f))| vec![k, r, f]))
}

/// Composite: sort, enumerate, limit 3, join the rank against the second input, attach the batch size.
pub fn t_composite<'a>(a: S<'a, KV>, b: S<'a, KV>) -> S<'a, Vec<i64>> {
    let (tick, ba) = vals(a);
    let bb = b.batch(&tick, nondet!(/** the harness chooses each tick's batch */));
    let total = ba.clone().count();
    ba.sort()
        .enumerate()
        .limit(q!(3))
        .map(q!(|(i, x)| (i as i64, x)))
        .join(bb)
        .cross_singleton(total)
        .all_ticks()
        .map(q!(|((rank, (x, y)), n)| vec![rank, x, y, n as i64]))
}

// ---------------------------------------------------------------------------------------------
// values sent to the next tick

pub fn d_defer1<'a>(a: S<'a, KV>) -> S<'a, Vec<i64>> {
    let (_t, b) = vals(a);
    b.defer_tick().all_ticks().map(q!(|x| vec![x]))
}

pub fn d_defer2<'a>(a: S<'a, KV>) -> S<'a, Vec<i64>> {
    let (_t, b) = vals(a);
    b.defer_tick().defer_tick().all_ticks().map(q!(|x| vec![x]))
}

/// Current batch first, then the previous batch (+1000), then the one before (+2000).
pub fn d_defer_mix<'a>(a: S<'a, KV>) -> S<'a, Vec<i64>> {
    let (_t, b) = vals(a);
    let d1 = b.clone().defer_tick();
    let d2 = d1.clone().defer_tick();
    b.chain(d1.map(q!(|x| x + 1000)))
        .chain(d2.map(q!(|x| x + 2000)))
        .all_ticks()
        .map(q!(|x| vec![x]))
}

/// The documented "changes across ticks" idiom.
pub fn d_diff_prev<'a>(a: S<'a, KV>) -> S<'a, Vec<i64>> {
    let (_t, b) = vals(a);
    b.clone()
        .filter_not_in(b.defer_tick())
        .all_ticks()
        .map(q!(|x| vec![x]))
}

pub fn d_opt_defer<'a>(a: S<'a, KV>) -> S<'a, Vec<i64>> {
    let (_t, b) = vals(a);
    b.max().defer_tick().all_ticks().map(q!(|x| vec![x]))
}

pub fn d_keyed_defer<'a>(a: S<'a, KV>) -> S<'a, Vec<i64>> {
    let (_t, b) = pairs(a);
    b.into_keyed()
        .defer_tick()
        .entries()
        .all_ticks()
        .assume_ordering::<TotalOrder>(nondet!(/** observer */))
        .map(q!(|(k, v)| vec![k, v]))
}

pub fn d_keyed_singleton_defer<'a>(a: S<'a, KV>) -> S<'a, Vec<i64>> {
    let (_t, b) = pairs(a);
    b.into_keyed()
        .fold(q!(|| 0i64), q!(|acc, v| *acc += v))
        .defer_tick()
        .entries()
        .all_ticks()
        .assume_ordering::<TotalOrder>(nondet!(/** observer */))
        .map(q!(|(k, v)| vec![k, v]))
}

/// Tick cycle with initial value: running total of batch sizes.
pub fn d_cycle_count<'a>(a: S<'a, KV>) -> S<'a, Vec<i64>> {
    let (tick, b) = vals(a);
    let (h, prev) = tick.cycle_with_initial(tick.singleton(q!(0usize)));
    let cur = prev.zip(b.count()).map(q!(|(p, c)| p + c));
    h.complete_next_tick(cur.clone());
    cur.all_ticks().map(q!(|n| vec![n as i64]))
}

/// Tick cycle without initial value (stream): even values are carried forever, odd ones are dropped.
pub fn d_cycle_stream<'a>(a: S<'a, KV>) -> S<'a, Vec<i64>> {
    let (tick, b) = vals(a);
    let (h, prev) = tick.cycle::<B<'a, i64>, _>();
    let acc = prev.chain(b);
    h.complete_next_tick(acc.clone().filter(q!(|x| x % 2 == 0)));
    acc.all_ticks().map(q!(|x| vec![x]))
}

/// Tick cycle without initial value (optional): running maximum.
pub fn d_cycle_opt<'a>(a: S<'a, KV>) -> S<'a, Vec<i64>> {
    let (tick, b) = vals(a);
    let (h, prev) = tick.cycle::<Optional<i64, Tick<crate::P<'a>>, Bounded>, _>();
    let cur = prev.into_stream().chain(b).max();
    h.complete_next_tick(cur.clone());
    cur.all_ticks().map(q!(|x| vec![x]))
}

/// Forward reference inside a tick: resolved in the same tick (no delay).
pub fn d_forward_ref<'a>(a: S<'a, KV>) -> S<'a, Vec<i64>> {
    let (tick, b) = vals(a);
    let (h, fwd) = tick.forward_ref::<B<'a, i64>>();
    let out = fwd.map(q!(|x| x + 1)).all_ticks().map(q!(|x| vec![x]));
    h.complete(b);
    out
}

pub fn d_across_count<'a>(a: S<'a, KV>) -> S<'a, Vec<i64>> {
    let (_t, b) = vals(a);
    b.across_ticks(|s| s.count())
        .all_ticks()
        .map(q!(|n| vec![n as i64]))
}

pub fn d_across_fold<'a>(a: S<'a, KV>) -> S<'a, Vec<i64>> {
    let (_t, b) = vals(a);
    b.across_ticks(|s| s.fold(q!(|| 1i64), q!(|acc, x| *acc = (*acc * 31 + x) % 1_000_003)))
        .all_ticks()
        .map(q!(|n| vec![n]))
}

/// A stateless operator inside `across_ticks` must see exactly the current batch (no delay).
pub fn d_across_map<'a>(a: S<'a, KV>) -> S<'a, Vec<i64>> {
    let (_t, b) = vals(a);
    b.across_ticks(|s| s.map(q!(|x| x * 2)))
        .all_ticks()
        .map(q!(|n| vec![n]))
}

/// Stateful (across ticks) and tick-local aggregates side by side.
pub fn d_across_vs_local<'a>(a: S<'a, KV>) -> S<'a, Vec<i64>> {
    let (_t, b) = vals(a);
    let local = b.clone().count();
    b.across_ticks(|s| s.count())
        .zip(local)
        .all_ticks()
        .map(q!(|(total, local)| vec![total as i64, local as i64]))
}

/// First-tick-only value next to a per-tick count.
pub fn d_first_tick<'a>(a: S<'a, KV>) -> S<'a, Vec<i64>> {
    let (tick, b) = vals(a);
    tick.optional_first_tick(q!(7i64))
        .unwrap_or(tick.singleton(q!(1i64)))
        .zip(b.count())
        .all_ticks()
        .map(q!(|(f, n)| vec![f, n as i64]))
}

/// Persist-style: an unbounded (cross-tick) count snapshotted into the tick next to the tick-local count.
pub fn d_snapshot_total<'a>(a: S<'a, KV>) -> S<'a, Vec<i64>> {
    let tick = a.location().tick();
    let total = a
        .clone()
        .count()
        .snapshot(&tick, nondet!(/** the harness chooses each tick's batch */));
    let b = a.batch(&tick, nondet!(/** the harness chooses each tick's batch */));
    total
        .zip(b.count())
        .all_ticks()
        .map(q!(|(t, l)| vec![t as i64, l as i64]))
}

// ---------------------------------------------------------------------------------------------
// tick-level sources (`optional_first_tick`, `tick.singleton`, `tick.none`) used DIRECTLY as operands:
// a first-tick value is present in tick 0 only and must not leak into later ticks through the operator
// that consumes it

pub fn f_cross_first<'a>(a: S<'a, KV>) -> S<'a, Vec<i64>> {
    let (tick, b) = vals(a);
    b.cross_singleton(tick.optional_first_tick(q!(7i64)))
        .all_ticks()
        .map(q!(|(x, f)| vec![x, f]))
}

pub fn f_cross_const<'a>(a: S<'a, KV>) -> S<'a, Vec<i64>> {
    let (tick, b) = vals(a);
    b.cross_singleton(tick.singleton(q!(5i64)))
        .all_ticks()
        .map(q!(|(x, c)| vec![x, c]))
}

pub fn f_cross_none<'a>(a: S<'a, KV>) -> S<'a, Vec<i64>> {
    let (tick, b) = vals(a);
    b.cross_singleton(tick.none::<i64>())
        .all_ticks()
        .map(q!(|(x, c)| vec![x, c]))
}

pub fn f_zip_count_first<'a>(a: S<'a, KV>) -> S<'a, Vec<i64>> {
    let (tick, b) = vals(a);
    b.count()
        .zip(tick.optional_first_tick(q!(7i64)))
        .all_ticks()
        .map(q!(|(n, f)| vec![n as i64, f]))
}

pub fn f_zip_count_const<'a>(a: S<'a, KV>) -> S<'a, Vec<i64>> {
    let (tick, b) = vals(a);
    b.count()
        .zip(tick.singleton(q!(5i64)))
        .all_ticks()
        .map(q!(|(n, c)| vec![n as i64, c]))
}

pub fn f_zip_max_first<'a>(a: S<'a, KV>) -> S<'a, Vec<i64>> {
    let (tick, b) = vals(a);
    b.max()
        .zip(tick.optional_first_tick(q!(7i64)))
        .all_ticks()
        .map(q!(|(m, f)| vec![m, f]))
}

/// singleton.zip(optional) with both operands tick-level sources, then zipped with the batch count.
pub fn f_zip_const_first<'a>(a: S<'a, KV>) -> S<'a, Vec<i64>> {
    let (tick, b) = vals(a);
    tick.singleton(q!(5i64))
        .zip(tick.optional_first_tick(q!(7i64)))
        .zip(b.count())
        .all_ticks()
        .map(q!(|((c, f), n)| vec![c, f, n as i64]))
}

pub fn f_first_zip_count<'a>(a: S<'a, KV>) -> S<'a, Vec<i64>> {
    let (tick, b) = vals(a);
    tick.optional_first_tick(q!(7i64))
        .zip(b.count())
        .all_ticks()
        .map(q!(|(f, n)| vec![f, n as i64]))
}

pub fn f_filter_if_first<'a>(a: S<'a, KV>) -> S<'a, Vec<i64>> {
    let (tick, b) = vals(a);
    b.filter_if(tick.optional_first_tick(q!(7i64)).is_some())
        .all_ticks()
        .map(q!(|x| vec![x]))
}

pub fn f_filter_if_some_first<'a>(a: S<'a, KV>) -> S<'a, Vec<i64>> {
    let (tick, b) = vals(a);
    b.filter_if_some(tick.optional_first_tick(q!(7i64)))
        .all_ticks()
        .map(q!(|x| vec![x]))
}

pub fn f_filter_if_none_first<'a>(a: S<'a, KV>) -> S<'a, Vec<i64>> {
    let (tick, b) = vals(a);
    b.filter_if_none(tick.optional_first_tick(q!(7i64)))
        .all_ticks()
        .map(q!(|x| vec![x]))
}

pub fn f_count_filter_if_some<'a>(a: S<'a, KV>) -> S<'a, Vec<i64>> {
    let (tick, b) = vals(a);
    b.count()
        .filter_if_some(tick.optional_first_tick(q!(7i64)))
        .all_ticks()
        .map(q!(|n| vec![n as i64]))
}

pub fn f_chain_first<'a>(a: S<'a, KV>) -> S<'a, Vec<i64>> {
    let (tick, b) = vals(a);
    tick.optional_first_tick(q!(7i64))
        .into_stream()
        .chain(b)
        .all_ticks()
        .map(q!(|x| vec![x]))
}

pub fn f_or_first<'a>(a: S<'a, KV>) -> S<'a, Vec<i64>> {
    let (tick, b) = vals(a);
    tick.optional_first_tick(q!(7i64))
        .or(b.max())
        .all_ticks()
        .map(q!(|x| vec![x]))
}

pub fn f_or_max_first<'a>(a: S<'a, KV>) -> S<'a, Vec<i64>> {
    let (tick, b) = vals(a);
    b.max()
        .or(tick.optional_first_tick(q!(7i64)))
        .all_ticks()
        .map(q!(|x| vec![x]))
}

pub fn f_unwrap_cross<'a>(a: S<'a, KV>) -> S<'a, Vec<i64>> {
    let (tick, b) = vals(a);
    b.cross_singleton(
        tick.optional_first_tick(q!(7i64))
            .unwrap_or(tick.singleton(q!(1i64))),
    )
    .all_ticks()
    .map(q!(|(x, f)| vec![x, f]))
}

pub fn f_join_first<'a>(a: S<'a, KV>) -> S<'a, Vec<i64>> {
    let (tick, b) = pairs(a);
    b.join(tick.optional_first_tick(q!((0i64, 7i64))).into_stream())
        .all_ticks()
        .map(q!(|(k, (v, f))| vec![k, v, f]))
}

pub fn f_anti_first<'a>(a: S<'a, KV>) -> S<'a, Vec<i64>> {
    let (tick, b) = pairs(a);
    b.anti_join(tick.optional_first_tick(q!(0i64)).into_stream())
        .all_ticks()
        .map(q!(|(k, v)| vec![k, v]))
}
