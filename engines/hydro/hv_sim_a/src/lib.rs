#[cfg(stageleft_runtime)]
hydro_lang::setup!();

use hydro_lang::prelude::*;

/// Example flow (replace).
pub fn double<'a>(input: Stream<i64, Process<'a, ()>>) -> Stream<i64, Process<'a, ()>> {
    input.map(q!(|x| x * 2))
}

#[cfg(test)]
mod tests {
    use hydro_lang::prelude::*;

    /// Example sim-driven check (replace). Run with:
    ///   cargo test -p <crate> --release -- example_sim --nocapture
    #[test]
    fn example_sim() {
        let mut flow = FlowBuilder::new();
        let process = flow.process::<()>();
        let (in_port, requests) = process.sim_input();
        let out_port = super::double(requests).sim_output();
        let n = flow.sim().exhaustive(async || {
            in_port.send(1);
            in_port.send(2);
            out_port.assert_yields_only([2, 4]).await;
        });
        println!("{{\"t\":\"note\",\"executions\":{n}}}");
    }
}
