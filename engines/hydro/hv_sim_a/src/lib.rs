//! Simulator-driven monitors for C36 (simulator decisions are sound), C37 (exhaustive simulation
//! covers every distinct schedule) and C38 (simulator runs replay deterministically).
//!
//! `flows` is the corpus of small Hydro programs; the monitors live in `#[cfg(test)] mod tests`
//! and are run by `bin/check` through the `cargotest` stage kind.
#[cfg(stageleft_runtime)]
hydro_lang::setup!();

pub mod flows;

// `stageleft_runtime`-gated so that the staged copy of this crate (compiled into every simulator
// dylib) does not contain the monitors; they hold no `q!` code.
#[cfg(stageleft_runtime)]
#[cfg(test)]
mod tests;
