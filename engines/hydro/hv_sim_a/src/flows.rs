//! Corpus of small Hydro flows for the simulator monitors (C36 / C37 / C38).
//!
//! Every flow makes exactly the simulator decisions named in its doc comment and then emits what
//! each tick received as one `Vec` (so the harness sees the per-tick batches the simulator
//! released). `nondet!(/** sim decision */)` marks the decision under test; `nondet!(/** observer */)`
//! belongs to the observation scaffold (it adds an inline ordering decision whose result is
//! visible verbatim in the emitted `Vec`; the harness compares such batches as multisets).
//!
//! NOTE: keep this file stable — the simulator caches one compiled dylib per flow keyed by the
//! generated source, which embeds the line numbers of the operators below.

use hydro_lang::live_collections::stream::{ExactlyOnce, NoOrder, TotalOrder};
use hydro_lang::location::Location;
use hydro_lang::prelude::*;
use hydro_lang::properties::manual_proof;

pub type P<'a> = Process<'a, ()>;
/// Ordered top-level stream.
pub type SO<'a, T> = Stream<T, P<'a>, Unbounded, TotalOrder, ExactlyOnce>;
/// Unordered top-level stream.
pub type SU<'a, T> = Stream<T, P<'a>, Unbounded, NoOrder, ExactlyOnce>;

/// `StreamHook<_, TotalOrder>`: one tick, one ordered batch.
pub fn batch_ordered<'a>(input: SO<'a, i32>) -> SO<'a, Vec<i32>> {
    let tick = input.location().tick();
    input
        .batch(&tick, nondet!(/** sim decision */))
        .collect_vec()
        .all_ticks()
}

/// `StreamHook<_, NoOrder>` (+ inline `StreamOrderHook` observer).
pub fn batch_unordered<'a>(input: SU<'a, i32>) -> SO<'a, Vec<i32>> {
    let tick = input.location().tick();
    input
        .batch(&tick, nondet!(/** sim decision */))
        .assume_ordering::<TotalOrder>(nondet!(/** observer */))
        .collect_vec()
        .all_ticks()
}

/// `KeyedStreamHook<_, _, TotalOrder>` (+ inline `PartiallyOrderedStreamHook` observer that keeps
/// the within-key order).
pub fn batch_keyed_ordered<'a>(input: SO<'a, (u32, i32)>) -> SO<'a, Vec<(u32, i32)>> {
    let tick = input.location().tick();
    input
        .into_keyed()
        .batch(&tick, nondet!(/** sim decision */))
        .entries_partially_ordered(nondet!(/** observer */))
        .collect_vec()
        .all_ticks()
}

/// `KeyedStreamHook<_, _, NoOrder>` (+ inline `StreamOrderHook` observer).
pub fn batch_keyed_unordered<'a>(input: SU<'a, (u32, i32)>) -> SO<'a, Vec<(u32, i32)>> {
    let tick = input.location().tick();
    input
        .into_keyed()
        .batch(&tick, nondet!(/** sim decision */))
        .entries()
        .assume_ordering::<TotalOrder>(nondet!(/** observer */))
        .collect_vec()
        .all_ticks()
}

/// `SingletonHook`: snapshots of a running count (versions only grow).
pub fn snapshot_count<'a>(input: SO<'a, i32>) -> SO<'a, usize> {
    let tick = input.location().tick();
    input
        .count()
        .snapshot(&tick, nondet!(/** sim decision */))
        .all_ticks()
}

/// `KeyedSingletonHook`: snapshots of per-key running sums of positive numbers (per-key versions
/// only grow; keys are never removed).
pub fn snapshot_keyed_sum<'a>(input: SO<'a, (u32, i32)>) -> SO<'a, Vec<(u32, i32)>> {
    let tick = input.location().tick();
    input
        .into_keyed()
        .fold(q!(|| 0i32), q!(|acc, v| *acc += v))
        .snapshot(&tick, nondet!(/** sim decision */))
        .entries()
        .assume_ordering::<TotalOrder>(nondet!(/** observer */))
        .collect_vec()
        .all_ticks()
}

/// Two independent ticks on one process, each with its own `StreamHook<_, TotalOrder>`.
pub fn two_ticks<'a>(a: SO<'a, i32>, b: SO<'a, i32>) -> (SO<'a, Vec<i32>>, SO<'a, Vec<i32>>) {
    let tick_a = a.location().tick();
    let tick_b = b.location().tick();
    let out_a = a
        .batch(&tick_a, nondet!(/** sim decision */))
        .collect_vec()
        .all_ticks();
    let out_b = b
        .batch(&tick_b, nondet!(/** sim decision */))
        .collect_vec()
        .all_ticks();
    (out_a, out_b)
}

/// One tick with two hooks: an ordered batch and a snapshot of the count of a second input
/// (`StreamHook<_, TotalOrder>` + `SingletonHook` resolved together by `run_hooks`).
pub fn batch_with_snapshot<'a>(a: SO<'a, i32>, b: SO<'a, i32>) -> SO<'a, (Vec<i32>, usize)> {
    let tick = a.location().tick();
    let batch = a.batch(&tick, nondet!(/** sim decision */)).collect_vec();
    let snap = b.count().snapshot(&tick, nondet!(/** sim decision */));
    batch.zip(snap).all_ticks()
}

/// `TopLevelFoldHook` + `PassthroughSingletonHook`: a top-level fold over an unordered input
/// whose accumulator records the order in which the simulator fed it.
pub fn fold_unordered<'a>(input: SU<'a, i32>) -> SO<'a, Vec<i32>> {
    let tick = input.location().tick();
    input
        .fold(
            q!(|| Vec::new()),
            q!(
                |acc, v| acc.push(v),
                commutative = manual_proof!(/** the harness compares accumulators as multisets where order is not under test */)
            ),
        )
        .snapshot(&tick, nondet!(/** sim decision */))
        .all_ticks()
}

/// `TopLevelStreamOrderHook`: a top-level ordering observation.
pub fn top_order<'a>(input: SU<'a, i32>) -> SO<'a, i32> {
    input.assume_ordering::<TotalOrder>(nondet!(/** sim decision */))
}

/// `TopLevelMergeOrderedHook`: a top-level order-preserving merge.
pub fn top_merge<'a>(a: SO<'a, i32>, b: SO<'a, i32>) -> SO<'a, i32> {
    a.merge_ordered(b, nondet!(/** sim decision */))
}

/// Multi-location: process -> cluster (broadcast) -> process; the replies are batched per sender
/// (`KeyedStreamHook` keyed by member id) at the process.
pub fn net_cluster<'a>(
    input: SO<'a, i32>,
    cluster: &Cluster<'a, ()>,
) -> SO<'a, Vec<(u32, i32)>> {
    let process = input.location().clone();
    let tick = process.tick();
    input
        .broadcast_closed(cluster, TCP.fail_stop().bincode())
        .map(q!(|x| x * 10))
        .send(&process, TCP.fail_stop().bincode())
        .batch(&tick, nondet!(/** sim decision */))
        .entries_partially_ordered(nondet!(/** observer */))
        .map(q!(|(m, v)| (m.get_raw_id(), v)))
        .collect_vec()
        .all_ticks()
}

/// One tick with an ordered batch and a snapshot of a *top-level commutative fold* over an
/// unordered input (`StreamHook<_, TotalOrder>` + `PassthroughSingletonHook` in one tick, fed by a
/// `TopLevelFoldHook`).
pub fn batch_with_fold_snapshot<'a>(a: SO<'a, i32>, b: SU<'a, i32>) -> SO<'a, (Vec<i32>, i32)> {
    let tick = a.location().tick();
    let batch = a.batch(&tick, nondet!(/** sim decision */)).collect_vec();
    let snap = b
        .fold(
            q!(|| 0i32),
            q!(
                |acc, v| *acc += v,
                commutative = manual_proof!(/** integer addition is commutative */)
            ),
        )
        .snapshot(&tick, nondet!(/** sim decision */));
    batch.zip(snap).all_ticks()
}

/// `KeyedStreamHook<_, _, NoOrder>` + inline `KeyedStreamOrderHook` (keyed `assume_ordering` inside
/// a tick); the per-key order the hook chose is visible in the per-key `Vec`s.
pub fn keyed_order_in_tick<'a>(input: SU<'a, (u32, i32)>) -> SO<'a, Vec<(u32, Vec<i32>)>> {
    let tick = input.location().tick();
    input
        .into_keyed()
        .batch(&tick, nondet!(/** sim decision */))
        .assume_ordering::<TotalOrder>(nondet!(/** sim decision */))
        .fold(q!(|| Vec::new()), q!(|acc, v| acc.push(v)))
        .entries()
        .assume_ordering::<TotalOrder>(nondet!(/** observer */))
        .collect_vec()
        .all_ticks()
}

/// `TopLevelKeyedStreamOrderHook` followed by `TopLevelPartiallyOrderedStreamHook`.
pub fn top_keyed_order<'a>(input: SU<'a, (u32, i32)>) -> SO<'a, (u32, i32)> {
    input
        .into_keyed()
        .assume_ordering::<TotalOrder>(nondet!(/** sim decision */))
        .entries_partially_ordered(nondet!(/** sim decision */))
}

/// Inline `MergeOrderedHook`: two ordered batches of one tick merged in order.
pub fn merge_in_tick<'a>(a: SO<'a, i32>, b: SO<'a, i32>) -> SO<'a, Vec<i32>> {
    let tick = a.location().tick();
    let ba = a.batch(&tick, nondet!(/** sim decision */));
    let bb = b.batch(&tick, nondet!(/** sim decision */));
    ba.merge_ordered(bb, nondet!(/** sim decision */))
        .collect_vec()
        .all_ticks()
}

/// `TopLevelKeyedMergeOrderedHook` (then a `TopLevelPartiallyOrderedStreamHook` observer).
pub fn top_keyed_merge<'a>(a: SO<'a, (u32, i32)>, b: SO<'a, (u32, i32)>) -> SO<'a, (u32, i32)> {
    a.into_keyed()
        .merge_ordered(b.into_keyed(), nondet!(/** sim decision */))
        .entries_partially_ordered(nondet!(/** observer */))
}

/// Inline `KeyedMergeOrderedHook`: two keyed ordered batches of one tick merged per key.
pub fn keyed_merge_in_tick<'a>(a: SO<'a, (u32, i32)>, b: SO<'a, (u32, i32)>) -> SO<'a, Vec<(u32, i32)>> {
    let tick = a.location().tick();
    let ba = a.into_keyed().batch(&tick, nondet!(/** sim decision */));
    let bb = b.into_keyed().batch(&tick, nondet!(/** sim decision */));
    ba.merge_ordered(bb, nondet!(/** sim decision */))
        .entries_partially_ordered(nondet!(/** observer */))
        .collect_vec()
        .all_ticks()
}
