//! Simulator monitors (run by `bin/check` through the `cargotest` stage kind):
//!   tests::c36_hooks, tests::c36_end_to_end, tests::c37_hooks, tests::c37_end_to_end,
//!   tests::c38_replay.
//! Each reads VERIF_PROP / VERIF_TIER / VERIF_SEED / VERIF_REPLAY and prints the usual JSON lines.

mod cases;
mod e2e;
mod hook_tests;
mod hooks;
mod replay;
mod util;

fn setup() {
    // the decision log is parsed as plain text
    unsafe { std::env::set_var("NO_COLOR", "1") };
    util::install_panic_hooks();
    util::install_abort_handler();
    // libtest prints "test <name> ... " without a newline; JSON lines must start a line
    println!();
}

#[test]
fn c36_hooks() {
    setup();
    hook_tests::c36_hooks();
}

#[test]
fn c37_hooks() {
    setup();
    hook_tests::c37_hooks();
}

#[test]
fn c36_end_to_end() {
    setup();
    e2e::c36_end_to_end();
}

#[test]
fn c37_end_to_end() {
    setup();
    e2e::c37_end_to_end();
}

#[test]
fn c38_replay() {
    setup();
    replay::c38_replay();
}
