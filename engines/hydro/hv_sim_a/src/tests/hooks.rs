//! Hook-level rig for C36 / C37: every `SimHook` / `SimInlineHook` implementor of
//! `hydro_lang::sim::runtime` is instantiated directly, fed uniquely numbered items, and driven by
//! bolero's exhaustive engine through the same scoped driver (`any::scope::borrow_with`) and the
//! same decide-then-release protocol as `run_hooks` in `sim/compiled.rs`.
//!
//! The rig records, per round: the queues before / after, what arrived on the hook's output
//! channel, the flags the hook reported, and the log text it wrote. `judge_*` (C36) checks each
//! round against the property; `reference_*` (C37) enumerates the decision space independently
//! from the property text so that the *set* of reached outcomes can be compared.

use std::cell::RefCell;
use std::collections::{BTreeMap, VecDeque};
use std::rc::Rc;

use bolero::generator::bolero_generator::any::scope::borrow_with;
use dfir_rs::rustc_hash::FxHashMap;
use dfir_rs::util::unsync::mpsc::{Receiver, unbounded};
use hydro_lang::live_collections::stream::{NoOrder, TotalOrder};
use hydro_lang::sim::runtime::{
    KeyedMergeOrderedHook, KeyedSingletonHook, KeyedStreamHook, KeyedStreamOrderHook,
    MergeOrderedHook, PartiallyOrderedStreamHook, PassthroughSingletonHook, SimHook, SimInlineHook,
    SingletonHook, StreamHook, StreamOrderHook, TopLevelFoldHook, TopLevelKeyedMergeOrderedHook,
    TopLevelKeyedStreamOrderHook, TopLevelMergeOrderedHook, TopLevelPartiallyOrderedStreamHook,
    TopLevelStreamOrderHook,
};

use super::util::{self, Note};

pub type Item = i64;
/// (key, item); flat hooks use key 0.
pub type KItem = (u32, Item);
/// (side, key) -> queue; side is 0 except for the second input of merge hooks.
pub type Pending = BTreeMap<(u8, u32), Vec<Item>>;
/// One arrival: (side, key, item).
pub type Arr = (u8, u32, Item);

#[derive(Clone, Copy, Debug, PartialEq, Eq, Hash, PartialOrd, Ord)]
pub enum Kind {
    StreamTotal,
    StreamNo,
    KeyedTotal,
    KeyedNo,
    Singleton,
    Passthrough,
    KeyedSingleton,
    TopOrder,
    TopFold,
    TopKeyedOrder,
    TopPartial,
    TopMerge,
    TopKeyedMerge,
}

pub const ALL_KINDS: [Kind; 13] = [
    Kind::StreamTotal,
    Kind::StreamNo,
    Kind::KeyedTotal,
    Kind::KeyedNo,
    Kind::Singleton,
    Kind::Passthrough,
    Kind::KeyedSingleton,
    Kind::TopOrder,
    Kind::TopFold,
    Kind::TopKeyedOrder,
    Kind::TopPartial,
    Kind::TopMerge,
    Kind::TopKeyedMerge,
];

impl Kind {
    pub fn name(self) -> &'static str {
        match self {
            Kind::StreamTotal => "StreamHook<TotalOrder>",
            Kind::StreamNo => "StreamHook<NoOrder>",
            Kind::KeyedTotal => "KeyedStreamHook<TotalOrder>",
            Kind::KeyedNo => "KeyedStreamHook<NoOrder>",
            Kind::Singleton => "SingletonHook",
            Kind::Passthrough => "PassthroughSingletonHook",
            Kind::KeyedSingleton => "KeyedSingletonHook",
            Kind::TopOrder => "TopLevelStreamOrderHook",
            Kind::TopFold => "TopLevelFoldHook",
            Kind::TopKeyedOrder => "TopLevelKeyedStreamOrderHook",
            Kind::TopPartial => "TopLevelPartiallyOrderedStreamHook",
            Kind::TopMerge => "TopLevelMergeOrderedHook",
            Kind::TopKeyedMerge => "TopLevelKeyedMergeOrderedHook",
        }
    }
    pub fn from_name(s: &str) -> Option<Kind> {
        ALL_KINDS.iter().copied().find(|k| k.name() == s)
    }
    pub fn keyed(self) -> bool {
        matches!(
            self,
            Kind::KeyedTotal
                | Kind::KeyedNo
                | Kind::KeyedSingleton
                | Kind::TopKeyedOrder
                | Kind::TopPartial
                | Kind::TopKeyedMerge
        )
    }
    pub fn two_sided(self) -> bool {
        matches!(self, Kind::TopMerge | Kind::TopKeyedMerge)
    }
    pub fn snapshot(self) -> bool {
        matches!(self, Kind::Singleton | Kind::Passthrough | Kind::KeyedSingleton)
    }
    /// Hooks whose released batch carries no order (the tick sees a `NoOrder` batch), so two
    /// releases that differ only in the order of the batch are the same outcome.
    pub fn unordered_batch(self) -> bool {
        matches!(self, Kind::StreamNo | Kind::KeyedNo)
    }
}

fn dbg_item(v: &Item) -> Option<String> {
    Some(format!("{v:?}"))
}
fn dbg_key(v: &u32) -> Option<String> {
    Some(format!("{v:?}"))
}
fn dbg_pair(v: &KItem) -> Option<String> {
    Some(format!("{v:?}"))
}
const LOC: (&str, &str, &str) = ("hook-rig", "", "");

type Flat = Rc<RefCell<VecDeque<Item>>>;
type Keyed = Rc<RefCell<FxHashMap<u32, VecDeque<Item>>>>;

enum Inp {
    Flat(Flat),
    Keyed(Keyed),
    Flat2(Flat, Flat),
    Keyed2(Keyed, Keyed),
}

impl Inp {
    fn push(&self, (side, key, item): Arr) {
        match self {
            Inp::Flat(q) => q.borrow_mut().push_back(item),
            Inp::Keyed(m) => m.borrow_mut().entry(key).or_default().push_back(item),
            Inp::Flat2(a, b) => (if side == 0 { a } else { b }).borrow_mut().push_back(item),
            Inp::Keyed2(a, b) => (if side == 0 { a } else { b })
                .borrow_mut()
                .entry(key)
                .or_default()
                .push_back(item),
        }
    }
    /// Non-empty queues only.
    fn snap(&self) -> Pending {
        let mut out = Pending::new();
        let flat = |side: u8, q: &Flat, out: &mut Pending| {
            let v: Vec<Item> = q.borrow().iter().copied().collect();
            if !v.is_empty() {
                out.insert((side, 0), v);
            }
        };
        let keyed = |side: u8, m: &Keyed, out: &mut Pending| {
            for (k, q) in m.borrow().iter() {
                if !q.is_empty() {
                    out.insert((side, *k), q.iter().copied().collect());
                }
            }
        };
        match self {
            Inp::Flat(q) => flat(0, q, &mut out),
            Inp::Keyed(m) => keyed(0, m, &mut out),
            Inp::Flat2(a, b) => {
                flat(0, a, &mut out);
                flat(1, b, &mut out);
            }
            Inp::Keyed2(a, b) => {
                keyed(0, a, &mut out);
                keyed(1, b, &mut out);
            }
        }
        out
    }
}

enum Out {
    Flat(Receiver<Item>),
    Keyed(Receiver<KItem>),
    Batch(Receiver<Vec<Item>>),
}

fn drain_rx<T>(rx: &mut Receiver<T>) -> Vec<T> {
    let waker = std::task::Waker::noop();
    let cx = std::task::Context::from_waker(waker);
    let mut out = vec![];
    while let std::task::Poll::Ready(Some(v)) = rx.poll_recv(&cx) {
        out.push(v);
    }
    out
}

impl Out {
    /// (items in channel order, number of channel messages)
    fn drain(&mut self) -> (Vec<KItem>, usize) {
        match self {
            Out::Flat(rx) => {
                let v = drain_rx(rx);
                let n = v.len();
                (v.into_iter().map(|x| (0, x)).collect(), n)
            }
            Out::Keyed(rx) => {
                let v = drain_rx(rx);
                let n = v.len();
                (v, n)
            }
            Out::Batch(rx) => {
                let v = drain_rx(rx);
                let n = v.len();
                (v.into_iter().flatten().map(|x| (0, x)).collect(), n)
            }
        }
    }
}

struct Rig {
    hook: Box<dyn SimHook>,
    inp: Inp,
    out: Out,
}

fn build(kind: Kind) -> Rig {
    let flat = || -> Flat { Rc::new(RefCell::new(VecDeque::new())) };
    let keyed = || -> Keyed { Rc::new(RefCell::new(FxHashMap::default())) };
    match kind {
        Kind::StreamTotal => {
            let q = flat();
            let (tx, rx) = unbounded();
            Rig {
                hook: Box::new(StreamHook::<Item, TotalOrder> {
                    input: q.clone(),
                    to_release: None,
                    output: tx,
                    batch_location: LOC,
                    format_item_debug: dbg_item,
                    _order: std::marker::PhantomData,
                }),
                inp: Inp::Flat(q),
                out: Out::Flat(rx),
            }
        }
        Kind::StreamNo => {
            let q = flat();
            let (tx, rx) = unbounded();
            Rig {
                hook: Box::new(StreamHook::<Item, NoOrder> {
                    input: q.clone(),
                    to_release: None,
                    output: tx,
                    batch_location: LOC,
                    format_item_debug: dbg_item,
                    _order: std::marker::PhantomData,
                }),
                inp: Inp::Flat(q),
                out: Out::Flat(rx),
            }
        }
        Kind::KeyedTotal => {
            let m = keyed();
            let (tx, rx) = unbounded();
            Rig {
                hook: Box::new(KeyedStreamHook::<u32, Item, TotalOrder> {
                    input: m.clone(),
                    to_release: None,
                    output: tx,
                    batch_location: LOC,
                    format_item_debug: dbg_pair,
                    _order: std::marker::PhantomData,
                }),
                inp: Inp::Keyed(m),
                out: Out::Keyed(rx),
            }
        }
        Kind::KeyedNo => {
            let m = keyed();
            let (tx, rx) = unbounded();
            Rig {
                hook: Box::new(KeyedStreamHook::<u32, Item, NoOrder> {
                    input: m.clone(),
                    to_release: None,
                    output: tx,
                    batch_location: LOC,
                    format_item_debug: dbg_pair,
                    _order: std::marker::PhantomData,
                }),
                inp: Inp::Keyed(m),
                out: Out::Keyed(rx),
            }
        }
        Kind::Singleton => {
            let q = flat();
            let (tx, rx) = unbounded();
            Rig {
                hook: Box::new(SingletonHook::new(q.clone(), tx, LOC, dbg_item)),
                inp: Inp::Flat(q),
                out: Out::Flat(rx),
            }
        }
        Kind::Passthrough => {
            let q = flat();
            let (tx, rx) = unbounded();
            Rig {
                hook: Box::new(PassthroughSingletonHook::new(q.clone(), tx, LOC, dbg_item)),
                inp: Inp::Flat(q),
                out: Out::Flat(rx),
            }
        }
        Kind::KeyedSingleton => {
            let m = keyed();
            let (tx, rx) = unbounded();
            Rig {
                hook: Box::new(KeyedSingletonHook::new(m.clone(), tx, LOC, dbg_key, dbg_item)),
                inp: Inp::Keyed(m),
                out: Out::Keyed(rx),
            }
        }
        Kind::TopOrder => {
            let q = flat();
            let (tx, rx) = unbounded();
            Rig {
                hook: Box::new(TopLevelStreamOrderHook::<Item> {
                    input: q.clone(),
                    to_release: None,
                    output: tx,
                    location: LOC,
                    format_item_debug: dbg_item,
                }),
                inp: Inp::Flat(q),
                out: Out::Flat(rx),
            }
        }
        Kind::TopFold => {
            let q = flat();
            let (tx, rx) = unbounded();
            Rig {
                hook: Box::new(TopLevelFoldHook::<Item> {
                    input: q.clone(),
                    to_release: None,
                    output: tx,
                    location: LOC,
                    format_item_debug: dbg_item,
                }),
                inp: Inp::Flat(q),
                out: Out::Batch(rx),
            }
        }
        Kind::TopKeyedOrder => {
            let m = keyed();
            let (tx, rx) = unbounded();
            Rig {
                hook: Box::new(TopLevelKeyedStreamOrderHook::<u32, Item> {
                    input: m.clone(),
                    to_release: None,
                    output: tx,
                    location: LOC,
                    format_item_debug: dbg_pair,
                }),
                inp: Inp::Keyed(m),
                out: Out::Keyed(rx),
            }
        }
        Kind::TopPartial => {
            let m = keyed();
            let (tx, rx) = unbounded();
            Rig {
                hook: Box::new(TopLevelPartiallyOrderedStreamHook::<u32, Item> {
                    input: m.clone(),
                    to_release: None,
                    output: tx,
                    location: LOC,
                    format_item_debug: dbg_pair,
                }),
                inp: Inp::Keyed(m),
                out: Out::Keyed(rx),
            }
        }
        Kind::TopMerge => {
            let (a, b) = (flat(), flat());
            let (tx, rx) = unbounded();
            Rig {
                hook: Box::new(TopLevelMergeOrderedHook::<Item> {
                    first: a.clone(),
                    second: b.clone(),
                    to_release: None,
                    release_source: None,
                    output: tx,
                    location: LOC,
                    format_item_debug: dbg_item,
                }),
                inp: Inp::Flat2(a, b),
                out: Out::Flat(rx),
            }
        }
        Kind::TopKeyedMerge => {
            let (a, b) = (keyed(), keyed());
            let (tx, rx) = unbounded();
            Rig {
                hook: Box::new(TopLevelKeyedMergeOrderedHook::<u32, Item> {
                    first: a.clone(),
                    second: b.clone(),
                    to_release: None,
                    release_source: None,
                    output: tx,
                    location: LOC,
                    format_item_debug: dbg_pair,
                }),
                inp: Inp::Keyed2(a, b),
                out: Out::Keyed(rx),
            }
        }
    }
}

// ---------------------------------------------------------------------------------------------
// scripts and observations

/// How a hook is driven in one bolero execution.
#[derive(Clone, Debug, PartialEq, Eq, Hash)]
pub enum Script {
    /// A fixed list of rounds; before each round the given items arrive, then the hook decides
    /// with the given `force_nontrivial` (downgraded to `false` when the hook reports that it
    /// cannot make a non-trivial decision, as `run_hooks` does) and releases.
    Rounds(Vec<(Vec<Arr>, bool)>),
    /// All items arrive, then forced rounds while the hook can make a non-trivial decision
    /// (what a tick with this single hook goes through), then one unforced round on the
    /// drained hook (the "trivial decision" path of `run_hooks`).
    Drain(Vec<Arr>),
}

#[derive(Clone, Debug, PartialEq, Eq, Hash)]
pub struct Spec {
    pub kind: Kind,
    pub script: Script,
}

impl Spec {
    pub fn to_json(&self) -> serde_json::Value {
        let arr = |a: &Vec<Arr>| a.iter().map(|x| serde_json::json!([x.0, x.1, x.2])).collect::<Vec<_>>();
        match &self.script {
            Script::Rounds(r) => serde_json::json!({
                "hook": self.kind.name(), "script": "rounds",
                "rounds": r.iter().map(|(a, f)| serde_json::json!({"arrive": arr(a), "force": f})).collect::<Vec<_>>()
            }),
            Script::Drain(a) => serde_json::json!({"hook": self.kind.name(), "script": "drain", "arrive": arr(a)}),
        }
    }
    pub fn from_json(v: &serde_json::Value) -> Option<Spec> {
        let kind = Kind::from_name(v.get("hook")?.as_str()?)?;
        let arr = |a: &serde_json::Value| -> Option<Vec<Arr>> {
            a.as_array()?
                .iter()
                .map(|x| {
                    let x = x.as_array()?;
                    Some((x[0].as_u64()? as u8, x[1].as_u64()? as u32, x[2].as_i64()?))
                })
                .collect()
        };
        let script = match v.get("script")?.as_str()? {
            "drain" => Script::Drain(arr(v.get("arrive")?)?),
            _ => Script::Rounds(
                v.get("rounds")?
                    .as_array()?
                    .iter()
                    .map(|r| Some((arr(r.get("arrive")?)?, r.get("force")?.as_bool()?)))
                    .collect::<Option<Vec<_>>>()?,
            ),
        };
        Some(Spec { kind, script })
    }
    pub fn total_items(&self) -> usize {
        match &self.script {
            Script::Rounds(r) => r.iter().map(|x| x.0.len()).sum(),
            Script::Drain(a) => a.len(),
        }
    }
}

/// What the rig observed in one decide+release round.
#[derive(Clone, Debug, PartialEq, Eq)]
pub struct RoundObs {
    /// `force_nontrivial` as passed to the hook.
    pub force: bool,
    pub before: Pending,
    pub after: Pending,
    /// Items that arrived on the output channel, in channel order.
    pub released: Vec<KItem>,
    pub messages: usize,
    /// Return value of `autonomous_decision` ("a non-trivial decision was made").
    pub ret: bool,
    /// `current_decision()` between deciding and releasing.
    pub decision: Option<bool>,
    pub log: String,
    pub panic: Option<String>,
}

pub type Exec = Vec<RoundObs>;

fn one_round(rig: &mut Rig, force: bool) -> RoundObs {
    let before = rig.inp.snap();
    let can = rig.hook.can_make_nontrivial_decision();
    let eff_force = force && can;
    let mut log = String::new();
    let mut ret = false;
    let mut decision = None;
    let hook = &mut rig.hook;
    let r = util::catch(|| {
        // exactly the two passes of `run_hooks` for this hook
        borrow_with(|driver| {
            let mut decided_trivially = false;
            if hook.current_decision().is_none() && !can {
                hook.autonomous_decision(driver, false);
                decided_trivially = true;
            }
            if hook.current_decision().is_none() {
                ret = hook.autonomous_decision(driver, eff_force);
            } else if !decided_trivially {
                ret = hook.current_decision().unwrap();
            }
            decision = hook.current_decision();
            hook.release_decision(Some(&mut log as &mut dyn std::fmt::Write));
        })
    });
    let (released, messages) = rig.out.drain();
    RoundObs {
        force: eff_force,
        before,
        after: rig.inp.snap(),
        released,
        messages,
        ret,
        decision,
        log,
        panic: r.err(),
    }
}

/// One execution of a script under the driver that is currently in bolero's scope.
fn run_script(spec: &Spec) -> Exec {
    let mut rig = build(spec.kind);
    let mut exec = vec![];
    match &spec.script {
        Script::Rounds(rounds) => {
            for (arrive, force) in rounds {
                for a in arrive {
                    rig.inp.push(*a);
                }
                if !rig.hook.is_ready() {
                    continue; // the scheduler never runs a tick whose hook is not ready
                }
                let obs = one_round(&mut rig, *force);
                let stop = obs.panic.is_some();
                exec.push(obs);
                if stop {
                    break;
                }
            }
        }
        Script::Drain(arrive) => {
            for a in arrive {
                rig.inp.push(*a);
            }
            let cap = arrive.len() + 2;
            let mut n = 0;
            let mut panicked = false;
            while rig.hook.can_make_nontrivial_decision() && n < cap {
                let obs = one_round(&mut rig, true);
                panicked = obs.panic.is_some();
                exec.push(obs);
                n += 1;
                if panicked {
                    break;
                }
            }
            if !panicked && rig.hook.is_ready() {
                exec.push(one_round(&mut rig, false));
            }
        }
    }
    exec
}

/// Run `f` once per execution of bolero's exhaustive engine, with the engine's driver in scope
/// (the same target construction as `CompiledSim::exhaustive`).
pub fn exhaustive_run(f: impl FnMut() + std::panic::RefUnwindSafe) {
    bolero::test(bolero::TargetLocation {
        package_name: "",
        manifest_dir: "",
        module_path: "",
        file: "",
        line: 0,
        item_path: "<unknown>::__bolero_item_path__",
        test_name: None,
    })
    .exhaustive()
    .run(f)
}

/// Enumerate every execution of `spec` with bolero's exhaustive engine. `Err` = the engine
/// itself failed (it reports a panicking execution by panicking).
pub fn enumerate(spec: &Spec) -> (Vec<Exec>, Option<String>) {
    let mut execs: Vec<Exec> = vec![];
    let execs_mut = &mut execs;
    let r = util::catch(|| {
        exhaustive_run(move || {
            execs_mut.push(run_script(spec));
        })
    });
    (execs, r.err())
}

// ---------------------------------------------------------------------------------------------
// C36: per-round judgement (each check is a direct reading of the property statement)

fn multiset(p: &Pending) -> Vec<(u8, u32, Item)> {
    let mut v: Vec<_> = p.iter().flat_map(|((s, k), q)| q.iter().map(move |i| (*s, *k, *i))).collect();
    v.sort();
    v
}

/// Side of an item: the rig numbers second-input items from 100.
pub fn side_of(item: Item) -> u8 {
    if item >= 100 { 1 } else { 0 }
}

/// History needed across rounds: last released version per key (snapshot hooks).
#[derive(Default)]
pub struct Hist {
    pub last: BTreeMap<u32, Item>,
}

/// Returns (failure kind, explanation) pairs; empty = the round is sound.
pub fn judge_round(kind: Kind, r: &RoundObs, hist: &mut Hist) -> Vec<(String, String)> {
    let mut bad: Vec<(String, String)> = vec![];
    let mut fail = |k: &str, w: String| bad.push((k.to_owned(), w));
    if let Some(p) = &r.panic {
        let class = if p.contains("No decision to release") && r.before.is_empty() {
            // the hook was asked for the trivial decision `run_hooks` makes for hooks without
            // pending input, and was left without any decision to release
            "no-decision-without-input"
        } else if p.contains("No decision to release") {
            "panic:No decision to release"
        } else if p.contains("out of bounds") || p.contains("out of range") || p.contains("range end") || p.contains("index") {
            "panic:index out of range"
        } else if p.contains("unwrap") || p.contains("None") {
            "panic:unwrap on None"
        } else {
            "panic:other"
        };
        fail(class, format!("hook panicked: {p}"));
        return bad;
    }

    // per-(side,key) released sub-sequences in channel order
    let mut rel_by: BTreeMap<(u8, u32), Vec<Item>> = BTreeMap::new();
    for (k, it) in &r.released {
        rel_by.entry((side_of(*it), *k)).or_default().push(*it);
    }
    let empty: Vec<Item> = vec![];

    if !kind.snapshot() {
        // nothing lost, nothing duplicated: pending == released (+) remaining
        let mut lhs = multiset(&r.before);
        let mut rhs = multiset(&r.after);
        rhs.extend(r.released.iter().map(|(k, it)| (side_of(*it), *k, *it)));
        lhs.sort();
        rhs.sort();
        if lhs != rhs {
            fail("conservation", format!("pending {:?} != released {:?} + remaining {:?}", r.before, r.released, r.after));
        }
    }

    match kind {
        Kind::StreamTotal | Kind::KeyedTotal | Kind::TopPartial | Kind::TopMerge | Kind::TopKeyedMerge => {
            // ordered inputs: released == in-order prefix of pending, per key / side
            for (sk, rel) in &rel_by {
                let q = r.before.get(sk).unwrap_or(&empty);
                if rel.len() > q.len() || q[..rel.len()] != rel[..] {
                    fail("not-a-prefix", format!("key {sk:?}: released {rel:?} is not a prefix of pending {q:?}"));
                } else if r.after.get(sk).unwrap_or(&empty)[..] != q[rel.len()..] {
                    fail("remaining-not-suffix", format!("key {sk:?}: remaining {:?} != suffix of {q:?} after {rel:?}", r.after.get(sk)));
                }
            }
        }
        Kind::StreamNo | Kind::KeyedNo | Kind::TopOrder | Kind::TopKeyedOrder | Kind::TopFold => {
            for (sk, rel) in &rel_by {
                let q = r.before.get(sk).unwrap_or(&empty);
                let mut pool = q.clone();
                for it in rel {
                    match pool.iter().position(|x| x == it) {
                        Some(i) => {
                            pool.remove(i);
                        }
                        None => fail("not-a-subset", format!("key {sk:?}: released {it} not pending in {q:?} (or released twice)")),
                    }
                }
            }
        }
        Kind::Singleton | Kind::Passthrough | Kind::KeyedSingleton => {}
    }
    if matches!(kind, Kind::TopOrder | Kind::TopKeyedOrder | Kind::TopPartial | Kind::TopMerge | Kind::TopKeyedMerge)
        && r.released.len() > 1
    {
        fail("more-than-one", format!("one-at-a-time hook released {:?}", r.released));
    }

    // what counts as "new" this round
    let mut any_new = false;
    if kind.snapshot() {
        let note = util::parse_log(&r.log);
        // per-entry `is_new` flags of the keyed snapshot hook are only visible in its log line;
        // the unkeyed hook's flag is its return value / `current_decision()` (checked below)
        let unchanged_by_log: BTreeMap<u32, bool> = match note.events.first() {
            Some(util::Event::Obs(Note::KeyedSnap { entries })) => entries.iter().map(|e| (e.0 as u32, e.2)).collect(),
            _ => BTreeMap::new(),
        };
        let mut seen_keys = std::collections::BTreeSet::new();
        for (k, v) in &r.released {
            if !seen_keys.insert(*k) {
                fail("snapshot-dup-key", format!("key {k} released twice in one snapshot: {:?}", r.released));
            }
            let q = r.before.get(&(0, *k)).unwrap_or(&empty);
            let last = hist.last.get(k).copied();
            let is_new = match last {
                Some(l) if *v == l => false,
                _ => true,
            };
            if is_new {
                any_new = true;
                // a new snapshot must be a pending version, and must not be older than the last one
                match q.iter().position(|x| x == v) {
                    None => fail("snapshot-not-pending", format!("key {k}: released {v}, pending {q:?}, last {last:?}")),
                    Some(i) => {
                        if r.after.get(&(0, *k)).unwrap_or(&empty)[..] != q[i + 1..] {
                            fail(
                                "snapshot-remaining",
                                format!("key {k}: released version {v} of {q:?} but remaining is {:?}", r.after.get(&(0, *k))),
                            );
                        }
                    }
                }
                if let Some(l) = last
                    && *v < l
                {
                    fail("snapshot-went-back", format!("key {k}: released version {v} after version {l}"));
                }
            } else if r.after.get(&(0, *k)) != r.before.get(&(0, *k)) {
                fail("snapshot-lost-pending", format!("key {k}: re-released {v} but pending changed {:?} -> {:?}", r.before.get(&(0, *k)), r.after.get(&(0, *k))));
            }
            if let Some(u) = unchanged_by_log.get(k)
                && *u == is_new
            {
                fail("is_new-untruthful", format!("key {k}: log says unchanged={u} but released {v} after {last:?}"));
            }
            hist.last.insert(*k, *v);
        }
        // keys that were not emitted must keep their pending queue, and a key that was
        // released before must keep being part of the snapshot
        for (sk, q) in &r.before {
            if !seen_keys.contains(&sk.1) && r.after.get(sk) != Some(q) {
                fail("snapshot-lost-pending", format!("key {:?} not emitted but pending changed {q:?} -> {:?}", sk.1, r.after.get(sk)));
            }
        }
        for k in hist.last.keys() {
            if !seen_keys.contains(k) {
                fail("snapshot-key-vanished", format!("key {k} was released before but is missing from {:?}", r.released));
            }
        }
    } else {
        any_new = !r.released.is_empty();
    }

    if r.force && !any_new {
        fail("forced-but-trivial", format!("force_nontrivial=true but released {:?} (pending {:?})", r.released, r.before));
    }
    if r.ret != any_new {
        fail("flag-untruthful", format!("autonomous_decision returned {} but released {:?} (last {:?})", r.ret, r.released, hist.last));
    }
    if let Some(d) = r.decision
        && d != any_new
    {
        fail("flag-untruthful", format!("current_decision() = {d} but released {:?}", r.released));
    }

    // the log line must describe what was actually released (the end-to-end monitors trust it)
    let parsed = util::parse_log(&r.log);
    // batches of more than 8 items are logged as "[a, .., h, ..] (N total)"
    let mut log_truncated = false;
    let logged: Vec<i64> = match parsed.events.first() {
        None => vec![],
        Some(util::Event::Obs(Note::NoItems)) => vec![],
        Some(util::Event::Obs(Note::Items { nums, truncated, .. })) => {
            log_truncated = *truncated;
            nums.clone()
        }
        Some(util::Event::Obs(Note::KeyedSnap { entries })) => entries.iter().flat_map(|e| [e.0, e.1]).collect(),
        Some(util::Event::Obs(Note::Snapshot { value, .. })) => value.clone(),
        Some(util::Event::Obs(Note::Observed { nums, .. })) => nums.clone(),
        Some(util::Event::Obs(Note::FoldBatch { nums })) => nums.clone(),
        Some(other) => {
            fail("log-unparsed", format!("{other:?}"));
            vec![]
        }
    };
    let actual: Vec<i64> = if kind.keyed() {
        r.released.iter().flat_map(|(k, v)| [*k as i64, *v]).collect()
    } else {
        r.released.iter().map(|(_, v)| *v).collect()
    };
    let log_ok = if log_truncated { actual.len() > logged.len() && actual[..logged.len()] == logged[..] } else { logged == actual };
    if !log_ok {
        fail("log-mismatch", format!("log says {logged:?} ({:?}) but channel got {actual:?}", r.log.trim()));
    }
    bad
}

// ---------------------------------------------------------------------------------------------
// C37: independent enumeration of the decision space (from the property text / hook docs)

#[derive(Clone, Debug, PartialEq, Eq, PartialOrd, Ord, Hash)]
pub struct RefState {
    pub pending: Pending,
    pub last: BTreeMap<u32, Item>,
}

/// Canonical form of one round's outcome: (released batch, remaining queues).
pub type Outcome = Vec<(Vec<KItem>, Vec<((u8, u32), Vec<Item>)>)>;

pub fn canon_release(kind: Kind, released: &[KItem]) -> Vec<KItem> {
    let mut v = released.to_vec();
    match kind {
        Kind::StreamNo | Kind::KeyedNo => v.sort(),
        // across keys there is no order (FxHashMap iteration); within a key order is kept
        Kind::KeyedTotal | Kind::KeyedSingleton => v.sort_by_key(|x| x.0),
        _ => {}
    }
    v
}

fn pend_vec(p: &Pending) -> Vec<((u8, u32), Vec<Item>)> {
    p.iter().filter(|(_, q)| !q.is_empty()).map(|(k, q)| (*k, q.clone())).collect()
}

pub fn outcome_of(kind: Kind, exec: &Exec) -> Outcome {
    exec.iter().map(|r| (canon_release(kind, &r.released), pend_vec(&r.after))).collect()
}

fn product<T: Clone>(choices: &[Vec<T>]) -> Vec<Vec<T>> {
    let mut out: Vec<Vec<T>> = vec![vec![]];
    for c in choices {
        let mut next = vec![];
        for prefix in &out {
            for x in c {
                let mut p = prefix.clone();
                p.push(x.clone());
                next.push(p);
            }
        }
        out = next;
    }
    out
}

/// All (released, is_nontrivial, next state) choices the property allows for one round.
pub fn reference_round(kind: Kind, st: &RefState, force: bool) -> Vec<(Vec<KItem>, bool, RefState)> {
    let keys: Vec<(u8, u32)> = st.pending.iter().filter(|(_, q)| !q.is_empty()).map(|(k, _)| *k).collect();
    let with = |pending: Pending, last: BTreeMap<u32, Item>| RefState { pending, last };
    let mut out = vec![];
    match kind {
        Kind::StreamTotal | Kind::KeyedTotal | Kind::StreamNo | Kind::KeyedNo => {
            let ordered = matches!(kind, Kind::StreamTotal | Kind::KeyedTotal);
            // per key: every prefix (ordered) / every subset (unordered)
            let per_key: Vec<Vec<(Vec<Item>, Vec<Item>)>> = keys
                .iter()
                .map(|k| {
                    let q = &st.pending[k];
                    if ordered {
                        (0..=q.len()).map(|c| (q[..c].to_vec(), q[c..].to_vec())).collect()
                    } else {
                        util::subsets(q, true)
                    }
                })
                .collect();
            for combo in product(&per_key) {
                let mut rel = vec![];
                let mut pending = Pending::new();
                for (k, (sel, rest)) in keys.iter().zip(combo) {
                    rel.extend(sel.into_iter().map(|i| (k.1, i)));
                    if !rest.is_empty() {
                        pending.insert(*k, rest);
                    }
                }
                if force && rel.is_empty() {
                    continue;
                }
                let nt = !rel.is_empty();
                out.push((canon_release(kind, &rel), nt, with(pending, st.last.clone())));
            }
        }
        Kind::Singleton => {
            let q = st.pending.get(&(0, 0)).cloned().unwrap_or_default();
            let last = st.last.get(&0).copied();
            if q.is_empty() {
                if let Some(l) = last {
                    out.push((vec![(0, l)], false, st.clone()));
                }
            } else {
                if !force && let Some(l) = last {
                    out.push((vec![(0, l)], false, st.clone()));
                }
                for i in 0..q.len() {
                    let mut pending = Pending::new();
                    if i + 1 < q.len() {
                        pending.insert((0, 0), q[i + 1..].to_vec());
                    }
                    out.push((vec![(0, q[i])], true, with(pending, [(0, q[i])].into_iter().collect())));
                }
            }
        }
        Kind::Passthrough => {
            let q = st.pending.get(&(0, 0)).cloned().unwrap_or_default();
            match q.last() {
                Some(l) => out.push((vec![(0, *l)], true, with(Pending::new(), st.last.clone()))),
                None => out.push((vec![], false, st.clone())),
            }
        }
        Kind::KeyedSingleton => {
            // keys of the snapshot: every key that has pending versions or was released before
            let mut all_keys: Vec<u32> = keys.iter().map(|k| k.1).chain(st.last.keys().copied()).collect();
            all_keys.sort();
            all_keys.dedup();
            #[derive(Clone)]
            enum C {
                Null,
                Same(Item),
                New(Item, Vec<Item>),
            }
            let per_key: Vec<Vec<C>> = all_keys
                .iter()
                .map(|k| {
                    let q = st.pending.get(&(0, *k)).cloned().unwrap_or_default();
                    let last = st.last.get(k).copied();
                    let mut c = vec![];
                    if q.is_empty() {
                        c.push(C::Same(last.unwrap()));
                    } else {
                        match last {
                            Some(l) => c.push(C::Same(l)),
                            None => c.push(C::Null),
                        }
                        for i in 0..q.len() {
                            c.push(C::New(q[i], q[i + 1..].to_vec()));
                        }
                    }
                    c
                })
                .collect();
            for combo in product(&per_key) {
                let mut rel = vec![];
                let mut pending = st.pending.clone();
                let mut last = st.last.clone();
                let mut nt = false;
                for (k, c) in all_keys.iter().zip(combo) {
                    match c {
                        C::Null => {}
                        C::Same(l) => rel.push((*k, l)),
                        C::New(v, rest) => {
                            nt = true;
                            rel.push((*k, v));
                            last.insert(*k, v);
                            if rest.is_empty() {
                                pending.remove(&(0, *k));
                            } else {
                                pending.insert((0, *k), rest);
                            }
                        }
                    }
                }
                if force && !nt {
                    continue;
                }
                out.push((canon_release(kind, &rel), nt, with(pending, last)));
            }
        }
        Kind::TopOrder | Kind::TopKeyedOrder | Kind::TopPartial | Kind::TopMerge | Kind::TopKeyedMerge => {
            if keys.is_empty() || !force {
                out.push((vec![], false, st.clone()));
            }
            let front_only = matches!(kind, Kind::TopPartial | Kind::TopMerge | Kind::TopKeyedMerge);
            for k in &keys {
                let q = &st.pending[k];
                let idxs: Vec<usize> = if front_only { vec![0] } else { (0..q.len()).collect() };
                for i in idxs {
                    let mut rest = q.clone();
                    let it = rest.remove(i);
                    let mut pending = st.pending.clone();
                    if rest.is_empty() {
                        pending.remove(k);
                    } else {
                        pending.insert(*k, rest);
                    }
                    out.push((vec![(k.1, it)], true, with(pending, st.last.clone())));
                }
            }
        }
        Kind::TopFold => {
            let q = st.pending.get(&(0, 0)).cloned().unwrap_or_default();
            if q.is_empty() {
                out.push((vec![], false, st.clone()));
            } else {
                // "Selects a non-empty subset of buffered inputs to release, always permuting them"
                for (sel, rest) in util::subsets(&q, false) {
                    for perm in util::permutations(&sel) {
                        let mut pending = Pending::new();
                        if !rest.is_empty() {
                            pending.insert((0, 0), rest.clone());
                        }
                        out.push((perm.into_iter().map(|i| (0, i)).collect(), true, with(pending, st.last.clone())));
                    }
                }
            }
        }
    }
    out
}

fn ref_can_nontrivial(st: &RefState) -> bool {
    st.pending.values().any(|q| !q.is_empty())
}

fn ref_ready(kind: Kind, st: &RefState) -> bool {
    match kind {
        Kind::Singleton => ref_can_nontrivial(st) || st.last.contains_key(&0),
        _ => true,
    }
}

fn ref_arrive(st: &mut RefState, a: &[Arr]) {
    for (s, k, i) in a {
        st.pending.entry((*s, *k)).or_default().push(*i);
    }
}

/// Every outcome the property allows for `spec` (a multiset: reaching one twice would show up as
/// a duplicate only on the observed side).
pub fn reference_outcomes(spec: &Spec) -> Vec<Outcome> {
    fn go(kind: Kind, st: RefState, script: &[(Vec<Arr>, bool)], drain: Option<usize>, acc: Outcome, out: &mut Vec<Outcome>) {
        match drain {
            None => {
                let Some(((arrive, force), rest)) = script.split_first() else {
                    out.push(acc);
                    return;
                };
                let mut st = st;
                ref_arrive(&mut st, arrive);
                if !ref_ready(kind, &st) {
                    go(kind, st, rest, None, acc, out);
                    return;
                }
                let f = *force && ref_can_nontrivial(&st);
                for (rel, _nt, next) in reference_round(kind, &st, f) {
                    let mut acc2 = acc.clone();
                    acc2.push((rel, pend_vec(&next.pending)));
                    go(kind, next, rest, None, acc2, out);
                }
            }
            Some(budget) => {
                if ref_can_nontrivial(&st) && budget > 0 {
                    for (rel, _nt, next) in reference_round(kind, &st, true) {
                        let mut acc2 = acc.clone();
                        acc2.push((rel, pend_vec(&next.pending)));
                        go(kind, next, script, Some(budget - 1), acc2, out);
                    }
                } else if ref_ready(kind, &st) {
                    for (rel, _nt, next) in reference_round(kind, &st, false) {
                        let mut acc2 = acc.clone();
                        acc2.push((rel, pend_vec(&next.pending)));
                        out.push(acc2);
                        let _ = next;
                    }
                } else {
                    out.push(acc);
                }
            }
        }
    }
    let mut out = vec![];
    let st0 = RefState { pending: Pending::new(), last: BTreeMap::new() };
    match &spec.script {
        Script::Rounds(r) => go(spec.kind, st0, r, None, vec![], &mut out),
        Script::Drain(a) => {
            let mut st = st0;
            ref_arrive(&mut st, a);
            go(spec.kind, st, &[], Some(a.len() + 2), vec![], &mut out)
        }
    }
    out
}

// ---------------------------------------------------------------------------------------------
// inline hooks (decisions made while a tick runs)

#[derive(Clone, Copy, Debug, PartialEq, Eq, Hash, PartialOrd, Ord)]
pub enum IKind {
    StreamOrder,
    MergeOrdered,
    KeyedStreamOrder,
    PartiallyOrdered,
    KeyedMergeOrdered,
}

pub const ALL_IKINDS: [IKind; 5] = [
    IKind::StreamOrder,
    IKind::MergeOrdered,
    IKind::KeyedStreamOrder,
    IKind::PartiallyOrdered,
    IKind::KeyedMergeOrdered,
];

impl IKind {
    pub fn name(self) -> &'static str {
        match self {
            IKind::StreamOrder => "StreamOrderHook",
            IKind::MergeOrdered => "MergeOrderedHook",
            IKind::KeyedStreamOrder => "KeyedStreamOrderHook",
            IKind::PartiallyOrdered => "PartiallyOrderedStreamHook",
            IKind::KeyedMergeOrdered => "KeyedMergeOrderedHook",
        }
    }
    pub fn from_name(s: &str) -> Option<IKind> {
        ALL_IKINDS.iter().copied().find(|k| k.name() == s)
    }
}

#[derive(Clone, Debug, PartialEq, Eq, Hash)]
pub struct ISpec {
    pub kind: IKind,
    pub first: Vec<KItem>,
    pub second: Vec<KItem>,
}

impl ISpec {
    pub fn to_json(&self) -> serde_json::Value {
        serde_json::json!({"hook": self.kind.name(), "script": "inline", "first": self.first, "second": self.second})
    }
    pub fn from_json(v: &serde_json::Value) -> Option<ISpec> {
        let kind = IKind::from_name(v.get("hook")?.as_str()?)?;
        let items = |a: &serde_json::Value| -> Option<Vec<KItem>> {
            a.as_array()?
                .iter()
                .map(|x| {
                    let x = x.as_array()?;
                    Some((x[0].as_u64()? as u32, x[1].as_i64()?))
                })
                .collect()
        };
        Some(ISpec { kind, first: items(v.get("first")?)?, second: items(v.get("second")?)? })
    }
}

#[derive(Clone, Debug, PartialEq, Eq)]
pub struct IObs {
    pub released: Vec<KItem>,
    pub messages: usize,
    pub pending_before: bool,
    pub has_decision_before: bool,
    pub has_decision_after_decide: bool,
    pub pending_after: bool,
    pub log: String,
    pub panic: Option<String>,
}

fn run_inline(spec: &ISpec) -> IObs {
    type In<T> = Rc<RefCell<Option<Vec<T>>>>;
    let vals = |v: &Vec<KItem>| -> Vec<Item> { v.iter().map(|x| x.1).collect() };
    enum O {
        Flat(Receiver<Vec<Item>>),
        Keyed(Receiver<Vec<KItem>>),
    }
    let (mut hook, mut out): (Box<dyn SimInlineHook>, O) = match spec.kind {
        IKind::StreamOrder => {
            let i: In<Item> = Rc::new(RefCell::new(Some(vals(&spec.first))));
            let (tx, rx) = unbounded();
            (Box::new(StreamOrderHook::new(i, tx, LOC, dbg_item)), O::Flat(rx))
        }
        IKind::MergeOrdered => {
            let a: In<Item> = Rc::new(RefCell::new(Some(vals(&spec.first))));
            let b: In<Item> = Rc::new(RefCell::new(Some(vals(&spec.second))));
            let (tx, rx) = unbounded();
            (Box::new(MergeOrderedHook::new(a, b, tx, LOC, dbg_item)), O::Flat(rx))
        }
        IKind::KeyedStreamOrder => {
            let i: In<KItem> = Rc::new(RefCell::new(Some(spec.first.clone())));
            let (tx, rx) = unbounded();
            (Box::new(KeyedStreamOrderHook::new(i, tx, LOC, dbg_key, dbg_item)), O::Keyed(rx))
        }
        IKind::PartiallyOrdered => {
            let i: In<KItem> = Rc::new(RefCell::new(Some(spec.first.clone())));
            let (tx, rx) = unbounded();
            (Box::new(PartiallyOrderedStreamHook::new(i, tx, LOC, dbg_key, dbg_item)), O::Keyed(rx))
        }
        IKind::KeyedMergeOrdered => {
            let a: In<KItem> = Rc::new(RefCell::new(Some(spec.first.clone())));
            let b: In<KItem> = Rc::new(RefCell::new(Some(spec.second.clone())));
            let (tx, rx) = unbounded();
            (Box::new(KeyedMergeOrderedHook::new(a, b, tx, LOC, dbg_pair)), O::Keyed(rx))
        }
    };
    let pending_before = hook.pending_decision();
    let has_decision_before = hook.has_decision();
    let mut has_decision_after_decide = false;
    let mut log = String::new();
    let r = util::catch(|| {
        // the inline-hook loop of `LaunchedSim::step`
        borrow_with(|driver| {
            if hook.pending_decision() {
                if !hook.has_decision() {
                    hook.autonomous_decision(driver);
                }
                has_decision_after_decide = hook.has_decision();
                hook.release_decision(Some(&mut log as &mut dyn std::fmt::Write));
            }
        })
    });
    let (released, messages) = match &mut out {
        O::Flat(rx) => {
            let m = drain_rx(rx);
            let n = m.len();
            (m.into_iter().flatten().map(|x| (0u32, x)).collect::<Vec<_>>(), n)
        }
        O::Keyed(rx) => {
            let m = drain_rx(rx);
            let n = m.len();
            (m.into_iter().flatten().collect::<Vec<_>>(), n)
        }
    };
    IObs {
        released,
        messages,
        pending_before,
        has_decision_before,
        has_decision_after_decide,
        pending_after: hook.pending_decision(),
        log,
        panic: r.err(),
    }
}

pub fn enumerate_inline(spec: &ISpec) -> (Vec<IObs>, Option<String>) {
    let mut execs: Vec<IObs> = vec![];
    let execs_mut = &mut execs;
    let r = util::catch(|| {
        exhaustive_run(move || {
            execs_mut.push(run_inline(spec));
        })
    });
    (execs, r.err())
}

fn sub_seq(all: &[KItem], pred: impl Fn(&KItem) -> bool) -> Vec<KItem> {
    all.iter().filter(|x| pred(x)).copied().collect()
}

pub fn judge_inline(spec: &ISpec, o: &IObs) -> Vec<(String, String)> {
    let mut bad = vec![];
    let mut fail = |k: &str, w: String| bad.push((k.to_owned(), w));
    if let Some(p) = &o.panic {
        fail("panic", format!("hook panicked: {p}"));
        return bad;
    }
    if !o.pending_before || o.has_decision_before || !o.has_decision_after_decide || o.pending_after {
        fail("protocol-flags", format!("pending_before={} has_decision_before={} has_decision_after_decide={} pending_after={}", o.pending_before, o.has_decision_before, o.has_decision_after_decide, o.pending_after));
    }
    if o.messages != 1 {
        fail("message-count", format!("{} messages on the output channel, expected one batch", o.messages));
    }
    // nothing lost, nothing duplicated
    let mut want: Vec<KItem> = spec.first.iter().chain(spec.second.iter()).copied().collect();
    let mut got = o.released.clone();
    want.sort();
    got.sort();
    if want != got {
        fail("conservation", format!("released {:?} is not a rearrangement of {:?} + {:?}", o.released, spec.first, spec.second));
        return bad;
    }
    match spec.kind {
        IKind::StreamOrder | IKind::KeyedStreamOrder => {}
        IKind::MergeOrdered => {
            for (side, src) in [(0u8, &spec.first), (1u8, &spec.second)] {
                if &sub_seq(&o.released, |x| side_of(x.1) == side) != src {
                    fail("input-order-broken", format!("released {:?} does not keep the order of input {side} {:?}", o.released, src));
                }
            }
        }
        IKind::PartiallyOrdered => {
            let keys: std::collections::BTreeSet<u32> = spec.first.iter().map(|x| x.0).collect();
            for k in keys {
                if sub_seq(&o.released, |x| x.0 == k) != sub_seq(&spec.first, |x| x.0 == k) {
                    fail("key-order-broken", format!("released {:?} does not keep the order of key {k} in {:?}", o.released, spec.first));
                }
            }
        }
        IKind::KeyedMergeOrdered => {
            let keys: std::collections::BTreeSet<u32> = want.iter().map(|x| x.0).collect();
            for k in keys {
                for (side, src) in [(0u8, &spec.first), (1u8, &spec.second)] {
                    if sub_seq(&o.released, |x| x.0 == k && side_of(x.1) == side) != sub_seq(src, |x| x.0 == k) {
                        fail("input-order-broken", format!("key {k}: released {:?} does not keep the order of input {side} {:?}", o.released, src));
                    }
                }
            }
        }
    }
    // log describes the release
    let parsed = util::parse_log(&o.log);
    let logged: Vec<i64> = match parsed.events.first() {
        Some(util::Event::Obs(Note::Observed { nums, .. })) => nums.clone(),
        None => vec![],
        Some(other) => {
            fail("log-unparsed", format!("{other:?}"));
            vec![]
        }
    };
    let actual: Vec<i64> = match spec.kind {
        IKind::StreamOrder | IKind::MergeOrdered => o.released.iter().map(|x| x.1).collect(),
        // "{ k: [v, v], k: [v] }"
        IKind::KeyedStreamOrder => {
            let mut v = vec![];
            let mut cur: Option<u32> = None;
            for (k, it) in &o.released {
                if cur != Some(*k) {
                    v.push(*k as i64);
                    cur = Some(*k);
                }
                v.push(*it);
            }
            v
        }
        IKind::PartiallyOrdered | IKind::KeyedMergeOrdered => o.released.iter().flat_map(|(k, v)| [*k as i64, *v]).collect(),
    };
    if logged != actual {
        fail("log-mismatch", format!("log says {logged:?} ({:?}) but channel got {actual:?}", o.log.trim()));
    }
    bad
}

/// Canonical outcome of an inline decision (keyed batches carry no order across keys).
pub fn canon_inline(kind: IKind, released: &[KItem]) -> Vec<KItem> {
    let mut v = released.to_vec();
    match kind {
        IKind::KeyedStreamOrder | IKind::KeyedMergeOrdered => v.sort_by_key(|x| x.0),
        _ => {}
    }
    v
}

pub fn reference_inline(spec: &ISpec) -> Vec<Vec<KItem>> {
    let keys_of = |v: &[KItem]| -> Vec<u32> {
        let mut k: Vec<u32> = v.iter().map(|x| x.0).collect();
        k.sort();
        k.dedup();
        k
    };
    match spec.kind {
        IKind::StreamOrder => util::permutations(&spec.first),
        IKind::MergeOrdered => util::interleavings(&spec.first, &spec.second),
        IKind::KeyedStreamOrder => {
            let per_key: Vec<Vec<Vec<KItem>>> = keys_of(&spec.first)
                .into_iter()
                .map(|k| util::permutations(&sub_seq(&spec.first, |x| x.0 == k)))
                .collect();
            product(&per_key).into_iter().map(|c| c.concat()).collect()
        }
        IKind::PartiallyOrdered => {
            let seqs: Vec<Vec<KItem>> = keys_of(&spec.first).into_iter().map(|k| sub_seq(&spec.first, |x| x.0 == k)).collect();
            util::multi_interleavings(&seqs)
        }
        IKind::KeyedMergeOrdered => {
            let all: Vec<KItem> = spec.first.iter().chain(spec.second.iter()).copied().collect();
            let per_key: Vec<Vec<Vec<KItem>>> = keys_of(&all)
                .into_iter()
                .map(|k| util::interleavings(&sub_seq(&spec.first, |x| x.0 == k), &sub_seq(&spec.second, |x| x.0 == k)))
                .collect();
            product(&per_key).into_iter().map(|c| c.concat()).collect()
        }
    }
}

// ---------------------------------------------------------------------------------------------
// several hooks of one tick, resolved by a literal copy of `run_hooks`

#[derive(Clone, Debug, PartialEq, Eq, Hash)]
pub struct TickSpec {
    /// (hook kind, arrivals before the first tick, arrivals before the second tick)
    pub hooks: Vec<(Kind, Vec<Arr>, Vec<Arr>)>,
}

impl TickSpec {
    pub fn to_json(&self) -> serde_json::Value {
        let arr = |a: &Vec<Arr>| a.iter().map(|x| serde_json::json!([x.0, x.1, x.2])).collect::<Vec<_>>();
        serde_json::json!({"script": "tick", "hooks": self.hooks.iter().map(|(k, a, b)| serde_json::json!({"hook": k.name(), "arrive1": arr(a), "arrive2": arr(b)})).collect::<Vec<_>>()})
    }
    pub fn from_json(v: &serde_json::Value) -> Option<TickSpec> {
        let arr = |a: &serde_json::Value| -> Option<Vec<Arr>> {
            a.as_array()?
                .iter()
                .map(|x| {
                    let x = x.as_array()?;
                    Some((x[0].as_u64()? as u8, x[1].as_u64()? as u32, x[2].as_i64()?))
                })
                .collect()
        };
        Some(TickSpec {
            hooks: v
                .get("hooks")?
                .as_array()?
                .iter()
                .map(|h| Some((Kind::from_name(h.get("hook")?.as_str()?)?, arr(h.get("arrive1")?)?, arr(h.get("arrive2")?)?)))
                .collect::<Option<Vec<_>>>()?,
        })
    }
}

/// One tick = one `RoundObs` per hook (in hook order) plus whether the scheduler could have run it.
#[derive(Clone, Debug, PartialEq, Eq)]
pub struct TickObs {
    pub rounds: Vec<RoundObs>,
    pub panic: Option<String>,
    /// hooks for which the first pass of `run_hooks` ("if no nontrivial decision is possible,
    /// make a trivial one") left no decision at all
    pub undecided: Vec<usize>,
}

fn run_tick_spec(spec: &TickSpec) -> Vec<TickObs> {
    let mut rigs: Vec<Rig> = spec.hooks.iter().map(|(k, _, _)| build(*k)).collect();
    let mut ticks = vec![];
    for phase in 0..2 {
        for (rig, (_, a1, a2)) in rigs.iter_mut().zip(&spec.hooks) {
            for a in if phase == 0 { a1 } else { a2 } {
                rig.inp.push(*a);
            }
        }
        // `SimTick::can_run`
        let can_run = rigs.iter().all(|r| r.hook.is_ready())
            && rigs.iter().any(|r| r.hook.current_decision().unwrap_or(false) || r.hook.can_make_nontrivial_decision());
        if !can_run {
            continue;
        }
        let befores: Vec<Pending> = rigs.iter().map(|r| r.inp.snap()).collect();
        let n = rigs.len();
        let mut forces = vec![false; n];
        let mut rets = vec![false; n];
        let mut decisions = vec![None; n];
        let mut logs = vec![String::new(); n];
        let mut undecided: Vec<usize> = vec![];
        let r = util::catch(|| {
            // literal transcription of `run_hooks`
            let mut remaining_decision_count = n;
            let mut made_nontrivial_decision = false;
            borrow_with(|driver| {
                for rig in rigs.iter_mut() {
                    let hook = &mut rig.hook;
                    if let Some(is_nontrivial) = hook.current_decision() {
                        made_nontrivial_decision |= is_nontrivial;
                        remaining_decision_count -= 1;
                    } else if !hook.can_make_nontrivial_decision() {
                        hook.autonomous_decision(driver, false);
                        remaining_decision_count -= 1;
                    }
                }
                undecided = rigs
                    .iter()
                    .enumerate()
                    .filter(|(_, rig)| rig.hook.current_decision().is_none() && !rig.hook.can_make_nontrivial_decision())
                    .map(|(i, _)| i)
                    .collect();
                for (i, rig) in rigs.iter_mut().enumerate() {
                    let hook = &mut rig.hook;
                    if hook.current_decision().is_none() {
                        let force = !made_nontrivial_decision && remaining_decision_count == 1;
                        forces[i] = force;
                        rets[i] = hook.autonomous_decision(driver, force);
                        made_nontrivial_decision |= rets[i];
                        remaining_decision_count -= 1;
                    } else {
                        rets[i] = hook.current_decision().unwrap();
                    }
                    decisions[i] = hook.current_decision();
                    hook.release_decision(Some(&mut logs[i] as &mut dyn std::fmt::Write));
                }
            });
        });
        let mut rounds = vec![];
        for (i, rig) in rigs.iter_mut().enumerate() {
            let (released, messages) = rig.out.drain();
            rounds.push(RoundObs {
                force: forces[i],
                before: befores[i].clone(),
                after: rig.inp.snap(),
                released,
                messages,
                ret: rets[i],
                decision: decisions[i],
                log: logs[i].clone(),
                panic: None,
            });
        }
        let stop = r.is_err();
        ticks.push(TickObs { rounds, panic: r.err(), undecided: undecided.clone() });
        if stop {
            break;
        }
    }
    ticks
}

pub fn enumerate_tick(spec: &TickSpec) -> (Vec<Vec<TickObs>>, Option<String>) {
    let mut execs: Vec<Vec<TickObs>> = vec![];
    let execs_mut = &mut execs;
    let r = util::catch(|| {
        exhaustive_run(move || {
            execs_mut.push(run_tick_spec(spec));
        })
    });
    (execs, r.err())
}

/// Canonical outcome of a multi-hook execution: per tick, per hook (released, remaining).
pub type TickOutcome = Vec<Vec<(Vec<KItem>, Vec<((u8, u32), Vec<Item>)>)>>;

pub fn tick_outcome_of(spec: &TickSpec, exec: &[TickObs]) -> TickOutcome {
    exec.iter()
        .map(|t| t.rounds.iter().zip(&spec.hooks).map(|(r, (k, _, _))| (canon_release(*k, &r.released), pend_vec(&r.after))).collect())
        .collect()
}

/// Independent enumeration: per tick the product of every hook's unforced choices, minus the
/// combinations where no hook releases anything new (a scheduled tick must release something).
pub fn reference_tick(spec: &TickSpec) -> Vec<TickOutcome> {
    fn go(spec: &TickSpec, phase: usize, sts: Vec<RefState>, acc: TickOutcome, out: &mut Vec<TickOutcome>) {
        if phase == 2 {
            out.push(acc);
            return;
        }
        let mut sts = sts;
        for (st, (_, a1, a2)) in sts.iter_mut().zip(&spec.hooks) {
            ref_arrive(st, if phase == 0 { a1 } else { a2 });
        }
        let can_run = sts.iter().zip(&spec.hooks).all(|(st, (k, _, _))| ref_ready(*k, st)) && sts.iter().any(ref_can_nontrivial);
        if !can_run {
            go(spec, phase + 1, sts, acc, out);
            return;
        }
        let per_hook: Vec<Vec<(Vec<KItem>, bool, RefState)>> =
            sts.iter().zip(&spec.hooks).map(|(st, (k, _, _))| reference_round(*k, st, false)).collect();
        for combo in product(&per_hook) {
            if !combo.iter().any(|c| c.1) {
                continue;
            }
            let mut acc2 = acc.clone();
            acc2.push(combo.iter().map(|c| (c.0.clone(), pend_vec(&c.2.pending))).collect());
            go(spec, phase + 1, combo.into_iter().map(|c| c.2).collect(), acc2, out);
        }
    }
    let mut out = vec![];
    let sts = spec.hooks.iter().map(|_| RefState { pending: Pending::new(), last: BTreeMap::new() }).collect();
    go(spec, 0, sts, vec![], &mut out);
    out
}
