//! The corpus flows of `crate::flows`, compiled for the simulator and wrapped behind one uniform
//! interface: run one instance from a byte string with a decision-log writer (`fuzz_repro` +
//! `run_with_scheduler_and_logger`), or run every instance of `CompiledSim::exhaustive`.

use std::panic::RefUnwindSafe;

use hydro_lang::live_collections::stream::{ExactlyOnce, NoOrder, TotalOrder};
use hydro_lang::prelude::*;
use hydro_lang::sim::compiled::CompiledSim;
use hydro_lang::sim::{SimReceiver, SimSender};

use crate::flows;

/// (key, value); unkeyed items use key 0.
pub type Pair = (i64, i64);

/// What one tick (or one top-level release) of the flow emitted.
#[derive(Clone, Debug, PartialEq, Eq, PartialOrd, Ord, Hash)]
pub struct Tk {
    pub port: u8,
    pub items: Vec<Pair>,
    /// snapshot value emitted together with the batch, if the flow has one
    pub aux: Option<i64>,
}
pub type Trace = Vec<Tk>;

pub fn trace_json(t: &Trace) -> serde_json::Value {
    serde_json::json!(t.iter().map(|k| serde_json::json!({"port": k.port, "items": k.items, "aux": k.aux})).collect::<Vec<_>>())
}

#[derive(Clone, Debug, Default, PartialEq, Eq, Hash)]
pub struct Inp {
    pub a: Vec<Pair>,
    pub b: Vec<Pair>,
    /// C38 only: discard the instance (`continue_if!`) when the first emission has this many items
    pub assume_first_len_ne: Option<usize>,
    /// C38 only: fail the test body (panic) when some emission has this many items
    pub boom_on_len: Option<usize>,
}

impl Inp {
    pub fn flat(a: &[i64]) -> Inp {
        Inp { a: a.iter().map(|x| (0, *x)).collect(), ..Default::default() }
    }
    pub fn flat2(a: &[i64], b: &[i64]) -> Inp {
        Inp { a: a.iter().map(|x| (0, *x)).collect(), b: b.iter().map(|x| (0, *x)).collect(), ..Default::default() }
    }
    pub fn keyed(a: &[Pair]) -> Inp {
        Inp { a: a.to_vec(), ..Default::default() }
    }
    pub fn to_json(&self) -> serde_json::Value {
        serde_json::json!({"a": self.a, "b": self.b, "assume_first_len_ne": self.assume_first_len_ne, "boom_on_len": self.boom_on_len})
    }
    pub fn from_json(v: &serde_json::Value) -> Option<Inp> {
        let pairs = |x: &serde_json::Value| -> Option<Vec<Pair>> {
            x.as_array()?.iter().map(|p| Some((p.get(0)?.as_i64()?, p.get(1)?.as_i64()?))).collect()
        };
        Some(Inp {
            a: pairs(v.get("a")?)?,
            b: pairs(v.get("b")?)?,
            assume_first_len_ne: v.get("assume_first_len_ne").and_then(|x| x.as_u64()).map(|x| x as usize),
            boom_on_len: v.get("boom_on_len").and_then(|x| x.as_u64()).map(|x| x as usize),
        })
    }
}

pub trait Body {
    fn body(&self, inp: &Inp) -> impl Future<Output = Trace>;
}

#[derive(Clone, Debug, PartialEq, Eq, Hash)]
pub enum Verdict {
    Pass,
    /// the instance was discarded by a failed `continue_if!`
    Assume,
    Panic(String),
}

pub struct Run {
    pub log: String,
    pub trace: Option<Trace>,
    pub verdict: Verdict,
}

pub trait Case {
    /// One instance whose decisions come from `bytes`, with the decision log captured.
    fn repro(&self, bytes: &[u8], inp: &Inp) -> Run;
    /// All instances of exhaustive mode: (traces, executions reported by the simulator, failure).
    fn exhaustive(&self, inp: &Inp) -> (Vec<Trace>, usize, Option<String>);
}

pub struct CaseImpl<P> {
    pub compiled: CompiledSim,
    pub ports: P,
}

/// Highest number of polls of a test body seen so far (evidence for the margin of the step cap).
pub static MAX_POLLS: std::sync::atomic::AtomicUsize = std::sync::atomic::AtomicUsize::new(0);

/// Step cap: the scheduler polls the test body between every two scheduler steps, so the number of
/// polls bounds the number of steps. A sound simulation of these flows needs a few steps per input
/// item (each tick / observation releases something new, and there is only so much to release);
/// `cap` is far above that. Exceeding it means ticks or observations keep being scheduled without
/// releasing anything new (the run would never quiesce).
pub fn step_cap(inp: &Inp) -> usize {
    200 * (inp.a.len() + inp.b.len() + 2)
}

struct PollCap<F> {
    inner: std::pin::Pin<Box<F>>,
    polls: usize,
    cap: usize,
}

impl<F: Future> Future for PollCap<F> {
    type Output = F::Output;
    fn poll(mut self: std::pin::Pin<&mut Self>, cx: &mut std::task::Context<'_>) -> std::task::Poll<F::Output> {
        self.polls += 1;
        MAX_POLLS.fetch_max(self.polls, std::sync::atomic::Ordering::Relaxed);
        if self.polls > self.cap {
            panic!("step cap: the simulation did not quiesce within {} scheduler steps", self.cap);
        }
        self.inner.as_mut().poll(cx)
    }
}

fn capped<F: Future>(f: F, inp: &Inp) -> PollCap<F> {
    PollCap { inner: Box::pin(f), polls: 0, cap: step_cap(inp) }
}

fn triggers(inp: &Inp, t: &Trace) {
    if let Some(k) = inp.assume_first_len_ne {
        hydro_lang::sim::continue_if!(t.first().map(|x| x.items.len()) != Some(k), "first emission has {} items", k);
    }
    if let Some(k) = inp.boom_on_len
        && t.iter().any(|x| x.items.len() == k)
    {
        panic!("boom: an emission with {k} items");
    }
}

impl<P: Body + RefUnwindSafe> Case for CaseImpl<P> {
    fn repro(&self, bytes: &[u8], inp: &Inp) -> Run {
        let mut log: Vec<u8> = vec![];
        let mut trace: Option<Trace> = None;
        let ports = &self.ports;
        let compiled = &self.compiled;
        let r = vcommon::catch(|| {
            compiled.fuzz_repro(bytes.to_vec(), async |inst| {
                inst.run_with_scheduler_and_logger(&mut log, async {
                    let t = capped(ports.body(inp), inp).await;
                    trace = Some(t.clone());
                    triggers(inp, &t);
                })
                .await
            })
        });
        let verdict = match r {
            Ok(()) => Verdict::Pass,
            Err(m) if m.contains("simulation assumption failed") => Verdict::Assume,
            Err(m) => Verdict::Panic(format!("{m} [at {}]", super::util::last_panic_location())),
        };
        Run { log: String::from_utf8_lossy(&log).into_owned(), trace, verdict }
    }

    fn exhaustive(&self, inp: &Inp) -> (Vec<Trace>, usize, Option<String>) {
        let mut traces: Vec<Trace> = vec![];
        let ports = &self.ports;
        let compiled = &self.compiled;
        let traces_mut = &mut traces;
        let r = vcommon::catch(|| {
            compiled.exhaustive(async || {
                let t = capped(ports.body(inp), inp).await;
                traces_mut.push(t);
            })
        });
        match r {
            Ok(n) => (traces, n, None),
            Err(e) => {
                let n = traces.len();
                (traces, n, Some(format!("{e} [at {}]", super::util::last_panic_location())))
            }
        }
    }
}

type TxO<T> = SimSender<T, TotalOrder, ExactlyOnce>;
type TxU<T> = SimSender<T, NoOrder, ExactlyOnce>;
type Rx<T> = SimReceiver<T, TotalOrder, ExactlyOnce>;

fn flat_tk(port: u8, v: Vec<i32>) -> Tk {
    Tk { port, items: v.into_iter().map(|x| (0, x as i64)).collect(), aux: None }
}
fn keyed_tk(port: u8, v: Vec<(u32, i32)>) -> Tk {
    Tk { port, items: v.into_iter().map(|(k, x)| (k as i64, x as i64)).collect(), aux: None }
}
fn vals(p: &[Pair]) -> Vec<i32> {
    p.iter().map(|x| x.1 as i32).collect()
}
fn kvs(p: &[Pair]) -> Vec<(u32, i32)> {
    p.iter().map(|x| (x.0 as u32, x.1 as i32)).collect()
}

pub struct BatchOrdered {
    tx: TxO<i32>,
    rx: Rx<Vec<i32>>,
}
impl Body for BatchOrdered {
    async fn body(&self, inp: &Inp) -> Trace {
        self.tx.send_many(vals(&inp.a));
        let out: Vec<Vec<i32>> = self.rx.collect().await;
        out.into_iter().map(|v| flat_tk(0, v)).collect()
    }
}

pub struct BatchUnordered {
    tx: TxU<i32>,
    rx: Rx<Vec<i32>>,
}
impl Body for BatchUnordered {
    async fn body(&self, inp: &Inp) -> Trace {
        self.tx.send_many_unordered(vals(&inp.a));
        let out: Vec<Vec<i32>> = self.rx.collect().await;
        out.into_iter().map(|v| flat_tk(0, v)).collect()
    }
}

pub struct KeyedOrdered {
    tx: TxO<(u32, i32)>,
    rx: Rx<Vec<(u32, i32)>>,
}
impl Body for KeyedOrdered {
    async fn body(&self, inp: &Inp) -> Trace {
        self.tx.send_many(kvs(&inp.a));
        let out: Vec<Vec<(u32, i32)>> = self.rx.collect().await;
        out.into_iter().map(|v| keyed_tk(0, v)).collect()
    }
}

pub struct KeyedUnordered {
    tx: TxU<(u32, i32)>,
    rx: Rx<Vec<(u32, i32)>>,
}
impl Body for KeyedUnordered {
    async fn body(&self, inp: &Inp) -> Trace {
        self.tx.send_many_unordered(kvs(&inp.a));
        let out: Vec<Vec<(u32, i32)>> = self.rx.collect().await;
        out.into_iter().map(|v| keyed_tk(0, v)).collect()
    }
}

/// Items are sent one per scheduler step, so every intermediate version of the count is pending
/// before the first tick can be scheduled (a step advances the top-level dataflow before it
/// considers any tick).
pub struct SnapshotCount {
    tx: TxO<i32>,
    rx: Rx<usize>,
}
impl Body for SnapshotCount {
    async fn body(&self, inp: &Inp) -> Trace {
        for v in vals(&inp.a) {
            self.tx.send(v);
            tokio::task::yield_now().await;
        }
        let out: Vec<usize> = self.rx.collect().await;
        out.into_iter().map(|c| Tk { port: 0, items: vec![], aux: Some(c as i64) }).collect()
    }
}

pub struct SnapshotKeyedSum {
    tx: TxO<(u32, i32)>,
    rx: Rx<Vec<(u32, i32)>>,
}
impl Body for SnapshotKeyedSum {
    async fn body(&self, inp: &Inp) -> Trace {
        for kv in kvs(&inp.a) {
            self.tx.send(kv);
            tokio::task::yield_now().await;
        }
        let out: Vec<Vec<(u32, i32)>> = self.rx.collect().await;
        out.into_iter().map(|v| keyed_tk(0, v)).collect()
    }
}

pub struct TwoTicks {
    txa: TxO<i32>,
    txb: TxO<i32>,
    rxa: Rx<Vec<i32>>,
    rxb: Rx<Vec<i32>>,
}
impl Body for TwoTicks {
    async fn body(&self, inp: &Inp) -> Trace {
        self.txa.send_many(vals(&inp.a));
        self.txb.send_many(vals(&inp.b));
        let total = inp.a.len() + inp.b.len();
        let mut got = 0;
        let mut out = vec![];
        // The test body is polled between every two scheduler steps and a tick's output needs
        // one step to reach its port, so the port that yields first belongs to the tick that
        // ran first.
        while got < total {
            tokio::select! {
                biased;
                x = self.rxa.next() => { got += x.len().max(1); out.push(flat_tk(0, x)); }
                y = self.rxb.next() => { got += y.len().max(1); out.push(flat_tk(1, y)); }
            }
        }
        // anything beyond the expected number of items (duplicates) is still reported
        let rest_a: Vec<Vec<i32>> = self.rxa.collect().await;
        let rest_b: Vec<Vec<i32>> = self.rxb.collect().await;
        out.extend(rest_a.into_iter().map(|v| flat_tk(0, v)));
        out.extend(rest_b.into_iter().map(|v| flat_tk(1, v)));
        out
    }
}

pub struct BatchWithSnapshot {
    txa: TxO<i32>,
    txb: TxO<i32>,
    rx: Rx<(Vec<i32>, usize)>,
}
impl Body for BatchWithSnapshot {
    async fn body(&self, inp: &Inp) -> Trace {
        self.txa.send_many(vals(&inp.a));
        for v in vals(&inp.b) {
            self.txb.send(v);
            tokio::task::yield_now().await;
        }
        let out: Vec<(Vec<i32>, usize)> = self.rx.collect().await;
        out.into_iter()
            .map(|(v, c)| {
                let mut t = flat_tk(0, v);
                t.aux = Some(c as i64);
                t
            })
            .collect()
    }
}

pub struct BatchWithFoldSnapshot {
    txa: TxO<i32>,
    txb: TxU<i32>,
    rx: Rx<(Vec<i32>, i32)>,
}
impl Body for BatchWithFoldSnapshot {
    async fn body(&self, inp: &Inp) -> Trace {
        self.txa.send_many(vals(&inp.a));
        self.txb.send_many_unordered(vals(&inp.b));
        let out: Vec<(Vec<i32>, i32)> = self.rx.collect().await;
        out.into_iter()
            .map(|(v, c)| {
                let mut t = flat_tk(0, v);
                t.aux = Some(c as i64);
                t
            })
            .collect()
    }
}

pub struct FoldUnordered {
    tx: TxU<i32>,
    rx: Rx<Vec<i32>>,
}
impl Body for FoldUnordered {
    async fn body(&self, inp: &Inp) -> Trace {
        self.tx.send_many_unordered(vals(&inp.a));
        let out: Vec<Vec<i32>> = self.rx.collect().await;
        out.into_iter().map(|v| flat_tk(0, v)).collect()
    }
}

pub struct TopOrder {
    tx: TxU<i32>,
    rx: Rx<i32>,
}
impl Body for TopOrder {
    async fn body(&self, inp: &Inp) -> Trace {
        self.tx.send_many_unordered(vals(&inp.a));
        let out: Vec<i32> = self.rx.collect().await;
        out.into_iter().map(|v| flat_tk(0, vec![v])).collect()
    }
}

pub struct TopMerge {
    txa: TxO<i32>,
    txb: TxO<i32>,
    rx: Rx<i32>,
}
impl Body for TopMerge {
    async fn body(&self, inp: &Inp) -> Trace {
        self.txa.send_many(vals(&inp.a));
        self.txb.send_many(vals(&inp.b));
        let out: Vec<i32> = self.rx.collect().await;
        out.into_iter().map(|v| flat_tk(0, vec![v])).collect()
    }
}

pub struct NetCluster {
    tx: TxO<i32>,
    rx: Rx<Vec<(u32, i32)>>,
}
impl Body for NetCluster {
    async fn body(&self, inp: &Inp) -> Trace {
        self.tx.send_many(vals(&inp.a));
        let out: Vec<Vec<(u32, i32)>> = self.rx.collect().await;
        out.into_iter().map(|v| keyed_tk(0, v)).collect()
    }
}

pub struct KeyedOrderInTick {
    tx: TxU<(u32, i32)>,
    rx: Rx<Vec<(u32, Vec<i32>)>>,
}
impl Body for KeyedOrderInTick {
    async fn body(&self, inp: &Inp) -> Trace {
        self.tx.send_many_unordered(kvs(&inp.a));
        let out: Vec<Vec<(u32, Vec<i32>)>> = self.rx.collect().await;
        out.into_iter()
            .map(|tick| keyed_tk(0, tick.into_iter().flat_map(|(k, vs)| vs.into_iter().map(move |v| (k, v))).collect()))
            .collect()
    }
}

pub struct TopKeyedOrder {
    tx: TxU<(u32, i32)>,
    rx: Rx<(u32, i32)>,
}
impl Body for TopKeyedOrder {
    async fn body(&self, inp: &Inp) -> Trace {
        self.tx.send_many_unordered(kvs(&inp.a));
        let out: Vec<(u32, i32)> = self.rx.collect().await;
        out.into_iter().map(|kv| keyed_tk(0, vec![kv])).collect()
    }
}

pub struct MergeInTick {
    txa: TxO<i32>,
    txb: TxO<i32>,
    rx: Rx<Vec<i32>>,
}
impl Body for MergeInTick {
    async fn body(&self, inp: &Inp) -> Trace {
        self.txa.send_many(vals(&inp.a));
        self.txb.send_many(vals(&inp.b));
        let out: Vec<Vec<i32>> = self.rx.collect().await;
        out.into_iter().map(|v| flat_tk(0, v)).collect()
    }
}

pub struct TopKeyedMerge {
    txa: TxO<(u32, i32)>,
    txb: TxO<(u32, i32)>,
    rx: Rx<(u32, i32)>,
}
impl Body for TopKeyedMerge {
    async fn body(&self, inp: &Inp) -> Trace {
        self.txa.send_many(kvs(&inp.a));
        self.txb.send_many(kvs(&inp.b));
        let out: Vec<(u32, i32)> = self.rx.collect().await;
        out.into_iter().map(|kv| keyed_tk(0, vec![kv])).collect()
    }
}

pub struct KeyedMergeInTick {
    txa: TxO<(u32, i32)>,
    txb: TxO<(u32, i32)>,
    rx: Rx<Vec<(u32, i32)>>,
}
impl Body for KeyedMergeInTick {
    async fn body(&self, inp: &Inp) -> Trace {
        self.txa.send_many(kvs(&inp.a));
        self.txb.send_many(kvs(&inp.b));
        let out: Vec<Vec<(u32, i32)>> = self.rx.collect().await;
        out.into_iter().map(|v| keyed_tk(0, v)).collect()
    }
}

/// Flows used by the replay monitor only (they complete the coverage of hook types).
/// `keyed_merge_in_tick` (inline `KeyedMergeOrderedHook`) is compiled on request only: on the
/// shipped tree that flow shape crashes the simulator in its first tick (the hook's output
/// receiver is already closed: `try_send(..).unwrap()` on `Closed` in
/// `KeyedMergeOrderedHook::release_decision`, raised inside the dylib, i.e. a process abort), so it
/// cannot be replayed; the hook itself is covered at hook level (C36/C37).
pub const REPLAY_EXTRA_CASES: [&str; 4] = ["keyed_order_in_tick", "top_keyed_order", "merge_in_tick", "top_keyed_merge"];

pub const NET_CLUSTER_SIZE: usize = 3;

pub const ALL_CASES: [&str; 13] = [
    "batch_ordered",
    "batch_unordered",
    "batch_keyed_ordered",
    "batch_keyed_unordered",
    "snapshot_count",
    "snapshot_keyed_sum",
    "two_ticks",
    "batch_with_snapshot",
    "batch_with_fold_snapshot",
    "fold_unordered",
    "top_order",
    "top_merge",
    "net_cluster",
];

/// Build and compile one corpus flow (the simulator compiles a dylib, cached per flow).
pub fn build_case(name: &str) -> Box<dyn Case> {
    let mut flow = FlowBuilder::new();
    let p = flow.process::<()>();
    match name {
        "batch_ordered" => {
            let (tx, input) = p.sim_input::<i32, TotalOrder, ExactlyOnce>();
            let rx = flows::batch_ordered(input).sim_output();
            Box::new(CaseImpl { compiled: flow.sim().compiled(), ports: BatchOrdered { tx, rx } })
        }
        "batch_unordered" => {
            let (tx, input) = p.sim_input::<i32, NoOrder, ExactlyOnce>();
            let rx = flows::batch_unordered(input).sim_output();
            Box::new(CaseImpl { compiled: flow.sim().compiled(), ports: BatchUnordered { tx, rx } })
        }
        "batch_keyed_ordered" => {
            let (tx, input) = p.sim_input::<(u32, i32), TotalOrder, ExactlyOnce>();
            let rx = flows::batch_keyed_ordered(input).sim_output();
            Box::new(CaseImpl { compiled: flow.sim().compiled(), ports: KeyedOrdered { tx, rx } })
        }
        "batch_keyed_unordered" => {
            let (tx, input) = p.sim_input::<(u32, i32), NoOrder, ExactlyOnce>();
            let rx = flows::batch_keyed_unordered(input).sim_output();
            Box::new(CaseImpl { compiled: flow.sim().compiled(), ports: KeyedUnordered { tx, rx } })
        }
        "snapshot_count" => {
            let (tx, input) = p.sim_input::<i32, TotalOrder, ExactlyOnce>();
            let rx = flows::snapshot_count(input).sim_output();
            Box::new(CaseImpl { compiled: flow.sim().compiled(), ports: SnapshotCount { tx, rx } })
        }
        "snapshot_keyed_sum" => {
            let (tx, input) = p.sim_input::<(u32, i32), TotalOrder, ExactlyOnce>();
            let rx = flows::snapshot_keyed_sum(input).sim_output();
            Box::new(CaseImpl { compiled: flow.sim().compiled(), ports: SnapshotKeyedSum { tx, rx } })
        }
        "two_ticks" => {
            let (txa, a) = p.sim_input::<i32, TotalOrder, ExactlyOnce>();
            let (txb, b) = p.sim_input::<i32, TotalOrder, ExactlyOnce>();
            let (oa, ob) = flows::two_ticks(a, b);
            let (rxa, rxb) = (oa.sim_output(), ob.sim_output());
            Box::new(CaseImpl { compiled: flow.sim().compiled(), ports: TwoTicks { txa, txb, rxa, rxb } })
        }
        "batch_with_snapshot" => {
            let (txa, a) = p.sim_input::<i32, TotalOrder, ExactlyOnce>();
            let (txb, b) = p.sim_input::<i32, TotalOrder, ExactlyOnce>();
            let rx = flows::batch_with_snapshot(a, b).sim_output();
            Box::new(CaseImpl { compiled: flow.sim().compiled(), ports: BatchWithSnapshot { txa, txb, rx } })
        }
        "batch_with_fold_snapshot" => {
            let (txa, a) = p.sim_input::<i32, TotalOrder, ExactlyOnce>();
            let (txb, b) = p.sim_input::<i32, NoOrder, ExactlyOnce>();
            let rx = flows::batch_with_fold_snapshot(a, b).sim_output();
            Box::new(CaseImpl { compiled: flow.sim().compiled(), ports: BatchWithFoldSnapshot { txa, txb, rx } })
        }
        "fold_unordered" => {
            let (tx, input) = p.sim_input::<i32, NoOrder, ExactlyOnce>();
            let rx = flows::fold_unordered(input).sim_output();
            Box::new(CaseImpl { compiled: flow.sim().compiled(), ports: FoldUnordered { tx, rx } })
        }
        "top_order" => {
            let (tx, input) = p.sim_input::<i32, NoOrder, ExactlyOnce>();
            let rx = flows::top_order(input).sim_output();
            Box::new(CaseImpl { compiled: flow.sim().compiled(), ports: TopOrder { tx, rx } })
        }
        "top_merge" => {
            let (txa, a) = p.sim_input::<i32, TotalOrder, ExactlyOnce>();
            let (txb, b) = p.sim_input::<i32, TotalOrder, ExactlyOnce>();
            let rx = flows::top_merge(a, b).sim_output();
            Box::new(CaseImpl { compiled: flow.sim().compiled(), ports: TopMerge { txa, txb, rx } })
        }
        "net_cluster" => {
            let c = flow.cluster::<()>();
            let (tx, input) = p.sim_input::<i32, TotalOrder, ExactlyOnce>();
            let rx = flows::net_cluster(input, &c).sim_output();
            Box::new(CaseImpl {
                compiled: flow.sim().with_cluster_size(&c, NET_CLUSTER_SIZE).compiled(),
                ports: NetCluster { tx, rx },
            })
        }
        "keyed_order_in_tick" => {
            let (tx, input) = p.sim_input::<(u32, i32), NoOrder, ExactlyOnce>();
            let rx = flows::keyed_order_in_tick(input).sim_output();
            Box::new(CaseImpl { compiled: flow.sim().compiled(), ports: KeyedOrderInTick { tx, rx } })
        }
        "top_keyed_order" => {
            let (tx, input) = p.sim_input::<(u32, i32), NoOrder, ExactlyOnce>();
            let rx = flows::top_keyed_order(input).sim_output();
            Box::new(CaseImpl { compiled: flow.sim().compiled(), ports: TopKeyedOrder { tx, rx } })
        }
        "merge_in_tick" => {
            let (txa, a) = p.sim_input::<i32, TotalOrder, ExactlyOnce>();
            let (txb, b) = p.sim_input::<i32, TotalOrder, ExactlyOnce>();
            let rx = flows::merge_in_tick(a, b).sim_output();
            Box::new(CaseImpl { compiled: flow.sim().compiled(), ports: MergeInTick { txa, txb, rx } })
        }
        "top_keyed_merge" => {
            let (txa, a) = p.sim_input::<(u32, i32), TotalOrder, ExactlyOnce>();
            let (txb, b) = p.sim_input::<(u32, i32), TotalOrder, ExactlyOnce>();
            let rx = flows::top_keyed_merge(a, b).sim_output();
            Box::new(CaseImpl { compiled: flow.sim().compiled(), ports: TopKeyedMerge { txa, txb, rx } })
        }
        "keyed_merge_in_tick" => {
            let (txa, a) = p.sim_input::<(u32, i32), TotalOrder, ExactlyOnce>();
            let (txb, b) = p.sim_input::<(u32, i32), TotalOrder, ExactlyOnce>();
            let rx = flows::keyed_merge_in_tick(a, b).sim_output();
            Box::new(CaseImpl { compiled: flow.sim().compiled(), ports: KeyedMergeInTick { txa, txb, rx } })
        }
        other => panic!("unknown corpus flow {other}"),
    }
}

/// `build_case` plus a smoke run. With RUSTFLAGS set (as `bin/check` does) the simulator builds every
/// flow's dylib to one fixed file name in the shared target directory and copies it afterwards; a
/// concurrent simulator build by another process (another sim crate sharing the target dir) can
/// replace that file in between, and the wrong dylib then fails at the first port lookup. A failed
/// smoke run therefore triggers a rebuild (twice at most); if it still fails the case is used as
/// it is, so that a genuine defect is still reported by the monitor proper.
pub fn build_case_checked(name: &str, smoke: &Inp) -> (Box<dyn Case>, usize) {
    let mut attempts = 0;
    loop {
        attempts += 1;
        let case = build_case(name);
        let run = case.repro(&[], smoke);
        if run.verdict == Verdict::Pass || attempts >= 3 {
            return (case, attempts);
        }
    }
}
