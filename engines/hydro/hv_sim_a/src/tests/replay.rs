//! `c38_replay`: the same decision bytes give the same decision log, outputs and verdict.

use std::collections::BTreeSet;

use serde_json::json;
use vcommon::{Args, Reporter, Rng, hash_of};

use super::cases::*;
use super::util;

fn rand_bytes(rng: &mut Rng) -> Vec<u8> {
    let n = match rng.below(10) {
        0 => 0,
        1 => 1 + rng.below(7),
        2 | 3 => 8 + rng.below(24),
        _ => 32 + rng.below(224),
    };
    // mix of uniform bytes and low-entropy bytes (long runs make long batches)
    let low = rng.chance(1, 4);
    (0..n).map(|_| if low { (rng.below(4) as u8) * 85 } else { rng.next_u64() as u8 }).collect()
}

/// Inputs for the replay monitor: keyed flows get >= 5 keys; every flow gets one plain input,
/// one with a `continue_if!` in the test body and one with a failing assertion.
fn replay_inputs(name: &str) -> Vec<Inp> {
    let base = match name {
        "batch_ordered" | "batch_unordered" | "top_order" | "snapshot_count" => Inp::flat(&[1, 2, 3, 4, 5, 6]),
        "fold_unordered" => Inp::flat(&[1, 2, 3, 4, 5]),
        "batch_keyed_ordered" | "batch_keyed_unordered" => Inp::keyed(&[
            (1, 1), (2, 2), (1, 3), (3, 4), (2, 5), (4, 6), (5, 7), (6, 8), (7, 9), (3, 10),
        ]),
        "snapshot_keyed_sum" => Inp::keyed(&[(1, 1), (2, 2), (1, 4), (3, 8), (2, 16), (4, 32), (5, 64), (6, 128)]),
        "two_ticks" | "top_merge" => Inp::flat2(&[1, 2, 3], &[11, 12, 13]),
        "batch_with_snapshot" | "batch_with_fold_snapshot" => Inp::flat2(&[1, 2, 3], &[1, 2, 4]),
        "net_cluster" => Inp::flat(&[1, 2, 3]),
        "keyed_order_in_tick" | "top_keyed_order" => Inp::keyed(&[(1, 1), (2, 2), (1, 3), (2, 4), (1, 5), (2, 6), (3, 7), (3, 8)]),
        "merge_in_tick" => Inp::flat2(&[1, 2, 3], &[11, 12, 13]),
        "top_keyed_merge" | "keyed_merge_in_tick" => Inp {
            a: vec![(1, 1), (2, 2), (1, 3), (2, 4), (3, 5)],
            b: vec![(1, 11), (2, 12), (1, 13), (2, 14), (3, 15)],
            ..Default::default()
        },
        other => panic!("no replay input for {other}"),
    };
    let mut assume = base.clone();
    assume.assume_first_len_ne = Some(1);
    let mut boom = base.clone();
    boom.boom_on_len = Some(2);
    boom.assume_first_len_ne = Some(3);
    vec![base, assume, boom]
}

/// Which hook types of sim/runtime.rs a flow exercises, and how their decisions show up in the log:
/// (hook type, note written inside a tick?, note category).
fn hook_kinds_of(flow: &str) -> Vec<(&'static str, bool, &'static str)> {
    match flow {
        "batch_ordered" | "two_ticks" => vec![("StreamHook<TotalOrder>", true, "items")],
        "batch_unordered" => vec![("StreamHook<NoOrder>", true, "uitems"), ("StreamOrderHook", true, "order")],
        "batch_keyed_ordered" => vec![("KeyedStreamHook<TotalOrder>", true, "items"), ("PartiallyOrderedStreamHook", true, "partial")],
        "batch_keyed_unordered" => vec![("KeyedStreamHook<NoOrder>", true, "uitems")],
        "snapshot_count" => vec![("SingletonHook", true, "snap")],
        "snapshot_keyed_sum" => vec![("KeyedSingletonHook", true, "ksnap")],
        "fold_unordered" => vec![("TopLevelFoldHook", false, "fold"), ("PassthroughSingletonHook", true, "snap")],
        "top_order" => vec![("TopLevelStreamOrderHook", false, "top-order")],
        "top_merge" => vec![("TopLevelMergeOrderedHook", false, "merge")],
        "keyed_order_in_tick" => vec![("KeyedStreamOrderHook", true, "korder")],
        "top_keyed_order" => vec![("TopLevelKeyedStreamOrderHook", false, "order"), ("TopLevelPartiallyOrderedStreamHook", false, "partial")],
        "merge_in_tick" => vec![("MergeOrderedHook", true, "merge")],
        "top_keyed_merge" => vec![("TopLevelKeyedMergeOrderedHook", false, "merge")],
        "keyed_merge_in_tick" => vec![("KeyedMergeOrderedHook", true, "merge")],
        _ => vec![],
    }
}

pub fn c38_replay() {
    let args = Args::from_env();
    let prop = if args.prop.is_empty() { "C38".to_owned() } else { args.prop.clone() };
    let mut rep = Reporter::new(&prop, args.seed);
    let replay = args.replay_case();
    let mut rng = args.rng();
    // per flow: the byte strings are spread over the three inputs
    let n_bytes = args.budget(200, 5000, 5);
    let mut flows_seen = 0;
    let mut keyed_logs = BTreeSet::new();

    let fp = util::repo_fingerprint();
    let mut cases = vec![];
    let mut hook_kinds_seen: std::collections::BTreeMap<&'static str, u64> = std::collections::BTreeMap::new();
    for name in ALL_CASES.into_iter().chain(REPLAY_EXTRA_CASES) {
        if let Some(c) = &replay
            && c.get("flow").and_then(|f| f.as_str()) != Some(name)
        {
            continue;
        }
        let mut smoke = replay_inputs(name)[0].clone();
        smoke.a.truncate(2);
        smoke.b.truncate(2);
        util::arm_abort_report(&prop, None, &json!({"phase": "compiling and smoke-running the simulator dylib (a crash here usually means another process replaced the freshly built dylib)", "flow": name}), 0);
        let (case, attempts) = build_case_checked(name, &smoke);
        rep.count_n("dylib_rebuilds_after_failed_smoke_run", attempts as u64 - 1);
        cases.push((name, case));
    }
    if util::repo_fingerprint() != fp {
        rep.require(false, "the repository under test changed while the simulator dylibs were being compiled; rerun");
        rep.finish("aborted: repository changed during the build phase", false);
        return;
    }
    for (name, case) in &cases {
        let name = *name;
        flows_seen += 1;
        let inputs = replay_inputs(name);
        let jobs: Vec<(Inp, Vec<u8>)> = match &replay {
            Some(c) => {
                let inp = Inp::from_json(&c["input"]).expect("replay input");
                let bytes = c["bytes"].as_array().map(|a| a.iter().map(|b| b.as_u64().unwrap_or(0) as u8).collect()).unwrap_or_default();
                vec![(inp, bytes)]
            }
            None => (0..n_bytes).map(|i| (inputs[i % inputs.len()].clone(), rand_bytes(&mut rng))).collect(),
        };
        for (inp, bytes) in jobs {
            util::arm_abort_report(&prop, None, &json!({"engine": "hv_sim_a", "flow": name, "input": inp.to_json(), "bytes": bytes}), rep.evaluations);
            let r1 = case.repro(&bytes, &inp);
            let r2 = case.repro(&bytes, &inp);
            rep.eval();
            rep.count(&format!("replayed:{name}"));
            let class = match &r1.verdict {
                Verdict::Pass => "verdict:pass",
                Verdict::Assume => "verdict:assumption-failed",
                Verdict::Panic(m) if m.starts_with("boom") => "verdict:test-body-panic",
                Verdict::Panic(_) => "verdict:other-panic",
            };
            rep.count(class);
            let parsed = util::parse_log(&r1.log);
            rep.count_n("log_lines_parsed", parsed.lines as u64);
            rep.count_n("decisions_logged", parsed.events.len() as u64);
            if parsed.events.len() >= 2 {
                rep.nontrivial(hash_of(&(name, &r1.log)));
            }
            if matches!(name, "batch_keyed_ordered" | "batch_keyed_unordered" | "snapshot_keyed_sum" | "net_cluster") && keyed_logs.insert(hash_of(&r1.log)) {
                rep.count("distinct_keyed_logs");
            }
            // which hook types made decisions in this instance (seen in its decision log)
            for (kind, in_tick, cat) in hook_kinds_of(name) {
                let hit = parsed.events.iter().any(|e| match e {
                    util::Event::Tick(notes) => in_tick && notes.iter().any(|n| n.category() == cat),
                    util::Event::Obs(n) => !in_tick && n.category() == cat,
                });
                if hit {
                    *hook_kinds_seen.entry(kind).or_default() += 1;
                }
            }
            if name == "keyed_order_in_tick"
                && let Some(t) = &r1.trace
                && t.iter().any(|tk| {
                    let mut per: std::collections::BTreeMap<i64, usize> = std::collections::BTreeMap::new();
                    for (k, _) in &tk.items {
                        *per.entry(*k).or_default() += 1;
                    }
                    per.values().filter(|c| **c >= 2).count() >= 2
                })
            {
                rep.count("keyed_inline_order_ticks_with_2_keys_x_2_values");
            }
            let base = json!({"engine": "hv_sim_a", "flow": name, "input": inp.to_json(), "bytes": bytes});
            if r1.log != r2.log {
                let l1 = util::strip_ansi(&r1.log);
                let l2 = util::strip_ansi(&r2.log);
                let first_diff = l1.lines().zip(l2.lines()).position(|(a, b)| a != b).unwrap_or(l1.lines().count().min(l2.lines().count()));
                let mut c = base.clone();
                c["first_differing_line"] = json!(first_diff);
                c["log_run1"] = json!(l1);
                c["log_run2"] = json!(l2);
                rep.violation(
                    &format!("C38|replay:{name}|decision-log-differs"),
                    &format!("two runs of fuzz_repro with the same bytes logged different decisions (first difference at line {first_diff})"),
                    c,
                );
            }
            if r1.trace != r2.trace {
                let mut c = base.clone();
                c["trace_run1"] = json!(r1.trace.as_ref().map(trace_json));
                c["trace_run2"] = json!(r2.trace.as_ref().map(trace_json));
                rep.violation(&format!("C38|replay:{name}|outputs-differ"), "two runs of fuzz_repro with the same bytes produced different outputs", c);
            }
            if r1.verdict != r2.verdict {
                let mut c = base.clone();
                c["verdicts"] = json!([format!("{:?}", r1.verdict), format!("{:?}", r2.verdict)]);
                rep.violation(&format!("C38|replay:{name}|verdict-differs"), &format!("two runs with the same bytes ended differently: {:?} vs {:?}", r1.verdict, r2.verdict), c);
            }
            rep.sample(|| json!({"flow": name, "bytes_len": bytes.len(), "verdict": format!("{:?}", r1.verdict), "decisions": parsed.events.len()}));
        }
    }

    rep.extra("hook_kinds_seen_in_logs", json!(hook_kinds_seen));
    if replay.is_none() {
        rep.require(flows_seen == ALL_CASES.len() + REPLAY_EXTRA_CASES.len(), "all corpus flows replayed");
        rep.require(
            hook_kinds_seen.len() == 17,
            "decisions of all 13 SimHook and 4 of the 5 SimInlineHook types seen in the replayed decision logs (KeyedMergeOrderedHook: see cases.rs)",
        );
        rep.require(rep.counter("keyed_inline_order_ticks_with_2_keys_x_2_values") >= 5, "KeyedStreamOrderHook exercised with >= 2 keys of >= 2 values in one tick");
        rep.require(rep.counter("verdict:pass") > 0 && rep.counter("verdict:assumption-failed") > 0 && rep.counter("verdict:test-body-panic") > 0, "all three verdict classes observed");
        rep.require(rep.counter("distinct_keyed_logs") >= 50, "many distinct schedules of the keyed (FxHashMap) flows replayed");
    }
    rep.finish(
        "For each of the 13 corpus flows plus 5 replay-only flows (together exercising 17 of the 18 hook types of sim/runtime.rs - all but the inline KeyedMergeOrderedHook, whose only flow shape crashes the simulator; keyed flows with 3-7 keys and several values per key, a 3-member cluster flow over the simulated network) 200 (5000 thorough) random byte strings of length 0..256 \
         (uniform and low-entropy) are each fed twice to CompiledSim::fuzz_repro with run_with_scheduler_and_logger capturing the decision log. The test bodies of two of the three \
         inputs per flow contain a continue_if! and a failing assertion that depend on the schedule, so all verdict classes (pass / assumption failed / panic) occur. Oracle: \
         byte-identical logs, identical per-tick outputs, identical verdict (including the panic message). Non-trivial = a distinct decision log with at least two decisions.",
        false,
    );
}
