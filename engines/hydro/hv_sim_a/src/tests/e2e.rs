//! End-to-end monitors over the corpus flows: `c36_end_to_end` (decisions logged by the real
//! scheduler are sound and reconcile with what the flow itself emitted per tick) and
//! `c37_end_to_end` (the set of per-tick traces over all executions of exhaustive mode equals a
//! closed-form space).

use std::collections::{BTreeMap, BTreeSet};

use serde_json::json;
use vcommon::{Args, Reporter, Rng, Tier, hash_of};

use super::cases::*;
use super::hooks;
use super::util::{self, Event, Note};

type Bad = Vec<(String, String)>;

fn sorted<T: Ord + Clone>(v: &[T]) -> Vec<T> {
    let mut v = v.to_vec();
    v.sort();
    v
}

fn per_key(items: &[Pair]) -> BTreeMap<i64, Vec<i64>> {
    let mut m: BTreeMap<i64, Vec<i64>> = BTreeMap::new();
    for (k, v) in items {
        m.entry(*k).or_default().push(*v);
    }
    m
}

fn is_interleaving(out: &[i64], a: &[i64], b: &[i64]) -> bool {
    let (mut i, mut j) = (0, 0);
    for x in out {
        if i < a.len() && a[i] == *x {
            i += 1;
        } else if j < b.len() && b[j] == *x {
            j += 1;
        } else {
            return false;
        }
    }
    i == a.len() && j == b.len()
}

/// What the flow's own per-tick output must satisfy if every simulator decision was sound.
/// Inputs use distinct values (and distinct values per side), positive for the sum flows.
pub fn judge_trace(name: &str, inp: &Inp, trace: &Trace) -> Bad {
    let mut bad: Bad = vec![];
    let mut fail = |k: &str, w: String| bad.push((k.to_owned(), w));
    let a_vals: Vec<i64> = inp.a.iter().map(|p| p.1).collect();
    let b_vals: Vec<i64> = inp.b.iter().map(|p| p.1).collect();
    let all_items: Vec<Pair> = trace.iter().flat_map(|t| t.items.iter().copied()).collect();
    let empty_tick = |t: &Tk| t.items.is_empty();
    match name {
        "batch_ordered" | "batch_unordered" | "batch_keyed_ordered" | "batch_keyed_unordered" | "net_cluster" => {
            if let Some(i) = trace.iter().position(empty_tick) {
                fail("tick-released-nothing-new", format!("tick {i} ran with an empty batch: {trace:?}"));
            }
            let expected: Vec<Pair> = if name == "net_cluster" {
                (0..NET_CLUSTER_SIZE as i64).flat_map(|m| a_vals.iter().map(move |v| (m, v * 10))).collect()
            } else {
                inp.a.clone()
            };
            if sorted(&all_items) != sorted(&expected) {
                fail("lost-or-duplicated", format!("items over all ticks {all_items:?} are not a rearrangement of the input {expected:?}"));
            } else if name == "batch_ordered" {
                if all_items != expected {
                    fail("not-a-prefix", format!("ticks concatenate to {all_items:?}, input order is {expected:?}"));
                }
            } else if name == "batch_keyed_ordered" || name == "net_cluster" {
                if per_key(&all_items) != per_key(&expected) {
                    fail("not-a-prefix", format!("per-key order over ticks {:?} differs from the input's {:?}", per_key(&all_items), per_key(&expected)));
                }
            }
        }
        "two_ticks" => {
            if let Some(i) = trace.iter().position(empty_tick) {
                fail("tick-released-nothing-new", format!("tick {i} ran with an empty batch: {trace:?}"));
            }
            for (port, want) in [(0u8, &a_vals), (1u8, &b_vals)] {
                let got: Vec<i64> = trace.iter().filter(|t| t.port == port).flat_map(|t| t.items.iter().map(|p| p.1)).collect();
                if sorted(&got) != sorted(want) {
                    fail("lost-or-duplicated", format!("port {port}: {got:?} is not a rearrangement of {want:?}"));
                } else if &got != want {
                    fail("not-a-prefix", format!("port {port}: ticks concatenate to {got:?}, input order is {want:?}"));
                }
            }
        }
        "snapshot_count" => {
            let n = a_vals.len() as i64;
            let vs: Vec<i64> = trace.iter().map(|t| t.aux.unwrap_or(-1)).collect();
            for w in vs.windows(2) {
                if w[1] < w[0] {
                    fail("snapshot-went-back", format!("count snapshots {vs:?}"));
                } else if w[1] == w[0] {
                    fail("tick-released-nothing-new", format!("a tick re-released count {} : {vs:?}", w[0]));
                }
            }
            if vs.iter().any(|v| *v < 0 || *v > n) {
                fail("snapshot-not-pending", format!("count snapshots {vs:?} outside 0..={n}"));
            }
            if vs.last() != Some(&n) {
                fail("lost-or-duplicated", format!("the final snapshot is {:?}, the final count is {n}", vs.last()));
            }
        }
        "snapshot_keyed_sum" => {
            // versions of key k: prefix sums of its (positive) inputs
            let mut versions: BTreeMap<i64, Vec<i64>> = BTreeMap::new();
            for (k, vs) in per_key(&inp.a) {
                let mut acc = 0;
                versions.insert(k, vs.iter().map(|v| { acc += v; acc }).collect());
            }
            let mut last: BTreeMap<i64, usize> = BTreeMap::new();
            for (i, t) in trace.iter().enumerate() {
                let mut any_new = false;
                let mut seen = BTreeSet::new();
                for (k, v) in &t.items {
                    if !seen.insert(*k) {
                        fail("snapshot-dup-key", format!("tick {i}: key {k} twice in {:?}", t.items));
                    }
                    match versions.get(k).and_then(|vs| vs.iter().position(|x| x == v)) {
                        None => fail("snapshot-not-pending", format!("tick {i}: key {k} has value {v}, versions are {:?}", versions.get(k))),
                        Some(idx) => {
                            match last.get(k) {
                                Some(l) if idx < *l => fail("snapshot-went-back", format!("tick {i}: key {k} went from version {l} back to {idx}")),
                                Some(l) if idx == *l => {}
                                _ => any_new = true,
                            }
                            last.insert(*k, idx);
                        }
                    }
                }
                for k in last.keys() {
                    if !seen.contains(k) {
                        fail("snapshot-key-vanished", format!("tick {i}: key {k} was in an earlier snapshot but not in {:?}", t.items));
                    }
                }
                if !any_new {
                    fail("tick-released-nothing-new", format!("tick {i} released no new version: {:?}", t.items));
                }
            }
            for (k, vs) in &versions {
                if last.get(k) != Some(&(vs.len() - 1)) {
                    fail("lost-or-duplicated", format!("key {k}: last snapshot version {:?}, final version {}", last.get(k), vs.len() - 1));
                }
            }
        }
        "batch_with_snapshot" | "batch_with_fold_snapshot" => {
            let got: Vec<i64> = all_items.iter().map(|p| p.1).collect();
            if sorted(&got) != sorted(&a_vals) {
                fail("lost-or-duplicated", format!("batches {got:?} are not a rearrangement of {a_vals:?}"));
            } else if got != a_vals {
                fail("not-a-prefix", format!("batches concatenate to {got:?}, input order is {a_vals:?}"));
            }
            let snaps: Vec<i64> = trace.iter().map(|t| t.aux.unwrap_or(-1)).collect();
            let fin: i64 = if name == "batch_with_snapshot" { b_vals.len() as i64 } else { b_vals.iter().sum() };
            for (i, w) in snaps.windows(2).enumerate() {
                if w[1] < w[0] {
                    fail("snapshot-went-back", format!("snapshots {snaps:?}"));
                }
                if w[1] == w[0] && trace[i + 1].items.is_empty() {
                    fail("tick-released-nothing-new", format!("tick {} has an empty batch and an unchanged snapshot: {trace:?}", i + 1));
                }
            }
            if !trace.is_empty() && snaps.last() != Some(&fin) {
                fail("lost-or-duplicated", format!("final snapshot {:?}, final value {fin}", snaps.last()));
            }
        }
        "fold_unordered" => {
            let vs: Vec<Vec<i64>> = trace.iter().map(|t| t.items.iter().map(|p| p.1).collect()).collect();
            for w in vs.windows(2) {
                if w[1].len() < w[0].len() || w[1][..w[0].len()] != w[0][..] {
                    fail("snapshot-went-back", format!("accumulator {:?} is not an extension of the earlier snapshot {:?}", w[1], w[0]));
                } else if w[1].len() == w[0].len() {
                    fail("tick-released-nothing-new", format!("a tick re-released accumulator {:?}", w[0]));
                }
            }
            match vs.last() {
                Some(l) if sorted(l) == sorted(&a_vals) => {}
                other => fail("lost-or-duplicated", format!("final accumulator {other:?} is not a rearrangement of {a_vals:?}")),
            }
        }
        "top_order" => {
            let got: Vec<i64> = all_items.iter().map(|p| p.1).collect();
            if sorted(&got) != sorted(&a_vals) {
                fail("lost-or-duplicated", format!("output {got:?} is not a rearrangement of {a_vals:?}"));
            }
        }
        "top_merge" => {
            let got: Vec<i64> = all_items.iter().map(|p| p.1).collect();
            if sorted(&got) != sorted(&[a_vals.clone(), b_vals.clone()].concat()) {
                fail("lost-or-duplicated", format!("output {got:?} is not a rearrangement of {a_vals:?} + {b_vals:?}"));
            } else if !is_interleaving(&got, &a_vals, &b_vals) {
                fail("not-a-prefix", format!("output {got:?} does not keep the order of {a_vals:?} and {b_vals:?}"));
            }
        }
        other => panic!("no trace oracle for {other}"),
    }
    bad
}

fn flat_pairs(items: &[Pair], keyed: bool) -> Vec<i64> {
    if keyed { items.iter().flat_map(|(k, v)| [*k, *v]).collect() } else { items.iter().map(|p| p.1).collect() }
}

fn pairs_of(nums: &[i64]) -> Vec<Pair> {
    nums.chunks(2).filter(|c| c.len() == 2).map(|c| (c[0], c[1])).collect()
}

/// The decision log of one instance judged on its own and against the flow's per-tick output.
pub fn judge_log(name: &str, trace: &Trace, log: &util::ParsedLog, complete: bool) -> Bad {
    let mut bad: Bad = vec![];
    let mut fail = |k: &str, w: String| bad.push((k.to_owned(), w));
    let keyed = matches!(name, "batch_keyed_ordered" | "batch_keyed_unordered" | "snapshot_keyed_sum" | "net_cluster");

    // every scheduled tick released at least one new item or snapshot
    for (i, e) in log.events.iter().enumerate() {
        if let Event::Tick(notes) = e {
            let releases: Vec<&Note> = notes.iter().filter(|n| n.is_release()).collect();
            if !releases.iter().any(|n| n.releases_new()) {
                fail("tick-released-nothing-new", format!("event {i}: a tick was scheduled but its hooks logged {releases:?}"));
            }
        }
    }
    if !complete {
        return bad;
    }

    let ticks = log.ticks();
    let has_ticks = !matches!(name, "top_order" | "top_merge");
    if has_ticks && ticks.len() != trace.len() {
        fail("log-vs-output", format!("{} ticks logged but the flow emitted {} per-tick outputs", ticks.len(), trace.len()));
        return bad;
    }
    if has_ticks {
        for (i, (notes, tk)) in ticks.iter().zip(trace).enumerate() {
            for n in notes.iter() {
                match n {
                    Note::NoItems => {
                        if name != "batch_with_snapshot" && name != "batch_with_fold_snapshot" {
                            fail("log-vs-output", format!("tick {i}: 'releasing no items' in a single-input tick"));
                        } else if !tk.items.is_empty() {
                            fail("log-vs-output", format!("tick {i}: log says no items, flow saw {:?}", tk.items));
                        }
                    }
                    Note::Items { unordered, nums, truncated } => {
                        if *truncated {
                            continue;
                        }
                        let seen = flat_pairs(&tk.items, keyed);
                        let same = if keyed {
                            // MemberId keys print as their raw id, values as sent
                            let logged = pairs_of(nums);
                            sorted(&logged) == sorted(&tk.items) && (*unordered || per_key(&logged) == per_key(&tk.items))
                        } else if *unordered {
                            sorted(nums) == sorted(&seen)
                        } else {
                            *nums == seen
                        };
                        if !same {
                            fail("log-vs-output", format!("tick {i}: log released {nums:?} (unordered={unordered}) but the flow's batch is {:?}", tk.items));
                        }
                    }
                    Note::KeyedSnap { entries } => {
                        let logged: Vec<Pair> = entries.iter().map(|e| (e.0, e.1)).collect();
                        if sorted(&logged) != sorted(&tk.items) {
                            fail("log-vs-output", format!("tick {i}: log released snapshot {logged:?} but the flow saw {:?}", tk.items));
                        }
                    }
                    Note::Snapshot { value, .. } => {
                        let same = if name == "fold_unordered" {
                            *value == flat_pairs(&tk.items, false)
                        } else {
                            value.len() == 1 && Some(value[0]) == tk.aux
                        };
                        if !same {
                            fail("log-vs-output", format!("tick {i}: log released snapshot {value:?} but the flow saw items {:?} aux {:?}", tk.items, tk.aux));
                        }
                    }
                    Note::Observed { nums, .. } => {
                        // the observer's order is exactly what `collect_vec` saw
                        if *nums != flat_pairs(&tk.items, keyed) {
                            fail("log-vs-output", format!("tick {i}: observer logged order {nums:?} but the flow's batch is {:?}", tk.items));
                        }
                    }
                    Note::FoldBatch { .. } | Note::Other(_) => {}
                }
            }
        }
    }
    // top-level observations
    let obs: Vec<&Note> = log.events.iter().filter_map(|e| if let Event::Obs(n) = e { Some(n) } else { None }).collect();
    match name {
        "top_order" | "top_merge" => {
            let logged: Vec<i64> = obs.iter().flat_map(|n| if let Note::Observed { nums, .. } = n { nums.clone() } else { vec![] }).collect();
            let seen: Vec<i64> = trace.iter().flat_map(|t| t.items.iter().map(|p| p.1)).collect();
            if logged != seen {
                fail("log-vs-output", format!("top-level releases logged {logged:?} but the flow emitted {seen:?}"));
            }
            if obs.iter().any(|n| matches!(n, Note::Observed { nums, .. } if nums.len() != 1)) {
                fail("more-than-one", format!("a one-at-a-time observation released several items: {obs:?}"));
            }
        }
        "fold_unordered" => {
            // each snapshot equals the concatenation of the fold batches released before it
            let mut acc: Vec<i64> = vec![];
            let mut ti = 0;
            for e in &log.events {
                match e {
                    Event::Obs(Note::FoldBatch { nums }) => {
                        if nums.is_empty() {
                            fail("tick-released-nothing-new", "the fold hook logged an empty batch".to_owned());
                        }
                        acc.extend(nums);
                    }
                    Event::Tick(_) => {
                        if let Some(tk) = trace.get(ti)
                            && flat_pairs(&tk.items, false) != acc
                        {
                            fail("log-vs-output", format!("snapshot {ti} is {:?} but the fold batches released so far concatenate to {acc:?}", tk.items));
                        }
                        ti += 1;
                    }
                    _ => {}
                }
            }
        }
        _ => {}
    }
    bad
}

fn rand_bytes(rng: &mut Rng) -> Vec<u8> {
    let n = match rng.below(8) {
        0 => rng.below(4),
        1 => 4 + rng.below(12),
        _ => 16 + rng.below(112),
    };
    (0..n).map(|_| rng.next_u64() as u8).collect()
}

/// Inputs per corpus flow: (small inputs for exhaustive mode, larger inputs for byte-driven runs).
pub fn inputs_for(name: &str, thorough: bool) -> (Vec<Inp>, Vec<Inp>) {
    let k = |v: &[(i64, i64)]| Inp::keyed(v);
    match name {
        "batch_ordered" | "batch_unordered" | "top_order" => (
            (1..=if thorough { 5 } else { 4 }).map(|n| Inp::flat(&(1..=n).collect::<Vec<i64>>())).collect(),
            vec![Inp::flat(&[1, 2, 3, 4, 5, 6])],
        ),
        "fold_unordered" => (
            (1..=if thorough { 4 } else { 3 }).map(|n| Inp::flat(&(1..=n).collect::<Vec<i64>>())).collect(),
            vec![Inp::flat(&[1, 2, 3, 4, 5])],
        ),
        "snapshot_count" => (
            // the last input (10, thorough 12 items) makes 11 / 13 versions pending before the first tick
            (1..=if thorough { 6 } else { 4 }).chain([if thorough { 12 } else { 10 }]).map(|n| Inp::flat(&(1..=n).collect::<Vec<i64>>())).collect(),
            vec![Inp::flat(&[1, 2, 3, 4, 5, 6])],
        ),
        "batch_keyed_ordered" | "batch_keyed_unordered" => (
            vec![k(&[(1, 1)]), k(&[(1, 1), (2, 2)]), k(&[(1, 1), (1, 2)]), k(&[(1, 1), (2, 2), (1, 3)]), k(&[(1, 1), (2, 2), (3, 3)])],
            vec![k(&[(1, 1), (2, 2), (1, 3), (3, 4), (2, 5), (4, 6), (5, 7), (6, 8)])],
        ),
        "snapshot_keyed_sum" => (
            vec![k(&[(1, 1)]), k(&[(1, 1), (2, 2)]), k(&[(1, 1), (1, 2)]), k(&[(1, 1), (2, 2), (1, 4)])],
            vec![k(&[(1, 1), (2, 2), (1, 4), (3, 8), (2, 16), (4, 32), (5, 64)])],
        ),
        "two_ticks" | "top_merge" => (
            vec![Inp::flat2(&[1], &[11]), Inp::flat2(&[1, 2], &[11]), Inp::flat2(&[1], &[11, 12]), Inp::flat2(&[1, 2], &[11, 12])],
            vec![Inp::flat2(&[1, 2, 3], &[11, 12, 13])],
        ),
        "batch_with_snapshot" | "batch_with_fold_snapshot" => (
            vec![Inp::flat2(&[1], &[1]), Inp::flat2(&[1, 2], &[1]), Inp::flat2(&[1, 2], &[1, 2])],
            vec![Inp::flat2(&[1, 2, 3], &[1, 2, 4])],
        ),
        "net_cluster" => (vec![Inp::flat(&[1]), Inp::flat(&[1, 2])], vec![Inp::flat(&[1, 2, 3])]),
        other => panic!("no inputs for {other}"),
    }
}

fn panic_class(msg: &str) -> &'static str {
    if msg.contains("No decision to release") || msg.contains("attempt to subtract with overflow") {
        // `run_hooks` reached a hook that has no decision to release (with overflow checks on,
        // its remaining_decision_count underflows first)
        "panic:run_hooks-no-decision"
    } else if msg.contains("step cap") {
        // ticks / observations keep being scheduled although nothing new is left to release
        "tick-released-nothing-new|step-cap"
    } else if msg.contains("Stream ended") {
        "panic:stream ended early"
    } else if msg == "test failed" {
        "panic:exhaustive run reported a failing instance"
    } else {
        "panic:other"
    }
}

pub fn c36_end_to_end() {
    let args = Args::from_env();
    let prop = if args.prop.is_empty() { "C36".to_owned() } else { args.prop.clone() };
    let mut rep = Reporter::new(&prop, args.seed);
    let thorough = args.tier == Tier::Thorough;
    let replay = args.replay_case();
    let mut rng = args.rng();
    let n_bytes = args.budget(150, 3000, 5);
    let mut flows_seen = 0;

    // compile every flow first: the dylibs must be built against the same repository state as
    // this test binary (see `repo_fingerprint`)
    let fp = util::repo_fingerprint();
    let mut cases = vec![];
    for name in ALL_CASES {
        if let Some(c) = &replay
            && c.get("flow").and_then(|f| f.as_str()) != Some(name)
        {
            continue;
        }
        util::arm_abort_report(&prop, None, &json!({"phase": "compiling and smoke-running the simulator dylib (a crash here usually means another process replaced the freshly built dylib)", "flow": name}), 0);
        let (case, attempts) = build_case_checked(name, &inputs_for(name, thorough).0[0]);
        rep.count_n("dylib_rebuilds_after_failed_smoke_run", attempts as u64 - 1);
        cases.push((name, case));
    }
    if util::repo_fingerprint() != fp {
        rep.require(false, "the repository under test changed while the simulator dylibs were being compiled; rerun");
        rep.finish("aborted: repository changed during the build phase", false);
        return;
    }
    for (name, case) in &cases {
        let name = *name;
        flows_seen += 1;
        let (small, large) = inputs_for(name, thorough);

        // (1) every instance of exhaustive mode, judged on the flow's own per-tick output
        for inp in &small {
            if let Some(c) = &replay {
                if c.get("mode").and_then(|m| m.as_str()) != Some("exhaustive") || Inp::from_json(&c["input"]).as_ref() != Some(inp) {
                    continue;
                }
            }
            let base = json!({"engine": "hv_sim_a", "flow": name, "mode": "exhaustive", "input": inp.to_json()});
            util::arm_abort_report(&prop, Some(&format!("C36|e2e:{name}|simulator-abort")), &base, rep.evaluations);
            let (traces, n, err) = case.exhaustive(inp);
            rep.count_n("executions_enumerated", n as u64);
            rep.count_n(&format!("executions:{name}"), n as u64);
            if let Some(e) = err {
                rep.violation(
                    &format!("C36|e2e:{name}|{}", panic_class(&e)),
                    &format!("CompiledSim::exhaustive failed after {} instances: {e} (the simulator's own report is in the log)", traces.len()),
                    base.clone(),
                );
            }
            for t in &traces {
                rep.eval();
                rep.nontrivial(hash_of(&(name, inp, t)));
                for (fk, what) in judge_trace(name, inp, t) {
                    let mut c = base.clone();
                    c["trace"] = trace_json(t);
                    rep.violation(&format!("C36|e2e:{name}|{fk}|exhaustive"), &what, c);
                }
            }
        }

        // (2) byte-driven instances with the decision log captured and parsed
        for inp in small.iter().rev().take(1).chain(large.iter()) {
            let byte_strings: Vec<Vec<u8>> = match &replay {
                Some(c) => {
                    if c.get("mode").and_then(|m| m.as_str()) != Some("bytes") || Inp::from_json(&c["input"]).as_ref() != Some(inp) {
                        continue;
                    }
                    vec![c["bytes"].as_array().map(|a| a.iter().map(|b| b.as_u64().unwrap_or(0) as u8).collect()).unwrap_or_default()]
                }
                None => (0..n_bytes).map(|_| rand_bytes(&mut rng)).collect(),
            };
            let mut distinct_logs = BTreeSet::new();
            for bytes in byte_strings {
                let base = json!({"engine": "hv_sim_a", "flow": name, "mode": "bytes", "input": inp.to_json(), "bytes": bytes});
                util::arm_abort_report(&prop, Some(&format!("C36|e2e:{name}|simulator-abort")), &base, rep.evaluations);
                let run = case.repro(&bytes, inp);
                rep.eval();
                rep.count("byte_driven_instances");
                let parsed = util::parse_log(&run.log);
                rep.count_n("log_lines_parsed", parsed.lines as u64);
                rep.count_n("ticks_in_logs", parsed.ticks().len() as u64);
                if !parsed.malformed.is_empty() {
                    rep.count("log_notes_unparsed");
                    rep.extra("unparsed_note_example", json!(parsed.malformed[0]));
                }
                let complete = match &run.verdict {
                    Verdict::Pass => true,
                    Verdict::Assume => false,
                    Verdict::Panic(m) => {
                        let mut c = base.clone();
                        c["log"] = json!(util::strip_ansi(&run.log));
                        rep.violation(&format!("C36|e2e:{name}|{}", panic_class(m)), &format!("the simulated instance panicked: {m}"), c);
                        false
                    }
                };
                let trace = run.trace.clone().unwrap_or_default();
                if complete {
                    for (fk, what) in judge_trace(name, inp, &trace) {
                        let mut c = base.clone();
                        c["trace"] = trace_json(&trace);
                        rep.violation(&format!("C36|e2e:{name}|{fk}|bytes"), &what, c);
                    }
                }
                for (fk, what) in judge_log(name, &trace, &parsed, complete) {
                    let mut c = base.clone();
                    c["trace"] = trace_json(&trace);
                    c["log"] = json!(util::strip_ansi(&run.log));
                    rep.violation(&format!("C36|e2e:{name}|{fk}|log"), &what, c);
                }
                if distinct_logs.insert(hash_of(&run.log)) {
                    rep.nontrivial(hash_of(&(name, inp, &run.log)));
                    rep.count(&format!("distinct_logs:{name}"));
                }
                rep.sample(|| json!({"flow": name, "input": inp.to_json(), "trace": trace_json(&trace), "log": util::strip_ansi(&run.log)}));
            }
        }
    }

    rep.extra("max_scheduler_steps_per_instance", json!(MAX_POLLS.load(std::sync::atomic::Ordering::Relaxed)));
    if replay.is_none() {
        rep.require(flows_seen == ALL_CASES.len(), "all corpus flows ran");
        rep.require(rep.counter("log_notes_unparsed") == 0, "every decision note of every log was understood by the parser");
        rep.require(rep.counter("ticks_in_logs") > 500, "ticks parsed from decision logs");
        rep.require(rep.counter("executions_enumerated") > 300, "exhaustive instances judged");
    }
    rep.finish(
        "13 corpus flows (ordered / unordered / keyed batches, count and keyed-sum snapshots, two independent ticks, a two-hook tick, a tick mixing a batch with a snapshot of a \
         top-level commutative fold, a fold over unordered input, top-level ordering and ordered merge, process->cluster->process) emit what each tick received. (1) Every instance of \
         CompiledSim::exhaustive on inputs of <= 4 items (<= 6 thorough) is judged on that output: no empty tick, prefix / per-key prefix / rearrangement of the input, snapshot \
         versions never older, final snapshot is the final value. (2) 150 (3000 thorough) random byte strings per flow and input drive fuzz_repro with run_with_scheduler_and_logger; \
         the log is parsed ('Running Tick', 'releasing ...', 'observed ...', 'fold input batch') and judged: every scheduled tick logs at least one new item or snapshot, and per tick \
         the logged release equals the flow's own batch / snapshot. Non-trivial = distinct (flow, input, trace) resp. distinct decision log.",
        false,
    );
}

// ---------------------------------------------------------------------------------------------
// C37

/// Canonical per-tick trace for set comparison (unordered batches are compared as sets).
fn canon_trace(name: &str, t: &Trace) -> Trace {
    t.iter()
        .map(|tk| {
            let mut tk = tk.clone();
            match name {
                "batch_unordered" | "batch_keyed_unordered" => tk.items.sort(),
                // the observer may interleave keys; within a key the order is the hook's
                "batch_keyed_ordered" => tk.items.sort_by_key(|p| p.0),
                _ => {}
            }
            tk
        })
        .collect()
}

fn tk(port: u8, vals: &[i64]) -> Tk {
    Tk { port, items: vals.iter().map(|v| (0, *v)).collect(), aux: None }
}

/// The closed-form space of per-tick traces of exhaustive mode.
fn expected_traces(name: &str, inp: &Inp) -> (Vec<Trace>, &'static str) {
    let a: Vec<i64> = inp.a.iter().map(|p| p.1).collect();
    let b: Vec<i64> = inp.b.iter().map(|p| p.1).collect();
    match name {
        "batch_ordered" => (
            util::compositions(&a).into_iter().map(|c| c.iter().map(|blk| tk(0, blk)).collect()).collect(),
            "all 2^(n-1) compositions of the input into non-empty consecutive batches",
        ),
        "batch_unordered" => (
            util::ordered_set_partitions(&a).into_iter().map(|c| c.iter().map(|blk| tk(0, blk)).collect()).collect(),
            "all ordered set partitions of the input (Fubini numbers 1, 3, 13, 75, 541); batches compared as sets",
        ),
        "two_ticks" => {
            let mut out = vec![];
            for ca in util::compositions(&a) {
                for cb in util::compositions(&b) {
                    let sa: Vec<Tk> = ca.iter().map(|blk| tk(0, blk)).collect();
                    let sb: Vec<Tk> = cb.iter().map(|blk| tk(1, blk)).collect();
                    out.extend(util::interleavings(&sa, &sb));
                }
            }
            (out, "every composition of each tick's input, in every interleaving of the two ticks")
        }
        "top_order" => (
            util::permutations(&a).into_iter().map(|p| p.iter().map(|v| tk(0, &[*v])).collect()).collect(),
            "all n! orders",
        ),
        "top_merge" => (
            util::interleavings(&a, &b).into_iter().map(|p| p.iter().map(|v| tk(0, &[*v])).collect()).collect(),
            "all C(a+b, a) order-preserving interleavings",
        ),
        "snapshot_count" => {
            // versions 0..=n are all pending before the first tick; each tick takes a newer one,
            // the last tick takes version n
            let n = a.len() as i64;
            let inner: Vec<i64> = (0..n).collect();
            let out = util::subsets(&inner, true)
                .into_iter()
                .map(|(sel, _)| sel.iter().chain([n].iter()).map(|v| Tk { port: 0, items: vec![], aux: Some(*v) }).collect())
                .collect();
            (out, "every increasing sequence of versions 0..=n that ends with n (2^n)")
        }
        "fold_unordered" => {
            // the accumulator is a growing prefix of some permutation; snapshots may skip
            // versions but the last one is the complete accumulator; the initial (empty)
            // accumulator is observable before the first fold release
            let mut out = vec![];
            let n = a.len();
            for p in util::permutations(&a) {
                let inner: Vec<usize> = (1..n).collect();
                for (cuts, _) in util::subsets(&inner, true) {
                    for with_empty in [false, true] {
                        let mut t: Trace = vec![];
                        if with_empty {
                            t.push(tk(0, &[]));
                        }
                        for c in cuts.iter().chain([n].iter()) {
                            t.push(tk(0, &p[..*c]));
                        }
                        out.push(t);
                    }
                }
            }
            (out, "n! * 2^(n-1) * 2: growing prefixes of every permutation ending with the full one, with or without the initial empty accumulator")
        }
        "batch_keyed_ordered" | "batch_keyed_unordered" => {
            let kind = if name == "batch_keyed_ordered" { hooks::Kind::KeyedTotal } else { hooks::Kind::KeyedNo };
            let spec = hooks::Spec { kind, script: hooks::Script::Drain(inp.a.iter().map(|(k, v)| (0u8, *k as u32, *v)).collect()) };
            let out = hooks::reference_outcomes(&spec)
                .into_iter()
                .map(|o| {
                    // drop the final trivial round of the drain script (no tick runs for it)
                    let rounds = &o[..o.len() - 1];
                    rounds.iter().map(|(rel, _)| Tk { port: 0, items: rel.iter().map(|(k, v)| (*k as i64, *v)).collect(), aux: None }).collect()
                })
                .collect();
            (out, "every sequence of non-empty per-key prefix (ordered) / subset (unordered) products that drains the input")
        }
        other => panic!("no closed form for {other}"),
    }
}

pub const C37_CASES: [&str; 9] = [
    "batch_ordered",
    "batch_unordered",
    "two_ticks",
    "top_order",
    "top_merge",
    "snapshot_count",
    "fold_unordered",
    "batch_keyed_ordered",
    "batch_keyed_unordered",
];

pub fn c37_end_to_end() {
    let args = Args::from_env();
    let prop = if args.prop.is_empty() { "C37".to_owned() } else { args.prop.clone() };
    let mut rep = Reporter::new(&prop, args.seed);
    let thorough = args.tier == Tier::Thorough;
    let replay = args.replay_case();
    let mut flows_seen = 0;
    let mut table: BTreeMap<String, serde_json::Value> = BTreeMap::new();

    let fp = util::repo_fingerprint();
    let mut cases = vec![];
    for name in C37_CASES {
        if let Some(c) = &replay
            && c.get("flow").and_then(|f| f.as_str()) != Some(name)
        {
            continue;
        }
        util::arm_abort_report(&prop, None, &json!({"phase": "compiling and smoke-running the simulator dylib (a crash here usually means another process replaced the freshly built dylib)", "flow": name}), 0);
        let (case, attempts) = build_case_checked(name, &inputs_for(name, thorough).0[0]);
        rep.count_n("dylib_rebuilds_after_failed_smoke_run", attempts as u64 - 1);
        cases.push((name, case));
    }
    if util::repo_fingerprint() != fp {
        rep.require(false, "the repository under test changed while the simulator dylibs were being compiled; rerun");
        rep.finish("aborted: repository changed during the build phase", false);
        return;
    }
    for (name, case) in &cases {
        let name = *name;
        flows_seen += 1;
        let (small, _) = inputs_for(name, thorough);
        for inp in &small {
            if let Some(c) = &replay
                && Inp::from_json(&c["input"]).as_ref() != Some(inp)
            {
                continue;
            }
            let base = json!({"engine": "hv_sim_a", "flow": name, "mode": "exhaustive", "input": inp.to_json()});
            util::arm_abort_report(&prop, None, &base, rep.evaluations);
            let (traces, n, err) = case.exhaustive(inp);
            rep.eval();
            rep.count_n("executions_enumerated", n as u64);
            if err.is_some() {
                // a crashing instance is C36's business; the space cannot be compared
                rep.count("inputs_skipped_instance_failed");
                continue;
            }
            let observed: BTreeSet<Trace> = traces.iter().map(|t| canon_trace(name, t)).collect();
            let (exp, rule) = expected_traces(name, inp);
            let expected: BTreeSet<Trace> = exp.iter().map(|t| canon_trace(name, t)).collect();
            rep.count_n("distinct_outcomes", observed.len() as u64);
            if expected.len() > 1 {
                rep.nontrivial(hash_of(&(name, inp)));
            }
            table.insert(
                format!("{name} a={} b={}", inp.a.len(), inp.b.len()),
                json!({"executions": n, "distinct_traces": observed.len(), "expected": expected.len(), "rule": rule}),
            );
            let missing: Vec<&Trace> = expected.difference(&observed).collect();
            let extra: Vec<&Trace> = observed.difference(&expected).collect();
            if !missing.is_empty() {
                let mut c = base.clone();
                c["missing_example"] = trace_json(missing[0]);
                rep.violation(
                    &format!("C37|e2e:{name}|schedule-never-explored"),
                    &format!("{} of {} per-tick traces ({rule}) are never produced by exhaustive mode ({} instances, {} distinct), e.g. {:?}", missing.len(), expected.len(), n, observed.len(), missing[0]),
                    c,
                );
            }
            if !extra.is_empty() {
                let mut c = base.clone();
                c["extra_example"] = trace_json(extra[0]);
                rep.violation(
                    &format!("C37|e2e:{name}|trace-outside-closed-form"),
                    &format!("{} observed per-tick traces are outside the closed-form space ({rule}), e.g. {:?}", extra.len(), extra[0]),
                    c,
                );
            }
            rep.sample(|| json!({"flow": name, "input": inp.to_json(), "executions": n, "distinct_traces": observed.len(), "expected": expected.len()}));
        }
    }
    rep.extra("outcome_spaces", json!(table));
    if replay.is_none() {
        rep.require(flows_seen == C37_CASES.len(), "all flows with a closed-form outcome space ran");
        rep.require(rep.counter("inputs_skipped_instance_failed") == 0, "no instance failed");
        rep.require(rep.distinct_count() >= 20, "inputs with more than one expected trace");
    }
    rep.finish(
        "Flows whose per-tick trace space is known in closed form are run under CompiledSim::exhaustive with all input sent before the first scheduler step; the set of traces \
         (each tick emits its batch as a Vec; unordered batches compared as sets) over all instances must equal: ordered batch of n -> 2^(n-1) compositions; unordered -> ordered \
         set partitions (1,3,13,75); two ready ticks -> compositions of each in every interleaving; top-level ordering -> n! orders; ordered merge -> C(a+b,a) interleavings; \
         count snapshots with versions 0..n pending -> 2^n increasing version sequences ending in n; fold over unordered input -> n!*2^(n-1)*2 growing prefixes; keyed batches -> \
         draining products of per-key prefixes / subsets. n <= 4 (quick) / 5-6 (thorough). The simulator may use more instances than distinct traces (inline observer permutations, \
         schedules that only differ in unobserved fold batching); those collapse in the set. Non-trivial = an input with more than one expected trace.",
        true,
    );
}
