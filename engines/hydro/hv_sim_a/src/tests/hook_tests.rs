//! Hook-level monitors: `c36_hooks` (every decision is sound) and `c37_hooks` (the set of
//! decisions reached by the exhaustive engine is complete and free of duplicates).

use std::collections::BTreeMap;

use serde_json::json;
use vcommon::{Args, Reporter, Tier, hash_of};

use super::hooks::*;

/// Items 1..=n for side 0, 101.. for side 1 (so the side of an item is recoverable).
fn flat_arr(n: usize, side: u8, start: i64) -> Vec<Arr> {
    (0..n).map(|i| (side, 0, start + i as i64 + if side == 1 { 100 } else { 0 })).collect()
}

/// Every sequence of keys (1..=nkeys) of length `len`, items numbered `start..` in arrival order.
fn keyed_seqs(len: usize, nkeys: u32, side: u8, start: i64) -> Vec<Vec<Arr>> {
    let mut out: Vec<Vec<Arr>> = vec![vec![]];
    for i in 0..len {
        let mut next = vec![];
        for p in &out {
            for k in 1..=nkeys {
                let mut q = p.clone();
                q.push((side, k, start + i as i64 + if side == 1 { 100 } else { 0 }));
                next.push(q);
            }
        }
        out = next;
    }
    out
}

/// Arrival sets for one hook kind: (first batch, optional second batch).
fn arrivals(kind: Kind, max_items: usize, thorough: bool) -> Vec<(Vec<Arr>, Vec<Arr>)> {
    let mut out = vec![];
    if kind.two_sided() {
        let nkeys = if kind.keyed() { 2 } else { 1 };
        for a in 0..=max_items {
            for b in 0..=(max_items - a) {
                if kind.keyed() {
                    if a + b > 3 && !thorough {
                        continue;
                    }
                    for sa in keyed_seqs(a, nkeys, 0, 1) {
                        for sb in keyed_seqs(b, nkeys, 1, 1) {
                            let mut v = sa.clone();
                            v.extend(sb);
                            out.push((v, vec![]));
                        }
                    }
                } else {
                    let mut v = flat_arr(a, 0, 1);
                    v.extend(flat_arr(b, 1, 1));
                    out.push((v, vec![]));
                }
            }
        }
        // second phase: one more item on each side
        if kind.keyed() {
            out.push((vec![(0, 1, 1), (1, 1, 101)], vec![(0, 2, 2), (1, 1, 102)]));
        } else {
            out.push((vec![(0, 0, 1), (1, 0, 101)], vec![(0, 0, 2), (1, 0, 102)]));
        }
    } else if kind.keyed() {
        for n in 0..=max_items {
            for s in keyed_seqs(n, 2, 0, 1) {
                out.push((s, vec![]));
            }
        }
        for n in 1..=3usize.min(max_items) {
            for s in keyed_seqs(n, 3, 0, 1) {
                if s.iter().any(|a| a.1 == 3) {
                    out.push((s, vec![]));
                }
            }
        }
        // many keys (FxHashMap iteration order is arbitrary but fixed)
        out.push(((1..=5).map(|k| (0u8, k as u32 * 7, k as i64)).collect(), vec![]));
        // two phases
        for a in 1..=2usize {
            for b in 1..=2usize {
                for sa in keyed_seqs(a, 2, 0, 1) {
                    for sb in keyed_seqs(b, 2, 0, 1 + a as i64) {
                        out.push((sa.clone(), sb));
                    }
                }
            }
        }
    } else {
        for n in 0..=max_items {
            out.push((flat_arr(n, 0, 1), vec![]));
        }
        for a in 0..=3usize {
            for b in 1..=(3 - a.min(2)).min(3) {
                if a + b <= 4 {
                    out.push((flat_arr(a, 0, 1), flat_arr(b, 0, 1 + a as i64)));
                }
            }
        }
    }
    out
}

pub fn hook_specs(tier: Tier) -> Vec<Spec> {
    let thorough = tier == Tier::Thorough;
    let mut specs = vec![];
    for kind in ALL_KINDS {
        let max_items = match (kind, thorough) {
            (Kind::TopFold, false) => 4,
            (Kind::TopFold, true) => 5,
            (k, false) if k.keyed() => 4,
            (k, true) if k.keyed() => 5,
            (_, false) => 4,
            (_, true) => 6,
        };
        for (first, second) in arrivals(kind, max_items, thorough) {
            if second.is_empty() {
                specs.push(Spec { kind, script: Script::Rounds(vec![(first.clone(), false)]) });
                if !first.is_empty() {
                    specs.push(Spec { kind, script: Script::Rounds(vec![(first.clone(), true)]) });
                    specs.push(Spec { kind, script: Script::Drain(first.clone()) });
                }
            } else {
                for (f1, f2) in [(false, false), (true, false), (false, true), (true, true)] {
                    specs.push(Spec {
                        kind,
                        script: Script::Rounds(vec![(first.clone(), f1), (second.clone(), f2), (vec![], false), (vec![], true)]),
                    });
                }
            }
        }
    }
    specs.extend(large_specs());
    specs
}

/// Long queues for the hooks whose single decision has only `len`-many outcomes (snapshot versions,
/// prefix lengths): sizes 5..=12 plus 16 and 33, to cross constants a lookback / batching limit
/// might use. Every version index / prefix length must be reachable as the first release.
fn large_specs() -> Vec<Spec> {
    let mut specs = vec![];
    let sizes: Vec<usize> = (5..=12).chain([16, 33]).collect();
    for &n in &sizes {
        for kind in [Kind::Singleton, Kind::Passthrough, Kind::StreamTotal] {
            for force in [false, true] {
                specs.push(Spec { kind, script: Script::Rounds(vec![(flat_arr(n, 0, 1), force)]) });
            }
        }
        // a second, unforced decision after the first release (re-release or any newer version)
        specs.push(Spec { kind: Kind::Singleton, script: Script::Rounds(vec![(flat_arr(n, 0, 1), true), (vec![], false)]) });
        if n <= 12 {
            specs.push(Spec { kind: Kind::StreamTotal, script: Script::Drain(flat_arr(n, 0, 1)) });
        }
    }
    for (n, m) in [(12usize, 1usize), (9, 3), (16, 2), (33, 1)] {
        let mut arr: Vec<Arr> = (0..n).map(|i| (0u8, 1u32, 1 + i as i64)).collect();
        arr.extend((0..m).map(|i| (0u8, 2u32, 1 + (n + i) as i64)));
        for force in [false, true] {
            specs.push(Spec { kind: Kind::KeyedSingleton, script: Script::Rounds(vec![(arr.clone(), force)]) });
            specs.push(Spec { kind: Kind::KeyedTotal, script: Script::Rounds(vec![(arr.clone(), force)]) });
        }
    }
    specs
}

pub fn inline_specs(tier: Tier) -> Vec<ISpec> {
    let max = if tier == Tier::Thorough { 6 } else { 4 };
    let mut specs = vec![];
    let flat = |n: usize, side: u8| -> Vec<KItem> { (0..n).map(|i| (0u32, 1 + i as i64 + if side == 1 { 100 } else { 0 })).collect() };
    let keyed = |seq: Vec<Arr>| -> Vec<KItem> { seq.into_iter().map(|a| (a.1, a.2)).collect() };
    for n in 0..=max {
        specs.push(ISpec { kind: IKind::StreamOrder, first: flat(n, 0), second: vec![] });
    }
    for a in 0..=max {
        for b in 0..=(max - a) {
            specs.push(ISpec { kind: IKind::MergeOrdered, first: flat(a, 0), second: flat(b, 1) });
        }
    }
    let kmax = if tier == Tier::Thorough { 5 } else { 4 };
    for n in 0..=kmax {
        for s in keyed_seqs(n, 2, 0, 1) {
            specs.push(ISpec { kind: IKind::KeyedStreamOrder, first: keyed(s.clone()), second: vec![] });
            specs.push(ISpec { kind: IKind::PartiallyOrdered, first: keyed(s), second: vec![] });
        }
    }
    for n in 1..=3usize {
        for s in keyed_seqs(n, 3, 0, 1) {
            if s.iter().any(|a| a.1 == 3) {
                specs.push(ISpec { kind: IKind::KeyedStreamOrder, first: keyed(s.clone()), second: vec![] });
                specs.push(ISpec { kind: IKind::PartiallyOrdered, first: keyed(s), second: vec![] });
            }
        }
    }
    let five: Vec<KItem> = (1..=5).map(|k| (k as u32 * 7, k as i64)).collect();
    specs.push(ISpec { kind: IKind::KeyedStreamOrder, first: five.clone(), second: vec![] });
    specs.push(ISpec { kind: IKind::PartiallyOrdered, first: five, second: vec![] });
    for a in 0..=3usize {
        for b in 0..=(3 - a) {
            for sa in keyed_seqs(a, 2, 0, 1) {
                for sb in keyed_seqs(b, 2, 1, 1) {
                    specs.push(ISpec { kind: IKind::KeyedMergeOrdered, first: keyed(sa.clone()), second: keyed(sb) });
                }
            }
        }
    }
    specs
}

pub fn tick_specs(_tier: Tier) -> Vec<TickSpec> {
    let tick_kinds = [
        Kind::StreamTotal,
        Kind::StreamNo,
        Kind::KeyedTotal,
        Kind::KeyedNo,
        Kind::Singleton,
        Kind::Passthrough,
        Kind::KeyedSingleton,
    ];
    let arr_for = |k: Kind, n: usize, start: i64| -> Vec<Arr> {
        if k.keyed() {
            (0..n).map(|i| (0u8, 1 + (i as u32 % 2), start + i as i64)).collect()
        } else {
            flat_arr(n, 0, start)
        }
    };
    let mut specs = vec![];
    for a in tick_kinds {
        for b in tick_kinds {
            // both have input, then only one of them gets more
            specs.push(TickSpec { hooks: vec![(a, arr_for(a, 2, 1), vec![]), (b, arr_for(b, 2, 1), arr_for(b, 1, 3))] });
            specs.push(TickSpec { hooks: vec![(a, arr_for(a, 1, 1), arr_for(a, 2, 2)), (b, arr_for(b, 2, 1), vec![])] });
            // the first tick is triggered by one hook only
            specs.push(TickSpec { hooks: vec![(a, arr_for(a, 2, 1), vec![]), (b, vec![], arr_for(b, 2, 1))] });
        }
    }
    for a in tick_kinds {
        specs.push(TickSpec {
            hooks: vec![
                (a, arr_for(a, 1, 1), vec![]),
                (Kind::StreamTotal, flat_arr(1, 0, 1), flat_arr(1, 0, 2)),
                (Kind::Singleton, flat_arr(2, 0, 1), vec![]),
            ],
        });
    }
    specs
}

fn replay_filter(args: &Args) -> Option<serde_json::Value> {
    args.replay_case()
}

pub fn c36_hooks() {
    let args = Args::from_env();
    let prop = if args.prop.is_empty() { "C36".to_owned() } else { args.prop.clone() };
    let mut rep = Reporter::new(&prop, args.seed);
    let replay = replay_filter(&args);

    let mut kinds_seen: BTreeMap<&'static str, u64> = BTreeMap::new();
    let mut max_queue = 0usize;

    let specs: Vec<Spec> = match &replay {
        Some(c) if c.get("script").and_then(|s| s.as_str()).is_some_and(|s| s == "rounds" || s == "drain") => {
            Spec::from_json(c).into_iter().collect()
        }
        Some(_) => vec![],
        None => hook_specs(args.tier),
    };
    for spec in &specs {
        let (execs, engine_err) = enumerate(spec);
        rep.count("hook_configs");
        rep.count_n("executions_enumerated", execs.len() as u64);
        *kinds_seen.entry(spec.kind.name()).or_default() += 1;
        max_queue = max_queue.max(spec.total_items());
        if let Some(e) = engine_err {
            rep.violation(
                &format!("C36|hook:{}|engine-failure", spec.kind.name()),
                &format!("bolero's exhaustive engine reported a failing execution: {e}"),
                spec.to_json(),
            );
        }
        for exec in &execs {
            let mut hist = Hist::default();
            for (ri, r) in exec.iter().enumerate() {
                rep.eval();
                if !r.before.is_empty() {
                    rep.nontrivial(hash_of(&(spec.kind, format!("{:?}", r.before), r.force, format!("{:?}", r.released))));
                    rep.count(&format!("rounds:{}", spec.kind.name()));
                    if r.force {
                        rep.count("rounds_forced");
                    }
                }
                if spec.kind == Kind::Singleton && !r.ret && r.panic.is_none() && !r.log.contains("unchanged snapshot") {
                    // cosmetic: a re-release after a release that skipped states is logged as
                    // "releasing snapshot: X (skipping earlier states: ..)" (stale skipped_states)
                    rep.count("singleton_rerelease_logged_without_unchanged");
                }
                for (fk, what) in judge_round(spec.kind, r, &mut hist) {
                    let mut case = spec.to_json();
                    case["round"] = json!(ri);
                    case["observed"] = json!({"before": format!("{:?}", r.before), "released": r.released, "after": format!("{:?}", r.after), "force": r.force, "ret": r.ret, "log": r.log.trim()});
                    rep.violation(&format!("C36|hook:{}|{fk}", spec.kind.name()), &what, case);
                }
                rep.sample(|| json!({"hook": spec.kind.name(), "pending": format!("{:?}", r.before), "force": r.force, "released": r.released, "remaining": format!("{:?}", r.after), "log": r.log.trim()}));
            }
        }
    }

    let ispecs: Vec<ISpec> = match &replay {
        Some(c) if c.get("script").and_then(|s| s.as_str()) == Some("inline") => ISpec::from_json(c).into_iter().collect(),
        Some(_) => vec![],
        None => inline_specs(args.tier),
    };
    for spec in &ispecs {
        let (execs, engine_err) = enumerate_inline(spec);
        rep.count("inline_configs");
        rep.count_n("executions_enumerated", execs.len() as u64);
        *kinds_seen.entry(spec.kind.name()).or_default() += 1;
        max_queue = max_queue.max(spec.first.len() + spec.second.len());
        if let Some(e) = engine_err {
            rep.violation(&format!("C36|hook:{}|engine-failure", spec.kind.name()), &format!("bolero's exhaustive engine reported a failing execution: {e}"), spec.to_json());
        }
        for o in &execs {
            rep.eval();
            if spec.first.len() + spec.second.len() >= 2 {
                rep.nontrivial(hash_of(&(spec.kind, &spec.first, &spec.second, &o.released)));
                rep.count(&format!("rounds:{}", spec.kind.name()));
            }
            for (fk, what) in judge_inline(spec, o) {
                let mut case = spec.to_json();
                case["observed"] = json!({"released": o.released, "log": o.log.trim()});
                rep.violation(&format!("C36|hook:{}|{fk}", spec.kind.name()), &what, case);
            }
        }
    }

    let tspecs: Vec<TickSpec> = match &replay {
        Some(c) if c.get("script").and_then(|s| s.as_str()) == Some("tick") => TickSpec::from_json(c).into_iter().collect(),
        Some(_) => vec![],
        None => tick_specs(args.tier),
    };
    for spec in &tspecs {
        let (execs, engine_err) = enumerate_tick(spec);
        rep.count("tick_configs");
        rep.count_n("executions_enumerated", execs.len() as u64);
        let names: Vec<&str> = spec.hooks.iter().map(|h| h.0.name()).collect();
        let site = names.join("+");
        if let Some(e) = engine_err {
            rep.violation(&format!("C36|tick:{site}|engine-failure"), &format!("bolero's exhaustive engine reported a failing execution: {e}"), spec.to_json());
        }
        for exec in &execs {
            let mut hists: Vec<Hist> = spec.hooks.iter().map(|_| Hist::default()).collect();
            for (ti, tick) in exec.iter().enumerate() {
                rep.eval();
                rep.count("ticks_resolved");
                if let Some(p) = &tick.panic {
                    let mut case = spec.to_json();
                    case["tick"] = json!(ti);
                    if let Some(&hi) = tick.undecided.first() {
                        // `run_hooks` asked this hook (no pending input) for its trivial decision and the
                        // hook produced none; depending on its position this surfaces as "No decision to
                        // release" or as the underflow of run_hooks' remaining_decision_count
                        case["hook_index"] = json!(hi);
                        rep.violation(
                            &format!("C36|hook:{}|no-decision-without-input", spec.hooks[hi].0.name()),
                            &format!("resolving a schedulable tick with hooks [{site}] as run_hooks does panicked: {p}"),
                            case,
                        );
                    } else {
                        rep.violation(
                            &format!("C36|run_hooks:{site}|panic"),
                            &format!("resolving a schedulable tick with hooks [{site}] as run_hooks does panicked: {p}"),
                            case,
                        );
                    }
                    continue;
                }
                rep.nontrivial(hash_of(&(&site, format!("{:?}", tick.rounds.iter().map(|r| (&r.before, &r.released)).collect::<Vec<_>>()))));
                let mut any_new = false;
                for (hi, r) in tick.rounds.iter().enumerate() {
                    let kind = spec.hooks[hi].0;
                    let before_last = hists[hi].last.clone();
                    for (fk, what) in judge_round(kind, r, &mut hists[hi]) {
                        let mut case = spec.to_json();
                        case["tick"] = json!(ti);
                        case["hook_index"] = json!(hi);
                        case["observed"] = json!({"before": format!("{:?}", r.before), "released": r.released, "force": r.force, "ret": r.ret});
                        rep.violation(&format!("C36|hook:{}|{fk}|multi-hook tick", kind.name()), &what, case);
                    }
                    any_new |= if kind.snapshot() {
                        r.released.iter().any(|(k, v)| before_last.get(k) != Some(v))
                    } else {
                        !r.released.is_empty()
                    };
                }
                if !any_new {
                    let mut case = spec.to_json();
                    case["tick"] = json!(ti);
                    rep.violation(
                        &format!("C36|run_hooks:{site}|tick-released-nothing-new"),
                        &format!("a schedulable tick released no new item or snapshot: {:?}", tick.rounds.iter().map(|r| &r.released).collect::<Vec<_>>()),
                        case,
                    );
                }
            }
        }
    }

    rep.extra("hook_kinds_covered", json!(kinds_seen));
    rep.extra("max_queue_size", json!(max_queue));
    if replay.is_none() {
        rep.require(kinds_seen.len() == 18, "all 13 SimHook + 5 SimInlineHook implementors driven");
        rep.require(rep.counter("rounds_forced") > 100, "forced rounds observed");
        rep.require(rep.counter("ticks_resolved") > 100, "multi-hook ticks resolved");
    }
    rep.finish(
        "Every SimHook / SimInlineHook implementor of sim/runtime.rs is built directly (public fields or `new`), fed uniquely numbered items \
         (flat queues of 0..=4 items quick / 6 thorough, and 5..=12, 16, 33 for the snapshot and ordered-prefix hooks; keyed queues over 2-3 keys and one 5-key map; two-sided merges; arrivals in two phases) and driven by bolero's \
         exhaustive engine through any::scope::borrow_with with the decide-then-release protocol of run_hooks, with force_nontrivial both off and on, as single rounds, \
         drain-to-empty sessions and as 2-3 hooks of one tick resolved by a transcription of run_hooks. Every round of every execution is judged: released+remaining==pending, \
         prefix (ordered) / subset (unordered) per key, snapshot versions never older and unchanged-flags truthful, forced => something new, returned flag and log line truthful. \
         A round is non-trivial when the hook had pending input; distinct = (hook, pending, force, released).",
        true,
    );
}

pub fn c37_hooks() {
    let args = Args::from_env();
    let prop = if args.prop.is_empty() { "C37".to_owned() } else { args.prop.clone() };
    let mut rep = Reporter::new(&prop, args.seed);
    let replay = replay_filter(&args);
    let mut kinds_seen: BTreeMap<&'static str, u64> = BTreeMap::new();

    fn compare<O: Ord + Clone + std::fmt::Debug>(
        rep: &mut Reporter,
        site: &str,
        case: serde_json::Value,
        observed: Vec<O>,
        expected: Vec<O>,
        dup_is_violation: bool,
    ) {
        let mut obs_count: BTreeMap<O, usize> = BTreeMap::new();
        for o in observed {
            *obs_count.entry(o).or_default() += 1;
        }
        let exp: std::collections::BTreeSet<O> = expected.into_iter().collect();
        rep.eval();
        rep.count_n("distinct_outcomes", obs_count.len() as u64);
        let missing: Vec<&O> = exp.iter().filter(|e| !obs_count.contains_key(*e)).collect();
        let extra: Vec<&O> = obs_count.keys().filter(|o| !exp.contains(*o)).collect();
        if !missing.is_empty() {
            let mut c = case.clone();
            c["missing"] = json!(format!("{:?}", missing.iter().take(4).collect::<Vec<_>>()));
            rep.violation(
                &format!("C37|{site}|outcome-never-reached"),
                &format!("{} of {} outcomes allowed by the property are never reached by the exhaustive engine, e.g. {:?}", missing.len(), exp.len(), missing[0]),
                c,
            );
        }
        if !extra.is_empty() {
            let mut c = case.clone();
            c["extra"] = json!(format!("{:?}", extra.iter().take(4).collect::<Vec<_>>()));
            rep.violation(
                &format!("C37|{site}|outcome-outside-reference"),
                &format!("{} reached outcomes are not in the independently enumerated space, e.g. {:?}", extra.len(), extra[0]),
                c,
            );
        }
        if dup_is_violation {
            if let Some((o, n)) = obs_count.iter().find(|(_, n)| **n > 1) {
                let mut c = case.clone();
                c["duplicate"] = json!(format!("{o:?} x{n}"));
                rep.violation(
                    &format!("C37|{site}|outcome-reached-twice"),
                    &format!("outcome {o:?} is reached by {n} different decision sequences (redundant schedules the pruning promises to avoid)"),
                    c,
                );
            }
        } else if obs_count.values().any(|n| *n > 1) {
            rep.count("configs_with_redundant_paths");
        }
    }

    let specs: Vec<Spec> = match &replay {
        Some(c) if c.get("script").and_then(|s| s.as_str()).is_some_and(|s| s == "rounds" || s == "drain") => Spec::from_json(c).into_iter().collect(),
        Some(_) => vec![],
        None => hook_specs(args.tier),
    };
    for spec in &specs {
        let (execs, engine_err) = enumerate(spec);
        rep.count("hook_configs");
        rep.count_n("executions_enumerated", execs.len() as u64);
        *kinds_seen.entry(spec.kind.name()).or_default() += 1;
        if engine_err.is_some() || execs.iter().any(|e| e.iter().any(|r| r.panic.is_some())) {
            // a crashing hook is C36's business; its decision space cannot be compared
            rep.count("configs_skipped_hook_panicked");
            continue;
        }
        let observed: Vec<Outcome> = execs.iter().map(|e| outcome_of(spec.kind, e)).collect();
        let expected = reference_outcomes(spec);
        if expected.len() > 1 {
            rep.nontrivial(hash_of(&spec));
        }
        // reaching an outcome twice is a violation only for the NoOrder batch hooks, whose
        // `min_index` pruning promises that reorderings within a batch are not explored again;
        // for the other hooks redundant paths are merely counted.
        compare(&mut rep, &format!("hook:{}", spec.kind.name()), spec.to_json(), observed, expected, spec.kind.unordered_batch());
        rep.sample(|| json!({"hook": spec.kind.name(), "config": spec.to_json(), "executions": execs.len()}));
    }

    let ispecs: Vec<ISpec> = match &replay {
        Some(c) if c.get("script").and_then(|s| s.as_str()) == Some("inline") => ISpec::from_json(c).into_iter().collect(),
        Some(_) => vec![],
        None => inline_specs(args.tier),
    };
    for spec in &ispecs {
        let (execs, engine_err) = enumerate_inline(spec);
        rep.count("inline_configs");
        rep.count_n("executions_enumerated", execs.len() as u64);
        *kinds_seen.entry(spec.kind.name()).or_default() += 1;
        if engine_err.is_some() || execs.iter().any(|o| o.panic.is_some()) {
            rep.count("configs_skipped_hook_panicked");
            continue;
        }
        let observed: Vec<Vec<KItem>> = execs.iter().map(|o| canon_inline(spec.kind, &o.released)).collect();
        let expected: Vec<Vec<KItem>> = reference_inline(spec).into_iter().map(|r| canon_inline(spec.kind, &r)).collect();
        if expected.len() > 1 {
            rep.nontrivial(hash_of(&spec));
        }
        compare(&mut rep, &format!("hook:{}", spec.kind.name()), spec.to_json(), observed, expected, false);
    }

    let tspecs: Vec<TickSpec> = match &replay {
        Some(c) if c.get("script").and_then(|s| s.as_str()) == Some("tick") => TickSpec::from_json(c).into_iter().collect(),
        Some(_) => vec![],
        None => tick_specs(args.tier),
    };
    for spec in &tspecs {
        let (execs, engine_err) = enumerate_tick(spec);
        rep.count("tick_configs");
        rep.count_n("executions_enumerated", execs.len() as u64);
        if engine_err.is_some() || execs.iter().any(|e| e.iter().any(|t| t.panic.is_some())) {
            rep.count("configs_skipped_hook_panicked");
            continue;
        }
        let site: String = spec.hooks.iter().map(|h| h.0.name()).collect::<Vec<_>>().join("+");
        let observed: Vec<TickOutcome> = execs.iter().map(|e| tick_outcome_of(spec, e)).collect();
        let expected = reference_tick(spec);
        if expected.len() > 1 {
            rep.nontrivial(hash_of(&spec));
        }
        compare(&mut rep, &format!("run_hooks:{site}"), spec.to_json(), observed, expected, false);
    }

    rep.extra("hook_kinds_covered", json!(kinds_seen));
    if replay.is_none() {
        rep.require(kinds_seen.len() == 18, "all 13 SimHook + 5 SimInlineHook implementors driven");
        rep.require(rep.distinct_count() > 300, "configurations with more than one allowed outcome");
    }
    rep.finish(
        "Same hook rig and configurations as C36 (queues of <= 4 items quick, <= 6 thorough). For every configuration the multiset of outcomes (per round: released batch in \
         canonical form + remaining queues) reached over all executions of bolero's exhaustive engine is compared with an independently enumerated space written from the \
         property text and the hooks' doc comments: all prefixes (ordered), all subsets (unordered, batch order ignored), per-key products, all versions plus 're-release' for \
         snapshots, none-or-any-one for one-at-a-time top-level hooks, all ordered arrangements of non-empty subsets for the fold hook, all permutations / order-preserving \
         interleavings for inline hooks, and for multi-hook ticks the product of per-hook choices minus 'nothing new'. Missing or extra outcomes are violations; for the NoOrder batch hooks (min_index pruning) so is any outcome reached by two \
         different decision sequences. A configuration is non-trivial when more than one outcome is allowed.",
        true,
    );
}
