//! Shared helpers: decision-log parser, small combinatorial enumerators, panic / abort capture,
//! repository fingerprint.

/// Remove ANSI colour escapes (the simulator colours its log when attached to a terminal).
pub fn strip_ansi(s: &str) -> String {
    let mut out = String::with_capacity(s.len());
    let mut it = s.chars().peekable();
    while let Some(c) = it.next() {
        if c == '\u{1b}' {
            if it.peek() == Some(&'[') {
                it.next();
                for d in it.by_ref() {
                    if d.is_ascii_alphabetic() {
                        break;
                    }
                }
            }
        } else {
            out.push(c);
        }
    }
    out
}

/// All integers appearing in `s`, in order (a '-' directly before a digit is a sign).
pub fn nums(s: &str) -> Vec<i64> {
    let b = s.as_bytes();
    let mut out = vec![];
    let mut i = 0;
    while i < b.len() {
        if b[i].is_ascii_digit() {
            let neg = i > 0 && b[i - 1] == b'-';
            let mut v: i64 = 0;
            while i < b.len() && b[i].is_ascii_digit() {
                v = v * 10 + (b[i] - b'0') as i64;
                i += 1;
            }
            out.push(if neg { -v } else { v });
        } else {
            i += 1;
        }
    }
    out
}

/// One decision note of the simulator log (the text after the caret).
#[derive(Clone, Debug, PartialEq, Eq)]
pub enum Note {
    /// "releasing no items"
    NoItems,
    /// "releasing items: [..]" / "releasing unordered items: [..]"
    Items { unordered: bool, nums: Vec<i64>, truncated: bool },
    /// "releasing items: { k: v, k: v (unchanged) }" — (key, value, unchanged)
    KeyedSnap { entries: Vec<(i64, i64, bool)> },
    /// "releasing snapshot: X" / "releasing unchanged snapshot: X" / "... (skipping earlier states: [..])"
    Snapshot { unchanged: bool, value: Vec<i64>, skipped: Vec<i64> },
    /// "observed non-deterministic order", "observered non-deterministic order",
    /// "observed partially-ordered interleaving", "observed non-deterministic merge order"
    Observed { what: &'static str, nums: Vec<i64>, labels: Vec<char>, keyed_map: bool },
    /// "fold input batch (permuted): [..]"
    FoldBatch { nums: Vec<i64> },
    Other(String),
}

impl Note {
    /// Coarse category used to recognise which hook type wrote the note.
    pub fn category(&self) -> &'static str {
        match self {
            Note::NoItems => "none",
            Note::Items { unordered: false, .. } => "items",
            Note::Items { unordered: true, .. } => "uitems",
            Note::KeyedSnap { .. } => "ksnap",
            Note::Snapshot { .. } => "snap",
            Note::Observed { what: "order", keyed_map: true, .. } => "korder",
            Note::Observed { what, .. } => what,
            Note::FoldBatch { .. } => "fold",
            Note::Other(_) => "other",
        }
    }
    /// Does this note say that something *new* was released into the tick / out of the hook?
    pub fn releases_new(&self) -> bool {
        match self {
            Note::NoItems => false,
            Note::Items { nums, .. } => !nums.is_empty(),
            Note::KeyedSnap { entries } => entries.iter().any(|e| !e.2),
            Note::Snapshot { unchanged, .. } => !unchanged,
            Note::FoldBatch { nums } => !nums.is_empty(),
            // top-level ordering observations log only when they release an item
            Note::Observed { nums, .. } => !nums.is_empty(),
            Note::Other(_) => false,
        }
    }
    /// Is this a release decision of a tick-input hook (as opposed to an inline observation)?
    pub fn is_release(&self) -> bool {
        matches!(
            self,
            Note::NoItems | Note::Items { .. } | Note::KeyedSnap { .. } | Note::Snapshot { .. }
        )
    }
}

pub fn parse_note(text: &str) -> Note {
    let t = text.trim();
    if t == "releasing no items" {
        return Note::NoItems;
    }
    if let Some(rest) = t.strip_prefix("releasing items: ") {
        if rest.starts_with('{') {
            let inner = rest.trim_start_matches('{').trim_end_matches('}').trim();
            let mut entries = vec![];
            if !inner.is_empty() {
                // entries are "k: v" or "k: v (unchanged)", separated by ", "; keys and values
                // in the corpus are plain integers.
                let mut cur = String::new();
                let mut parts = vec![];
                for piece in inner.split(", ") {
                    // a piece starting a new entry contains ": "
                    if piece.contains(": ") && !cur.is_empty() {
                        parts.push(std::mem::take(&mut cur));
                    }
                    if !cur.is_empty() {
                        cur.push_str(", ");
                    }
                    cur.push_str(piece);
                }
                if !cur.is_empty() {
                    parts.push(cur);
                }
                for p in parts {
                    let unchanged = p.ends_with("(unchanged)");
                    let n = nums(&p);
                    if n.len() >= 2 {
                        entries.push((n[0], n[1], unchanged));
                    } else {
                        return Note::Other(t.to_owned());
                    }
                }
            }
            return Note::KeyedSnap { entries };
        }
        return Note::Items { unordered: false, nums: nums(list_part(rest)), truncated: rest.contains("..") };
    }
    if let Some(rest) = t.strip_prefix("releasing unordered items: ") {
        return Note::Items { unordered: true, nums: nums(list_part(rest)), truncated: rest.contains("..") };
    }
    for (prefix, unchanged) in [("releasing unchanged snapshot: ", true), ("releasing snapshot: ", false)] {
        if let Some(rest) = t.strip_prefix(prefix) {
            let (val, skipped) = match rest.split_once(" (skipping earlier states: ") {
                Some((v, s)) => (v, nums(s)),
                None => (rest, vec![]),
            };
            return Note::Snapshot { unchanged, value: nums(val), skipped };
        }
    }
    for (prefix, what) in [
        ("observed non-deterministic order: ", "order"),
        ("observered non-deterministic order: ", "top-order"),
        ("observed partially-ordered interleaving: ", "partial"),
        ("observed non-deterministic merge order: ", "merge"),
    ] {
        if let Some(rest) = t.strip_prefix(prefix) {
            let labels = if what == "merge" {
                // entries look like "l: 1" / "r: 2"
                let mut ls = vec![];
                let bytes: Vec<char> = rest.chars().collect();
                for i in 0..bytes.len().saturating_sub(1) {
                    if (bytes[i] == 'l' || bytes[i] == 'r') && bytes[i + 1] == ':' {
                        ls.push(bytes[i]);
                    }
                }
                ls
            } else {
                vec![]
            };
            return Note::Observed { what, nums: nums(rest), labels, keyed_map: rest.trim_start().starts_with('{') };
        }
    }
    if let Some(rest) = t.strip_prefix("fold input batch (permuted): ") {
        return Note::FoldBatch { nums: nums(list_part(rest)) };
    }
    Note::Other(t.to_owned())
}

/// For a truncated list "[a, b, ..] (N total)" keep only the bracket part.
fn list_part(s: &str) -> &str {
    match s.find("] (") {
        Some(i) => &s[..=i],
        None => s,
    }
}

#[derive(Clone, Debug, PartialEq, Eq)]
pub enum Event {
    /// One scheduled tick with the notes of its hooks (tick-input releases first, then inline
    /// observations made while the tick ran).
    Tick(Vec<Note>),
    /// A top-level observation (one hook resolved outside any tick).
    Obs(Note),
}

#[derive(Clone, Debug, Default)]
pub struct ParsedLog {
    pub events: Vec<Event>,
    pub lines: usize,
    pub malformed: Vec<String>,
}

impl ParsedLog {
    pub fn ticks(&self) -> Vec<&Vec<Note>> {
        self.events
            .iter()
            .filter_map(|e| if let Event::Tick(n) = e { Some(n) } else { None })
            .collect()
    }
}

/// Parse a decision log as written by `run_with_scheduler_and_logger`.
pub fn parse_log(raw: &str) -> ParsedLog {
    let clean = strip_ansi(raw);
    let mut out = ParsedLog::default();
    for line in clean.lines() {
        out.lines += 1;
        let l = line.trim_end();
        if l.is_empty() {
            continue;
        }
        if l.trim_start_matches("* ").starts_with("Running Tick") {
            out.events.push(Event::Tick(vec![]));
            continue;
        }
        let in_tick = l.starts_with('*');
        if let Some(pos) = l.find("^ ") {
            let note = parse_note(&l[pos + 2..]);
            if let Note::Other(t) = &note {
                out.malformed.push(t.clone());
            }
            if in_tick {
                match out.events.last_mut() {
                    Some(Event::Tick(notes)) => notes.push(note),
                    _ => out.malformed.push(format!("tick note outside a tick: {l}")),
                }
            } else {
                out.events.push(Event::Obs(note));
            }
        }
        // "--> location" and "| source line" rows carry no decision
    }
    out
}

// ---------------------------------------------------------------------------------------------
// combinatorics (independent enumerators used as expectations)

/// All ways to cut `items` into non-empty consecutive blocks (2^(n-1) for n >= 1; [[]] for n = 0).
pub fn compositions<T: Clone>(items: &[T]) -> Vec<Vec<Vec<T>>> {
    if items.is_empty() {
        return vec![vec![]];
    }
    let mut out = vec![];
    for first in 1..=items.len() {
        for mut rest in compositions(&items[first..]) {
            let mut v = vec![items[..first].to_vec()];
            v.append(&mut rest);
            out.push(v);
        }
    }
    out
}

/// All ordered set partitions of `items` (Fubini numbers 1, 1, 3, 13, 75, 541); every block is
/// listed in the order of `items`.
pub fn ordered_set_partitions<T: Clone>(items: &[T]) -> Vec<Vec<Vec<T>>> {
    if items.is_empty() {
        return vec![vec![]];
    }
    let n = items.len();
    let mut out = vec![];
    for mask in 1u32..(1 << n) {
        let block: Vec<T> = (0..n).filter(|i| mask >> i & 1 == 1).map(|i| items[i].clone()).collect();
        let rest: Vec<T> = (0..n).filter(|i| mask >> i & 1 == 0).map(|i| items[i].clone()).collect();
        for mut tail in ordered_set_partitions(&rest) {
            let mut v = vec![block.clone()];
            v.append(&mut tail);
            out.push(v);
        }
    }
    out
}

pub fn permutations<T: Clone>(items: &[T]) -> Vec<Vec<T>> {
    if items.is_empty() {
        return vec![vec![]];
    }
    let mut out = vec![];
    for i in 0..items.len() {
        let mut rest = items.to_vec();
        let x = rest.remove(i);
        for mut p in permutations(&rest) {
            let mut v = vec![x.clone()];
            v.append(&mut p);
            out.push(v);
        }
    }
    out
}

/// All interleavings of `a` and `b` that keep each side's order (C(|a|+|b|, |a|)).
pub fn interleavings<T: Clone>(a: &[T], b: &[T]) -> Vec<Vec<T>> {
    if a.is_empty() {
        return vec![b.to_vec()];
    }
    if b.is_empty() {
        return vec![a.to_vec()];
    }
    let mut out = vec![];
    for mut t in interleavings(&a[1..], b) {
        let mut v = vec![a[0].clone()];
        v.append(&mut t);
        out.push(v);
    }
    for mut t in interleavings(a, &b[1..]) {
        let mut v = vec![b[0].clone()];
        v.append(&mut t);
        out.push(v);
    }
    out
}

/// All interleavings of several sequences keeping each sequence's order.
pub fn multi_interleavings<T: Clone>(seqs: &[Vec<T>]) -> Vec<Vec<T>> {
    if seqs.iter().all(|s| s.is_empty()) {
        return vec![vec![]];
    }
    let mut out = vec![];
    for i in 0..seqs.len() {
        if seqs[i].is_empty() {
            continue;
        }
        let mut rest = seqs.to_vec();
        let x = rest[i].remove(0);
        for mut t in multi_interleavings(&rest) {
            let mut v = vec![x.clone()];
            v.append(&mut t);
            out.push(v);
        }
    }
    out
}

/// Non-empty subsets of `items`, each in the order of `items`.
pub fn subsets<T: Clone>(items: &[T], allow_empty: bool) -> Vec<(Vec<T>, Vec<T>)> {
    let n = items.len();
    let mut out = vec![];
    for mask in 0u32..(1 << n) {
        if mask == 0 && !allow_empty {
            continue;
        }
        let sel = (0..n).filter(|i| mask >> i & 1 == 1).map(|i| items[i].clone()).collect();
        let rest = (0..n).filter(|i| mask >> i & 1 == 0).map(|i| items[i].clone()).collect();
        out.push((sel, rest));
    }
    out
}

/// Run `f`, turning a panic into `Err(message)`; works both inside and outside bolero's own
/// panic capture.
pub fn catch<T>(f: impl FnOnce() -> T) -> Result<T, String> {
    let r = std::panic::catch_unwind(std::panic::AssertUnwindSafe(f));
    r.map_err(|e| {
        if let Some(s) = e.downcast_ref::<&str>() {
            s.to_string()
        } else if let Some(s) = e.downcast_ref::<String>() {
            s.clone()
        } else if e.downcast_ref::<bolero::generator::bolero_generator::any::Error>().is_some() {
            "<bolero any::Error (assumption failed / no entropy)>".to_string()
        } else {
            "<non-string panic>".to_string()
        }
    })
}

static LAST_PANIC_LOCATION: std::sync::Mutex<String> = std::sync::Mutex::new(String::new());

/// Silence the default panic printer for panics that the harness catches and judges itself, and
/// remember where the most recent panic was raised (reported in violations).
pub fn install_panic_hooks() {
    static ONCE: std::sync::Once = std::sync::Once::new();
    ONCE.call_once(|| {
        vcommon::install_quiet_panic_hook();
        let prev = std::panic::take_hook();
        std::panic::set_hook(Box::new(move |info| {
            if let Some(l) = info.location() {
                // keep the path short and independent of where the repository is checked out
                let file = l.file();
                let short = file.rfind("/hydro_lang/").or_else(|| file.rfind("/dfir_rs/")).map(|i| &file[i + 1..]).unwrap_or(file);
                if let Ok(mut g) = LAST_PANIC_LOCATION.lock() {
                    *g = format!("{short}:{}", l.line());
                }
            }
            prev(info);
        }));
    });
}

pub fn last_panic_location() -> String {
    LAST_PANIC_LOCATION.lock().map(|g| g.clone()).unwrap_or_default()
}

/// Fingerprint of the repository under test (commit + uncommitted changes of the crates the
/// simulator is built from). The simulator compiles its per-flow dylibs against the repository
/// *while the monitor runs*; if another process changes the repository in that window, the test
/// binary and the dylibs disagree about hydro_lang and nothing observed is meaningful.
pub fn repo_fingerprint() -> String {
    let repo = std::env::var("VERIF_REPO").ok().filter(|s| !s.is_empty()).unwrap_or_else(|| "/repo".to_owned());
    let run = |args: &[&str]| -> String {
        std::process::Command::new("git")
            .arg("-C")
            .arg(&repo)
            .args(args)
            .output()
            .map(|o| String::from_utf8_lossy(&o.stdout).into_owned())
            .unwrap_or_default()
    };
    let head = run(&["rev-parse", "HEAD"]);
    let dirty = run(&["diff", "HEAD", "--", "hydro_lang", "dfir_rs", "dfir_lang", "hydro_std"]);
    format!("{}:{:x}", head.trim(), vcommon::hash_of(&dirty))
}

// ---------------------------------------------------------------------------------------------
// surviving `std::process::abort()` inside the simulator

// The simulator reports broken internal invariants (`abort_assert!`, e.g. "tick DFIR run_tick()
// returned false" when a tick was scheduled with nothing released into it) by aborting the whole
// process, which would silently kill the monitor. A SIGABRT handler prints a pre-rendered report
// (set by `arm_abort_report`) and exits, so the observation is not lost.
unsafe extern "C" {
    fn signal(signum: i32, handler: usize) -> usize;
    fn write(fd: i32, buf: *const u8, count: usize) -> isize;
    fn _exit(code: i32) -> !;
}

static ABORT_MSG_PTR: std::sync::atomic::AtomicPtr<u8> = std::sync::atomic::AtomicPtr::new(std::ptr::null_mut());
static ABORT_MSG_LEN: std::sync::atomic::AtomicUsize = std::sync::atomic::AtomicUsize::new(0);

extern "C" fn on_abort(_sig: i32) {
    let p = ABORT_MSG_PTR.load(std::sync::atomic::Ordering::SeqCst);
    let n = ABORT_MSG_LEN.load(std::sync::atomic::Ordering::SeqCst);
    unsafe {
        if !p.is_null() {
            let _ = write(1, p, n);
        }
        _exit(0);
    }
}

pub fn install_abort_handler() {
    const SIGABRT: i32 = 6;
    unsafe {
        signal(SIGABRT, on_abort as *const () as usize);
    }
}

/// Prepare what is printed if the simulator aborts the process from now on: an optional violation
/// line and a summary line that marks the run as incomplete.
pub fn arm_abort_report(prop: &str, violation_sig: Option<&str>, case: &serde_json::Value, evaluations: u64) {
    let mut text = String::from("\n");
    if let Some(sig) = violation_sig {
        text.push_str(
            &serde_json::json!({"t": "violation", "prop": prop, "sig": sig,
                "what": "the simulator aborted the process (abort_assert!: 'Simulator internal error', see stderr) while running this case",
                "case": case})
            .to_string(),
        );
        text.push('\n');
    }
    text.push_str(
        &serde_json::json!({"t": "summary", "prop": prop, "evaluations": evaluations, "distinct_nontrivial": 0,
            "rule": "run cut short: the simulator aborted the process", "samples": [], "exhaustive": false, "min_obs_ok": false,
            "min_obs_reason": [format!("the simulator aborted the process while running {case}")], "extra": {},
            "violations": if violation_sig.is_some() { 1 } else { 0 }})
        .to_string(),
    );
    text.push('\n');
    // the handler runs on this (the only simulation) thread, so swapping the buffer here cannot
    // race with it; the previous buffer is freed
    let leaked: &'static mut [u8] = Box::leak(text.into_bytes().into_boxed_slice());
    let old_len = ABORT_MSG_LEN.swap(0, std::sync::atomic::Ordering::SeqCst);
    let old_ptr = ABORT_MSG_PTR.swap(leaked.as_mut_ptr(), std::sync::atomic::Ordering::SeqCst);
    ABORT_MSG_LEN.store(leaked.len(), std::sync::atomic::Ordering::SeqCst);
    if !old_ptr.is_null() {
        drop(unsafe { Box::from_raw(std::ptr::slice_from_raw_parts_mut(old_ptr, old_len)) });
    }
}
