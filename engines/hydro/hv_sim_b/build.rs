//! 1. stageleft staging of this crate's flows.
//! 2. C40 / Paxos: the shipped `hydro_test::cluster::paxos::paxos_core` cannot be compiled by the Hydro
//!    simulator (it uses `.max()` on an unbounded top-level stream — "Reduce with optional intermediates is not
//!    yet supported in simulator" — and wall-clock `tokio::time` timers), so it is run through the PRODUCTION
//!    code generator (`generate_embedded`) instead; tests/paxos.rs owns the network, the tick schedule and a
//!    paused tokio clock. Output: $OUT_DIR/paxos_emb.rs (locations `proposer` and `acceptor`).
fn main() {
    stageleft_tool::gen_final!();
    gen_paxos();
}

fn gen_paxos() {
    use hydro_lang::compile::builder::FlowBuilder;
    use hydro_lang::live_collections::stream::TotalOrder;
    use hydro_lang::location::Location;
    use hydro_lang::prelude::nondet;
    use hydro_test::cluster::paxos::{Acceptor, PaxosConfig, Proposer, paxos_core};

    println!("cargo::rerun-if-changed=build.rs");
    let out_dir = std::env::var("OUT_DIR").unwrap();

    let mut flow = FlowBuilder::new();
    let proposers = flow.cluster::<Proposer>();
    let acceptors = flow.cluster::<Acceptor>();
    let payloads = proposers.embedded_input::<u32>("payloads");
    // never fed by the harness: no checkpointing / log garbage collection
    let checkpoints = acceptors.embedded_input::<usize>("checkpoints").max();
    let (ballots, sequenced) = paxos_core(
        &proposers,
        &acceptors,
        checkpoints,
        |_new_leader_ballots| payloads,
        PaxosConfig {
            f: 1,
            i_am_leader_send_timeout: 1,
            i_am_leader_check_timeout: 2,
            i_am_leader_check_timeout_delay_multiplier: 1,
        },
        nondet!(/** explored by the harness scheduler */),
        nondet!(/** explored by the harness scheduler */),
    );
    ballots.embedded_output("ballots");
    sequenced
        .assume_ordering::<TotalOrder>(nondet!(/** observer */))
        .embedded_output("sequenced");
    // The embedded backend needs every network channel to be named; the shipped Paxos leaves its channels
    // anonymous. Names are identifiers of the generated API only, so give the anonymous ones positional names
    // (`ch0`, `ch1`, … in IR traversal order) through the public IR rewrite hook; nothing else is touched.
    let mut next_channel = 0usize;
    let code: syn::File = flow
        .optimize_with(|ir| {
            hydro_lang::compile::ir::transform_bottom_up(
                ir,
                &mut |_root| {},
                &mut |node| {
                    if let hydro_lang::compile::ir::HydroNode::Network { name, .. } = node {
                        if name.is_none() {
                            *name = Some(format!("ch{next_channel}"));
                            next_channel += 1;
                        }
                    }
                },
                false,
            );
        })
        .with_cluster(&proposers, "proposer")
        .with_cluster(&acceptors, "acceptor")
        .generate_embedded("hydro_test");
    std::fs::write(format!("{out_dir}/paxos_emb.rs"), prettyplease::unparse(&code)).unwrap();
}
