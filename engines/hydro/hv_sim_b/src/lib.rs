//! `hv_sim_b`: corpus flows + simulator-driven monitors (in `#[cfg(test)] mod tests`) for
//! C40 (replicated logs never diverge; primary), and the simulator halves of C31 (slices),
//! C34 (atomic read-after-write) and C39 (quorum helpers).
//!
//! Everything a `q!` closure names lives in this (non-test) part of the crate; the tests only wire
//! simulator ports around these functions. `nondet!(/** observer */)` marks observation scaffolding
//! that is outside the program being judged.
#[cfg(stageleft_runtime)]
hydro_lang::setup!();

pub mod flows;

// `cfg(stageleft_runtime)`: keeps the harness out of the staged copy of this crate that the simulator
// compiles (stageleft drops `impl` blocks there); it contains no `q!` code.
#[cfg(test)]
#[cfg(stageleft_runtime)]
mod tests;
