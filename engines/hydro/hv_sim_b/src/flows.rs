//! Corpus flows for the simulator halves of C31 / C34 / C39.
use hydro_lang::live_collections::sliced::yield_atomic;
use hydro_lang::live_collections::stream::{ExactlyOnce, NoOrder, TotalOrder};
use hydro_lang::location::Location;
use hydro_lang::prelude::*;
use hydro_std::quorum::{collect_quorum, collect_quorum_with_response};
use hydro_std::request_response::join_responses;

/// Location tag of the single process all corpus flows run on.
pub struct Node;
pub type P<'a> = Process<'a, Node>;
/// Harness-fed input / observed output.
pub type S<'a, T> = Stream<T, P<'a>, Unbounded, TotalOrder, ExactlyOnce>;
/// Unordered output (drained sorted at quiescence).
pub type SU<'a, T> = Stream<T, P<'a>, Unbounded, NoOrder, ExactlyOnce>;

// =================================================================================================
// C31: slices. Every flow emits exactly one record per slice describing what each hook revealed.

/// (batch, set snapshot (sorted; its length is the count), state = elements batched in earlier slices)
pub type C31Basic = (Vec<i64>, Vec<i64>, usize);

/// `use::batch` + `use::snapshot` of a set-valued fold of the same input + `use::state`.
pub fn c31_basic<'a>(v: S<'a, i64>) -> S<'a, C31Basic> {
    let set = v.clone().fold(
        q!(|| std::collections::BTreeSet::<i64>::new()),
        q!(|acc, x| {
            acc.insert(x);
        }),
    );
    sliced! {
        let batch = use::batch(v, nondet!(/** the simulator explores the slices */));
        let s = use::snapshot(set, nondet!(/** the simulator explores the slices */));
        let mut seen = use::state(|l| l.singleton(q!(0usize)));

        let out = batch
            .clone()
            .collect_vec()
            .zip(s)
            .zip(seen.clone())
            .map(q!(|((b, s), seen)| (b, s.into_iter().collect::<Vec<i64>>(), seen)));
        seen = seen.zip(batch.count()).map(q!(|(s, n)| s + n));
        out.into_stream()
    }
}

/// (batch, count snapshot, sum snapshot, state) — two snapshots of different singletons in one slice.
pub type C31Multi = (Vec<i64>, usize, i64, usize);

/// `use::batch` + two `use::snapshot`s (count and sum of the same input) + `use::state`.
pub fn c31_multi<'a>(v: S<'a, i64>) -> S<'a, C31Multi> {
    let cnt = v.clone().count();
    let sum = v.clone().fold(q!(|| 0i64), q!(|acc, x| *acc += x));
    sliced! {
        let batch = use::batch(v, nondet!(/** the simulator explores the slices */));
        let c = use::snapshot(cnt, nondet!(/** the simulator explores the slices */));
        let s = use::snapshot(sum, nondet!(/** the simulator explores the slices */));
        let mut seen = use::state(|l| l.singleton(q!(0usize)));

        let out = batch
            .clone()
            .collect_vec()
            .zip(c)
            .zip(s)
            .zip(seen.clone())
            .map(q!(|(((b, c), s), seen)| (b, c, s, seen)));
        seen = seen.zip(batch.count()).map(q!(|(s, n)| s + n));
        out.into_stream()
    }
}

/// (batch, atomic count snapshot #1, atomic count snapshot #2, state = elements batched earlier)
pub type C31Atomic = (Vec<i64>, usize, usize, usize);

/// Atomic flavour: `use::atomic` batch + two `use::atomic` snapshots of the same singleton + state.
/// Also returns the acknowledgements released by `end_atomic`.
pub fn c31_atomic<'a>(v: S<'a, i64>) -> (S<'a, i64>, S<'a, C31Atomic>) {
    let v = v.atomic();
    let cnt = v.clone().count();
    let acks = v.clone().end_atomic();
    let slices = sliced! {
        let batch = use::atomic(v, nondet!(/** the simulator explores the slices */));
        let c1 = use::atomic(cnt.clone(), nondet!(/** the simulator explores the slices */));
        let c2 = use::atomic(cnt, nondet!(/** the simulator explores the slices */));
        let mut seen = use::state(|l| l.singleton(q!(0usize)));

        let out = batch
            .clone()
            .collect_vec()
            .zip(c1)
            .zip(c2)
            .zip(seen.clone())
            .map(q!(|(((b, c1), c2), seen)| (b, c1, c2, seen)));
        seen = seen.zip(batch.count()).map(q!(|(s, n)| s + n));
        out.into_stream()
    };
    (acks, slices)
}

/// (per-key batches, each in per-key order; per-key count snapshot) — both sorted by key.
pub type C31Keyed = (Vec<(i64, Vec<i64>)>, Vec<(i64, usize)>);

/// Keyed stream `use::batch` + keyed singleton `use::snapshot`.
pub fn c31_keyed<'a>(a: S<'a, (i64, i64)>) -> S<'a, C31Keyed> {
    let ks = a.into_keyed();
    let counts = ks.clone().value_counts();
    sliced! {
        let batch = use::batch(ks, nondet!(/** the simulator explores the slices */));
        let snap = use::snapshot(counts, nondet!(/** the simulator explores the slices */));

        let b = batch
            .fold(q!(|| vec![]), q!(|acc: &mut Vec<i64>, v| acc.push(v)))
            .entries()
            .fold(
                q!(|| std::collections::BTreeMap::<i64, Vec<i64>>::new()),
                q!(
                    |m, (k, vs)| {
                        m.insert(k, vs);
                    },
                    commutative = manual_proof!(/** observer: keys are distinct */)
                ),
            )
            .map(q!(|m| m.into_iter().collect::<Vec<(i64, Vec<i64>)>>()));
        let s = snap
            .entries()
            .fold(
                q!(|| std::collections::BTreeMap::<i64, usize>::new()),
                q!(
                    |m, (k, c)| {
                        m.insert(k, c);
                    },
                    commutative = manual_proof!(/** observer: keys are distinct */)
                ),
            )
            .map(q!(|m| m.into_iter().collect::<Vec<(i64, usize)>>()));
        b.zip(s).into_stream()
    }
}

/// (buffered ++ batch, leader snapshot, buffered state as seen at the start of the slice)
pub type C31Buffer = (Vec<i64>, Option<i64>, Vec<i64>);

/// The documented buffering idiom (`use::state_null` stream + `use::batch` + a leader snapshot): payloads are
/// buffered until a leader is known. The leader is a `Singleton<Option<_>>` rather than the `Optional` of the
/// docs because the simulator supports neither a top-level `max()` on an unbounded stream ("Reduce with optional
/// intermediates is not yet supported in simulator") nor snapshots of unbounded `Optional`s ("batch not
/// implemented for kind Optional").
pub fn c31_buffer<'a>(payloads: S<'a, i64>, leaders: S<'a, i64>) -> S<'a, C31Buffer> {
    let leader = leaders.fold(
        q!(|| None::<i64>),
        q!(|acc, x| {
            if acc.is_none_or(|a| x > a) {
                *acc = Some(x);
            }
        }),
    );
    sliced! {
        let mut unsent = use::state_null::<Stream<i64, _, _, TotalOrder>>();
        let batch = use::batch(payloads, nondet!(/** the simulator explores the slices */));
        let latest = use::snapshot(leader, nondet!(/** the simulator explores the slices */));

        let carried = unsent.clone().collect_vec();
        let all = unsent.chain(batch);
        unsent = all.clone().filter_if(latest.clone().map(q!(|l| l.is_none())));
        all.collect_vec()
            .zip(latest)
            .zip(carried)
            .map(q!(|((a, l), c)| (a, l, c)))
            .into_stream()
    }
}

// =================================================================================================
// C34: atomic read-after-write. `incs`/`gets` = (request id, key); `acks` = the increments as
// acknowledged; `resp` = (get id, key, count read).

pub type C34Resp = (u32, String, usize);

/// The shipped tutorial service (`hydro_test::tutorials::keyed_counter`), unchanged; only observers added.
pub fn c34_tutorial<'a>(
    incs: S<'a, (u32, String)>,
    gets: S<'a, (u32, String)>,
) -> (S<'a, (u32, String)>, S<'a, C34Resp>) {
    let (acks, resp) = hydro_test::tutorials::keyed_counter::keyed_counter_service(
        incs.into_keyed(),
        gets.into_keyed(),
    );
    (
        acks.entries()
            .assume_ordering::<TotalOrder>(nondet!(/** observer */)),
        resp.entries()
            .map(q!(|(id, (key, count))| (id, key, count)))
            .assume_ordering::<TotalOrder>(nondet!(/** observer */)),
    )
}

/// Same shape written here: per-key `value_counts` inside `atomic()`..`end_atomic()`, read with `use::atomic`.
pub fn c34_keyed_atomic<'a>(
    incs: S<'a, (u32, String)>,
    gets: S<'a, (u32, String)>,
) -> (S<'a, (u32, String)>, S<'a, C34Resp>) {
    let processing = incs.atomic();
    let counts = processing
        .clone()
        .map(q!(|(_id, key)| (key, ())))
        .into_keyed()
        .value_counts();
    let acks = processing.end_atomic();
    let lookup = sliced! {
        let reqs = use::batch(
            gets.map(q!(|(id, key)| (key, id))).into_keyed(),
            nondet!(/** batch boundaries are never observed */)
        );
        let snap = use::atomic(counts, nondet!(/** atomicity guarantees consistency wrt increments */));
        reqs.join_keyed_singleton(snap)
    };
    (
        acks,
        lookup
            .entries()
            .map(q!(|(key, (id, count))| (id, key, count)))
            .assume_ordering::<TotalOrder>(nondet!(/** observer */)),
    )
}

/// Single counter from the atomic-collections docs: `count()` + `cross_singleton`; the key is ignored.
pub fn c34_single_atomic<'a>(
    incs: S<'a, (u32, String)>,
    gets: S<'a, (u32, String)>,
) -> (S<'a, (u32, String)>, S<'a, C34Resp>) {
    let processing = incs.atomic();
    let count = processing.clone().count();
    let acks = processing.end_atomic();
    let resp = sliced! {
        let reqs = use::batch(gets, nondet!(/** batch boundaries are never observed */));
        let snap = use::atomic(count, nondet!(/** atomicity guarantees consistency wrt increments */));
        reqs.cross_singleton(snap)
    };
    (acks, resp.map(q!(|((id, key), count)| (id, key, count))))
}

/// The atomic region is opened by a slice (`yield_atomic`) instead of `atomic()`.
pub fn c34_yield_atomic<'a>(
    incs: S<'a, (u32, String)>,
    gets: S<'a, (u32, String)>,
) -> (S<'a, (u32, String)>, S<'a, C34Resp>) {
    let processing = sliced! {
        let batch = use::batch(incs, nondet!(/** batch boundaries are never observed */));
        yield_atomic(batch)
    };
    let count = processing.clone().count();
    let acks = processing.end_atomic();
    let resp = sliced! {
        let reqs = use::batch(gets, nondet!(/** batch boundaries are never observed */));
        let snap = use::atomic(count, nondet!(/** atomicity guarantees consistency wrt increments */));
        reqs.cross_singleton(snap)
    };
    (acks, resp.map(q!(|((id, key), count)| (id, key, count))))
}

/// POSITIVE CONTROL (deliberately wrong): same keyed service without the atomic region — the ack is the
/// request stream itself and the read path uses a plain `use::snapshot`.
pub fn c34_control_keyed<'a>(
    incs: S<'a, (u32, String)>,
    gets: S<'a, (u32, String)>,
) -> (S<'a, (u32, String)>, S<'a, C34Resp>) {
    let counts = incs
        .clone()
        .map(q!(|(_id, key)| (key, ())))
        .into_keyed()
        .value_counts();
    let acks = incs;
    let lookup = sliced! {
        let reqs = use::batch(
            gets.map(q!(|(id, key)| (key, id))).into_keyed(),
            nondet!(/** batch boundaries are never observed */)
        );
        let snap = use::snapshot(counts, nondet!(/** BUG (control): not atomic wrt the acks */));
        reqs.join_keyed_singleton(snap)
    };
    (
        acks,
        lookup
            .entries()
            .map(q!(|(key, (id, count))| (id, key, count)))
            .assume_ordering::<TotalOrder>(nondet!(/** observer */)),
    )
}

/// POSITIVE CONTROL (deliberately wrong): the non-atomic single counter from the docs.
pub fn c34_control_single<'a>(
    incs: S<'a, (u32, String)>,
    gets: S<'a, (u32, String)>,
) -> (S<'a, (u32, String)>, S<'a, C34Resp>) {
    let count = incs.clone().count();
    let acks = incs;
    let resp = sliced! {
        let reqs = use::batch(gets, nondet!(/** batch boundaries are never observed */));
        let snap = use::snapshot(count, nondet!(/** BUG (control): not atomic wrt the acks */));
        reqs.cross_singleton(snap)
    };
    (acks, resp.map(q!(|((id, key), count)| (id, key, count))))
}

// =================================================================================================
// C39: quorum helpers.

/// A response: (key, Ok(payload id) | Err(payload id)).
pub type C39Resp = (i64, Result<i64, i64>);

/// `collect_quorum`: (keys that reached quorum, errors passed through).
pub fn c39_quorum<'a>(a: S<'a, C39Resp>, min: usize, max: usize) -> (SU<'a, i64>, S<'a, (i64, i64)>) {
    collect_quorum(a.map(q!(|(k, r)| (k, r.map(|_| ())))), min, max)
}

/// `collect_quorum_with_response`: (Ok payloads of keys that reached quorum, errors passed through).
pub fn c39_quorum_resp<'a>(
    a: S<'a, C39Resp>,
    min: usize,
    max: usize,
) -> (S<'a, (i64, i64)>, S<'a, (i64, i64)>) {
    collect_quorum_with_response(a, min, max)
}

/// `join_responses` wired as in its own tests: metadata enters an atomic region, is acknowledged by
/// `end_atomic` (the harness waits for that before sending the response — the helper's contract is that the
/// metadata is generated in the same or an earlier tick than the response) and is batched atomically.
/// Outputs: (metadata acks, joined rows (key, (metadata, response))).
pub fn c39_join<'a>(
    process: &P<'a>,
    resp: S<'a, (i64, i64)>,
    meta: S<'a, (i64, i64)>,
) -> (S<'a, (i64, i64)>, SU<'a, (i64, (i64, i64))>) {
    let processing = meta.atomic();
    let ack = processing.clone().end_atomic();
    let metadata = processing
        .batch_atomic(&process.tick(), nondet!(/** as in the helper's own tests */))
        .weaken_ordering::<NoOrder>();
    (
        ack,
        join_responses(resp.weaken_ordering::<NoOrder>(), metadata),
    )
}
