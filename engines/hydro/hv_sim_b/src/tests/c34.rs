//! C34 (simulator half) — atomic acknowledgements imply read-after-write.
//!
//! A harness client sends increments, observes acknowledgements, then issues gets. Oracle (docs:
//! atomic-collections.mdx: "If a client receives an acknowledgement from end_atomic(), any subsequent
//! use::atomic snapshot will include the effects of that acknowledged operation"): every get issued after the
//! client observed k acknowledgements for its key (for the single-counter services: k acknowledgements in
//! total) is answered with a count >= k. The same oracle is run against deliberately non-atomic variants
//! (positive controls), which it must catch.
use std::collections::BTreeMap;

use hydro_lang::live_collections::stream::{ExactlyOnce, TotalOrder};
use hydro_lang::location::Location;
use hydro_lang::prelude::*;
use hydro_lang::sim::compiled::CompiledSim;
use hydro_lang::sim::{SimReceiver, SimSender};
use serde::{Deserialize, Serialize};
use vcommon::{Args, Reporter, Rng, Tier, json};

use super::corpus::{Corpus, Explored, Judgement, explore, replay};
use crate::flows::{self, C34Resp, Node};

type Tx<T> = &'static SimSender<T, TotalOrder, ExactlyOnce>;
type Rx<T> = SimReceiver<T, TotalOrder, ExactlyOnce>;

#[derive(Clone, Debug, Serialize, Deserialize, PartialEq, Eq, Hash)]
pub enum Step {
    /// send an increment for the key (not awaited)
    Inc(String),
    /// wait until every increment sent so far has been acknowledged
    Await,
    /// wait for exactly one more acknowledgement
    AwaitOne,
    /// issue a get for the key
    Get(String),
    /// issue a get for the key of the most recently observed acknowledgement
    GetLastAcked,
}

#[derive(Clone, Debug, Default, Serialize, Hash)]
pub struct Trace {
    pub incs_sent: Vec<(u32, String)>,
    pub acks_seen: Vec<(u32, String)>,
    /// (get id, key, acknowledgements observed for that key when the get was issued, acknowledgements observed in total)
    pub gets: Vec<(u32, String, usize, usize)>,
    pub resps: Vec<C34Resp>,
    /// the simulation quiesced while the client was still waiting for an acknowledgement
    pub ack_missing: bool,
}

#[derive(Clone, Copy)]
pub struct Ports {
    incs: Tx<(u32, String)>,
    gets: Tx<(u32, String)>,
    acks: Rx<(u32, String)>,
    resp: Rx<C34Resp>,
}

pub const NAMES: [&str; 6] = [
    "tutorial_keyed_counter",
    "single_atomic",
    "yield_atomic",
    "keyed_atomic",
    "control_keyed_nonatomic",
    "control_single_nonatomic",
];

/// W selects the service (index into NAMES).
pub struct Svc<const W: usize>;

impl<const W: usize> Svc<W> {
    const KEYED: bool = W == 0 || W == 3 || W == 4;
}

impl<const W: usize> Corpus for Svc<W> {
    const NAME: &'static str = NAMES[W];
    type Ports = Ports;
    type Script = Vec<Step>;
    type Trace = Trace;

    fn build() -> (CompiledSim, Ports) {
        let mut flow = FlowBuilder::new();
        let p = flow.process::<Node>();
        let (incs, i) = p.sim_input::<(u32, String), TotalOrder, ExactlyOnce>();
        let (gets, g) = p.sim_input::<(u32, String), TotalOrder, ExactlyOnce>();
        let (acks, resp) = match W {
            0 => flows::c34_tutorial(i, g),
            1 => flows::c34_single_atomic(i, g),
            2 => flows::c34_yield_atomic(i, g),
            3 => flows::c34_keyed_atomic(i, g),
            4 => flows::c34_control_keyed(i, g),
            _ => flows::c34_control_single(i, g),
        };
        let acks = acks.sim_output();
        let resp = resp.sim_output();
        (
            super::util::compile_locked(|| flow.sim().compiled()),
            Ports {
                incs: Box::leak(Box::new(incs)),
                gets: Box::leak(Box::new(gets)),
                acks,
                resp,
            },
        )
    }

    async fn drive(p: Ports, s: &Self::Script) -> Trace {
        let mut t = Trace::default();
        let mut next_id = 1u32;
        let mut outstanding = 0usize;
        let mut acked: BTreeMap<String, usize> = BTreeMap::new();
        let mut total_acked = 0usize;
        let mut last_acked: Option<String> = None;
        'script: for step in s {
            match step {
                Step::Inc(k) => {
                    p.incs.send((next_id, k.clone()));
                    t.incs_sent.push((next_id, k.clone()));
                    next_id += 1;
                    outstanding += 1;
                }
                Step::Await | Step::AwaitOne => {
                    let mut want = if matches!(step, Step::Await) { outstanding } else { outstanding.min(1) };
                    while want > 0 {
                        match p.acks.try_next().await {
                            Some((id, key)) => {
                                *acked.entry(key.clone()).or_default() += 1;
                                total_acked += 1;
                                last_acked = Some(key.clone());
                                t.acks_seen.push((id, key));
                                outstanding -= 1;
                                want -= 1;
                            }
                            None => {
                                // quiescent without the acknowledgement: nothing more may be sent
                                t.ack_missing = true;
                                break 'script;
                            }
                        }
                    }
                }
                Step::Get(k) => {
                    p.gets.send((next_id, k.clone()));
                    t.gets
                        .push((next_id, k.clone(), acked.get(k).copied().unwrap_or(0), total_acked));
                    next_id += 1;
                }
                Step::GetLastAcked => {
                    if let Some(k) = last_acked.clone() {
                        p.gets.send((next_id, k.clone()));
                        t.gets
                            .push((next_id, k.clone(), acked.get(&k).copied().unwrap_or(0), total_acked));
                        next_id += 1;
                    }
                }
            }
        }
        t.resps = p.resp.collect().await;
        let rest: Vec<(u32, String)> = p.acks.collect().await;
        t.acks_seen.extend(rest);
        t
    }

    fn judge(_s: &Self::Script, t: &Trace) -> Judgement {
        let mut j = Judgement::default();
        let mut informative = 0u64;
        for (id, key, k_key, k_total) in &t.gets {
            let k = if Self::KEYED { *k_key } else { *k_total };
            j.evals += 1;
            let answers: Vec<&C34Resp> = t.resps.iter().filter(|r| r.0 == *id).collect();
            if k >= 1 {
                informative += 1;
                match answers.first() {
                    None => j.find(
                        "get-after-ack-unanswered",
                        format!(
                            "get {id} for key {key:?} was issued after {k} acknowledgement(s) were observed but was never \
                             answered (the snapshot it read had no entry); trace {t:?}"
                        ),
                    ),
                    Some(r) if r.2 < k => j.find(
                        "stale-read-after-ack",
                        format!(
                            "get {id} for key {key:?} was issued after {k} acknowledgement(s) were observed but read {}; trace {t:?}",
                            r.2
                        ),
                    ),
                    _ => {}
                }
            }
        }
        j.nontrivial = informative >= 1;
        j.count("gets_after_ack", informative);
        j.count("gets", t.gets.len() as u64);
        j.count("acks_observed", t.acks_seen.len() as u64);
        if t.ack_missing {
            j.count("runs_where_an_ack_never_came", 1);
        }
        j
    }

    fn exhaustive_scripts(thorough: bool) -> Vec<Self::Script> {
        use Step::*;
        let a = || "a".to_string();
        let b = || "b".to_string();
        let mut v = vec![
            vec![Inc(a()), Await, Get(a())],
            vec![Inc(a()), Inc(a()), Await, Get(a())],
            vec![Inc(a()), Await, Inc(a()), Get(a())],
            vec![Inc(a()), Inc(a()), AwaitOne, GetLastAcked],
            vec![Inc(a()), Inc(b()), Await, Get(a()), Get(b())],
            vec![Inc(a()), Inc(b()), AwaitOne, GetLastAcked],
            vec![Inc(a()), Await, Inc(b()), Get(a()), Await, Get(b())],
        ];
        let _ = thorough;
        {
            v.push(vec![Inc(a()), Inc(a()), Inc(b()), Await, Get(a()), Get(b())]);
            v.push(vec![Inc(a()), Inc(a()), Inc(b()), Inc(b()), Await, Get(a()), Get(b())]);
            v.push(vec![Inc(a()), Await, Get(a()), Inc(a()), Await, Get(a())]);
        }
        v
    }

    fn random_script(r: &mut Rng) -> Self::Script {
        use Step::*;
        let keys = ["a", "b", "c"];
        let nk = 1 + r.below(3);
        let len = 6 + r.below(9);
        let mut s = vec![Inc(keys[r.below(nk)].to_string())];
        for _ in 0..len {
            let k = keys[r.below(nk)].to_string();
            s.push(match r.below(20) {
                0..=7 => Inc(k),
                8..=10 => Await,
                11..=13 => AwaitOne,
                14..=17 => Get(k),
                _ => GetLastAcked,
            });
        }
        s.push(Await);
        for k in keys.iter().take(nk) {
            s.push(Get(k.to_string()));
        }
        s
    }
}

const RULE: &str = "Counter services with an atomic write/ack path and an atomic read path (the shipped \
keyed_counter tutorial service; single counter with count()+cross_singleton; atomic region opened by \
yield_atomic and a keyed service written in the harness crate, both thorough tier only) are driven by a client script of increments, ack waits (all / one) and gets. Scripts with <= 2 \
increments and 1 get per key are explored with the simulator's exhaustive engine, random scripts of 8-18 steps \
over <= 3 keys with seeded schedules. A case is non-trivial when at least one get was issued after the client \
had observed an acknowledgement for its key; distinct = distinct (service, observed trace). The identical oracle \
must flag the non-atomic control variants.";

const TEST: &str = "c34_atomic_sim";

fn fold(rep: &mut Reporter, e: Explored, name: &str) {
    let complete = e.exhaustive_complete;
    for err in e.part.merge_into(rep, &[]) {
        rep.require(false, &format!("harness error: {err}"));
    }
    if !complete {
        rep.require(false, &format!("exhaustive exploration of {name} did not complete"));
    }
}

/// Run a positive control: its findings are expected and are NOT violations of the property; if the oracle does
/// not flag it the run is inconclusive.
fn control<const W: usize>(args: &Args, thorough: bool, budget: usize) {
    let mut rep = Reporter::new("C34", args.seed);
    let mut e = explore::<Svc<W>>("C34", TEST, args.seed, thorough, budget);
    let caught = e.failing_executions > 0;
    let kinds: std::collections::BTreeSet<String> =
        e.part.violations.iter().map(|(sig, _, _)| sig.clone()).collect();
    rep.extra("positive control", json!(NAMES[W]));
    rep.extra("control caught", json!(caught));
    rep.extra("control failing executions", json!(e.failing_executions));
    rep.extra("control failure kinds", json!(kinds));
    e.part.violations.clear();
    e.part.counters.remove("violations_not_listed");
    e.part.nontrivial.clear();
    e.part.samples.clear();
    fold(&mut rep, e, NAMES[W]);
    rep.require(
        caught,
        &format!("positive control {} was NOT caught by the oracle — run is inconclusive", NAMES[W]),
    );
    rep.finish(RULE, true);
}

pub fn run() {
    println!();
    let args = Args::from_env();
    if args.prop == "NONE" {
        return;
    }
    let mut rep = Reporter::new("C34", args.seed);
    if let Some(case) = args.replay_case() {
        // a replay descriptor of another stage / another test of this property: not ours, nothing to do
        if case["engine"].as_str() != Some("hv_sim_b") || case["test"].as_str() != Some("c34_atomic_sim") {
            return;
        }
        let flow = case["flow"].as_str().unwrap_or("");
        let e = match NAMES.iter().position(|n| *n == flow).unwrap_or(0) {
            0 => replay::<Svc<0>>("C34", TEST, &case),
            1 => replay::<Svc<1>>("C34", TEST, &case),
            2 => replay::<Svc<2>>("C34", TEST, &case),
            3 => replay::<Svc<3>>("C34", TEST, &case),
            4 => replay::<Svc<4>>("C34", TEST, &case),
            _ => replay::<Svc<5>>("C34", TEST, &case),
        };
        for err in e.part.merge_into(&mut rep, &[]) {
            rep.require(false, &format!("harness error: {err}"));
        }
        rep.finish(RULE, false);
        return;
    }
    let thorough = args.tier == Tier::Thorough;
    let budget = args.budget(20_000, 400_000, 20);
    drop(rep);
    // One summary per service / control (see c31.rs for why). Controls first: if the oracle cannot catch the
    // deliberately broken variants, everything after is inconclusive anyway.
    control::<4>(&args, thorough, budget);
    control::<5>(&args, thorough, budget);
    service::<0>(&args, thorough, budget);
    service::<1>(&args, thorough, budget);
    if thorough {
        // (each additional flow costs about a minute of rustc inside the simulator's `compiled()`)
        service::<2>(&args, thorough, budget);
        service::<3>(&args, thorough, budget);
    }
}

fn service<const W: usize>(args: &Args, thorough: bool, budget: usize) {
    let mut rep = Reporter::new("C34", args.seed);
    let t0 = std::time::Instant::now();
    fold(&mut rep, explore::<Svc<W>>("C34", TEST, args.seed, thorough, budget), NAMES[W]);
    let f = NAMES[W];
    rep.extra("service", json!(f));
    rep.extra("seconds", json!(t0.elapsed().as_secs_f64()));
    rep.require(
        rep.counter(&format!("{f}_exhaustive_executions")) >= 30,
        &format!("{f}: fewer than 30 exhaustive executions"),
    );
    rep.require(
        rep.counter(&format!("{f}_gets_after_ack")) >= 100,
        &format!("{f}: fewer than 100 gets issued after an observed acknowledgement"),
    );
    rep.require(
        rep.counter(&format!("{f}_runs_where_an_ack_never_came")) == 0,
        &format!("{f}: an acknowledgement never arrived"),
    );
    rep.finish(RULE, true);
}
