//! C39 (simulator half) — quorum collection is batching-independent and fires once per key; the
//! request/response joiner pairs every response with its metadata exactly once.
//!
//! Oracle (from the helpers' documented intent; contract: at most `max` responses per key):
//!  * `collect_quorum`: at quiescence a key has been emitted exactly once iff its responses contain >= min Ok,
//!    never otherwise — whatever batching the simulator chose;
//!  * `collect_quorum_with_response`: only Ok payloads of keys that reached quorum are emitted, each at most
//!    once, at least `min` of them per such key (how many beyond `min` legitimately depends on batching when
//!    max > min and is not constrained);
//!  * both: every Err response is passed through exactly once;
//!  * `join_responses` (contract: the metadata is generated in the same or an earlier tick than the response —
//!    the harness waits for the metadata's `end_atomic` acknowledgement before sending the response; one
//!    response and one metadata per key): every such response is emitted exactly once, paired with its own
//!    metadata, regardless of the order in which responses arrive and of how many ticks lie in between;
//!    nothing else is emitted.
use std::collections::BTreeMap;

use hydro_lang::live_collections::stream::{ExactlyOnce, NoOrder, TotalOrder};
use hydro_lang::location::Location;
use hydro_lang::prelude::*;
use hydro_lang::sim::compiled::CompiledSim;
use hydro_lang::sim::{SimReceiver, SimSender};
use serde::{Deserialize, Serialize};
use vcommon::{Args, Reporter, Rng, Tier, json};

use super::corpus::{Corpus, Explored, Judgement, explore, replay};
use crate::flows::{self, C39Resp, Node};

type Tx<T> = &'static SimSender<T, TotalOrder, ExactlyOnce>;
type Rx<T> = SimReceiver<T, TotalOrder, ExactlyOnce>;
type RxU<T> = SimReceiver<T, NoOrder, ExactlyOnce>;

/// All (min, max) with 1 <= min <= max <= 3.
pub const BOUNDS: [(usize, usize); 6] = [(1, 1), (1, 2), (2, 2), (1, 3), (2, 3), (3, 3)];

#[derive(Clone, Debug, Serialize, Deserialize, Hash)]
pub struct QScript {
    /// 0 = collect_quorum, 1 = collect_quorum_with_response
    pub helper: u8,
    /// index into BOUNDS
    pub bounds: usize,
    /// (key, is_ok) in arrival order; response i carries payload id 100+i (Ok) / 200+i (Err)
    pub responses: Vec<(i64, bool)>,
}

#[derive(Clone, Debug, Default, Serialize, Hash)]
pub struct QTrace {
    pub keys: Vec<i64>,
    pub payloads: Vec<(i64, i64)>,
    pub errs: Vec<(i64, i64)>,
}

#[derive(Clone, Copy)]
pub struct QPorts {
    q_in: [Tx<C39Resp>; 6],
    q_ok: [RxU<i64>; 6],
    q_err: [Rx<(i64, i64)>; 6],
    r_in: [Tx<C39Resp>; 6],
    r_ok: [Rx<(i64, i64)>; 6],
    r_err: [Rx<(i64, i64)>; 6],
}

pub struct Quorum;

/// Sequences over keys {1,2} (first response has key 1) with at most `max` responses per key and total
/// length <= `max_len`, every Ok/Err labelling.
fn sequences(max: usize, max_len: usize) -> Vec<Vec<(i64, bool)>> {
    fn rec(cur: &mut Vec<(i64, bool)>, c1: usize, c2: usize, max: usize, max_len: usize, out: &mut Vec<Vec<(i64, bool)>>) {
        if !cur.is_empty() {
            out.push(cur.clone());
        }
        if cur.len() == max_len {
            return;
        }
        for key in [1i64, 2] {
            if cur.is_empty() && key == 2 {
                continue;
            }
            let c = if key == 1 { c1 } else { c2 };
            if c == max {
                continue;
            }
            for ok in [true, false] {
                cur.push((key, ok));
                if key == 1 {
                    rec(cur, c1 + 1, c2, max, max_len, out);
                } else {
                    rec(cur, c1, c2 + 1, max, max_len, out);
                }
                cur.pop();
            }
        }
    }
    let mut out = vec![];
    rec(&mut vec![], 0, 0, max, max_len, &mut out);
    out
}

impl Corpus for Quorum {
    const NAME: &'static str = "quorum";
    type Ports = QPorts;
    type Script = QScript;
    type Trace = QTrace;

    fn build() -> (CompiledSim, QPorts) {
        let mut flow = FlowBuilder::new();
        let p = flow.process::<Node>();
        let mut q_in = vec![];
        let mut q_ok = vec![];
        let mut q_err = vec![];
        let mut r_in = vec![];
        let mut r_ok = vec![];
        let mut r_err = vec![];
        for (min, max) in BOUNDS {
            let (tx, s) = p.sim_input::<C39Resp, TotalOrder, ExactlyOnce>();
            let (ok, err) = flows::c39_quorum(s, min, max);
            q_in.push(&*Box::leak(Box::new(tx)));
            q_ok.push(ok.sim_output());
            q_err.push(err.sim_output());
            let (tx, s) = p.sim_input::<C39Resp, TotalOrder, ExactlyOnce>();
            let (ok, err) = flows::c39_quorum_resp(s, min, max);
            r_in.push(&*Box::leak(Box::new(tx)));
            r_ok.push(ok.sim_output());
            r_err.push(err.sim_output());
        }
        fn arr<T: Copy>(v: Vec<T>) -> [T; 6] {
            [v[0], v[1], v[2], v[3], v[4], v[5]]
        }
        (
            super::util::compile_locked(|| flow.sim().compiled()),
            QPorts {
                q_in: arr(q_in),
                q_ok: arr(q_ok),
                q_err: arr(q_err),
                r_in: arr(r_in),
                r_ok: arr(r_ok),
                r_err: arr(r_err),
            },
        )
    }

    async fn drive(p: QPorts, s: &QScript) -> QTrace {
        let msgs: Vec<C39Resp> = s
            .responses
            .iter()
            .enumerate()
            .map(|(i, (k, ok))| (*k, if *ok { Ok(100 + i as i64) } else { Err(200 + i as i64) }))
            .collect();
        let b = s.bounds;
        let mut t = QTrace::default();
        if s.helper == 0 {
            p.q_in[b].send_many(msgs);
            t.keys = p.q_ok[b].collect_sorted().await;
            t.errs = p.q_err[b].collect().await;
        } else {
            p.r_in[b].send_many(msgs);
            t.payloads = p.r_ok[b].collect().await;
            t.errs = p.r_err[b].collect().await;
        }
        t
    }

    fn judge(s: &QScript, t: &QTrace) -> Judgement {
        let (min, _max) = BOUNDS[s.bounds];
        let mut j = Judgement::default();
        let mut oks: BTreeMap<i64, Vec<i64>> = BTreeMap::new();
        let mut errs: Vec<(i64, i64)> = vec![];
        for (i, (k, ok)) in s.responses.iter().enumerate() {
            oks.entry(*k).or_default();
            if *ok {
                oks.get_mut(k).unwrap().push(100 + i as i64);
            } else {
                errs.push((*k, 200 + i as i64));
            }
        }
        let ctx = || format!("helper {} (min,max)={:?} responses {:?} observed {:?}", s.helper, BOUNDS[s.bounds], s.responses, t);
        let mut reached = 0u64;
        for (k, ok_ids) in &oks {
            j.evals += 1;
            let quorum = ok_ids.len() >= min;
            if quorum {
                reached += 1;
            }
            if s.helper == 0 {
                let times = t.keys.iter().filter(|x| *x == k).count();
                match (quorum, times) {
                    (true, 0) => j.find("quorum-not-reported", format!("key {k} has >= min Ok responses but was never emitted; {}", ctx())),
                    (true, 1) | (false, 0) => {}
                    (true, _) => j.find("quorum-reported-more-than-once", format!("key {k} was emitted {times} times; {}", ctx())),
                    (false, _) => j.find("reported-without-quorum", format!("key {k} has fewer than min Ok responses but was emitted; {}", ctx())),
                }
            } else {
                let got: Vec<i64> = t.payloads.iter().filter(|x| x.0 == *k).map(|x| x.1).collect();
                if got.iter().any(|id| !ok_ids.contains(id)) {
                    j.find("payload-not-an-ok-response-of-the-key", format!("key {k}: emitted payloads {got:?}; {}", ctx()));
                }
                let mut d = got.clone();
                d.sort();
                d.dedup();
                if d.len() != got.len() {
                    j.find("payload-emitted-more-than-once", format!("key {k}: emitted payloads {got:?}; {}", ctx()));
                }
                if quorum && d.len() < min {
                    j.find("fewer-than-min-payloads-for-quorum-key", format!("key {k}: emitted payloads {got:?}; {}", ctx()));
                }
                if !quorum && !got.is_empty() {
                    j.find("payload-without-quorum", format!("key {k}: emitted payloads {got:?}; {}", ctx()));
                }
            }
        }
        if s.helper == 0 && t.keys.iter().any(|k| !oks.contains_key(k)) {
            j.find("reported-without-quorum", format!("a key that never responded was emitted; {}", ctx()));
        }
        if s.helper == 1 && t.payloads.iter().any(|(k, _)| !oks.contains_key(k)) {
            j.find("payload-without-quorum", format!("a key that never responded was emitted; {}", ctx()));
        }
        j.evals += 1;
        let mut want = errs.clone();
        let mut got = t.errs.clone();
        want.sort();
        got.sort();
        if want != got {
            let kind = if got.len() < want.len() { "error-not-passed-through" } else { "error-passed-through-more-than-once" };
            j.find(kind, format!("expected errors {want:?}, got {got:?}; {}", ctx()));
        }
        j.nontrivial = reached >= 1 && s.responses.len() >= 2;
        j.count("keys_reaching_quorum", reached);
        j.count("error_responses", errs.len() as u64);
        j
    }

    fn exhaustive_scripts(thorough: bool) -> Vec<QScript> {
        let mut v = vec![];
        for (bi, (_min, max)) in BOUNDS.iter().enumerate() {
            let max_len = if thorough { 2 * max } else { (2 * max).min(4) };
            for seq in sequences(*max, max_len) {
                for helper in [0u8, 1] {
                    v.push(QScript {
                        helper,
                        bounds: bi,
                        responses: seq.clone(),
                    });
                }
            }
        }
        v
    }

    fn random_script(r: &mut Rng) -> QScript {
        let bounds = r.below(6);
        let (_min, max) = BOUNDS[bounds];
        let nkeys = 2 + r.below(3) as i64;
        let mut resp = vec![];
        for k in 1..=nkeys {
            for _ in 0..r.below(max + 1) {
                resp.push((k, r.chance(2, 3)));
            }
        }
        r.shuffle(&mut resp);
        if resp.is_empty() {
            resp.push((1, true));
        }
        QScript {
            helper: r.below(2) as u8,
            bounds,
            responses: resp,
        }
    }
}

// -------------------------------------------------------------------------------------------------
#[derive(Clone, Debug, Serialize, Deserialize, PartialEq, Eq, Hash)]
pub enum JStep {
    /// send metadata (key, 1000+key)
    Meta(i64),
    /// wait until every metadata sent so far has been acknowledged by end_atomic
    AwaitMeta,
    /// send response (key, 2000+key)
    Resp(i64),
}

#[derive(Clone, Debug, Default, Serialize, Hash)]
pub struct JTrace {
    pub joined: Vec<(i64, (i64, i64))>,
    /// keys whose response was sent after their metadata was acknowledged
    pub eligible: Vec<i64>,
    /// keys whose response was sent although no metadata for them had been acknowledged
    pub not_eligible: Vec<i64>,
    pub ack_missing: bool,
}

#[derive(Clone, Copy)]
pub struct JPorts {
    meta: Tx<(i64, i64)>,
    resp: Tx<(i64, i64)>,
    ack: Rx<(i64, i64)>,
    joined: RxU<(i64, (i64, i64))>,
}

pub struct Join;

impl Corpus for Join {
    const NAME: &'static str = "join_responses";
    type Ports = JPorts;
    type Script = Vec<JStep>;
    type Trace = JTrace;

    fn build() -> (CompiledSim, JPorts) {
        let mut flow = FlowBuilder::new();
        let p = flow.process::<Node>();
        let (resp, r) = p.sim_input::<(i64, i64), TotalOrder, ExactlyOnce>();
        let (meta, m) = p.sim_input::<(i64, i64), TotalOrder, ExactlyOnce>();
        let (ack, joined) = flows::c39_join(&p, r, m);
        let ack = ack.sim_output();
        let joined = joined.sim_output();
        (
            super::util::compile_locked(|| flow.sim().compiled()),
            JPorts {
                meta: Box::leak(Box::new(meta)),
                resp: Box::leak(Box::new(resp)),
                ack,
                joined,
            },
        )
    }

    async fn drive(p: JPorts, s: &Self::Script) -> JTrace {
        let mut t = JTrace::default();
        let mut outstanding = 0usize;
        let mut acked: Vec<i64> = vec![];
        'script: for step in s {
            match step {
                JStep::Meta(k) => {
                    p.meta.send((*k, 1000 + *k));
                    outstanding += 1;
                }
                JStep::AwaitMeta => {
                    while outstanding > 0 {
                        match p.ack.try_next().await {
                            Some((k, _)) => {
                                acked.push(k);
                                outstanding -= 1;
                            }
                            None => {
                                t.ack_missing = true;
                                break 'script;
                            }
                        }
                    }
                }
                JStep::Resp(k) => {
                    p.resp.send((*k, 2000 + *k));
                    if acked.contains(k) {
                        t.eligible.push(*k);
                    } else {
                        t.not_eligible.push(*k);
                    }
                }
            }
        }
        t.joined = p.joined.collect_sorted().await;
        t
    }

    fn judge(s: &Self::Script, t: &JTrace) -> Judgement {
        let mut j = Judgement::default();
        let ctx = || format!("script {s:?} observed {t:?}");
        for k in &t.eligible {
            j.evals += 1;
            let rows: Vec<&(i64, (i64, i64))> = t.joined.iter().filter(|r| r.0 == *k).collect();
            match rows.len() {
                0 => j.find("response-not-joined", format!("response for key {k} (metadata acknowledged earlier) was never emitted; {}", ctx())),
                1 => {
                    if rows[0].1 != (1000 + k, 2000 + k) {
                        j.find("joined-with-wrong-metadata", format!("key {k} joined as {:?}; {}", rows[0], ctx()));
                    }
                }
                _ => j.find("response-joined-more-than-once", format!("key {k} joined {} times; {}", rows.len(), ctx())),
            }
        }
        // keys whose metadata had not been acknowledged when the response was sent are outside the contract,
        // except that a key which never had any metadata can have nothing to be paired with
        let metas: Vec<i64> = s.iter().filter_map(|x| if let JStep::Meta(k) = x { Some(*k) } else { None }).collect();
        for r in &t.joined {
            j.evals += 1;
            if !metas.contains(&r.0) {
                j.find("joined-without-metadata", format!("row {r:?} for a key that never had metadata; {}", ctx()));
            }
        }
        j.nontrivial = t.eligible.len() >= 2;
        j.count("eligible_responses", t.eligible.len() as u64);
        if t.ack_missing {
            j.count("runs_where_an_ack_never_came", 1);
        }
        j
    }

    fn exhaustive_scripts(thorough: bool) -> Vec<Self::Script> {
        use JStep::*;
        let mut v = vec![
            vec![Meta(1), AwaitMeta, Resp(1)],
            vec![Meta(1), Meta(2), AwaitMeta, Resp(2), Resp(1)],
            vec![Meta(1), Meta(2), AwaitMeta, Resp(1), Resp(2)],
            vec![Meta(1), AwaitMeta, Resp(1), Meta(2), AwaitMeta, Resp(2)],
            vec![Meta(1), AwaitMeta, Meta(2), Resp(1), AwaitMeta, Resp(2)],
            vec![Meta(1), AwaitMeta, Resp(1), Resp(9)],
            vec![Meta(1), Meta(2), AwaitMeta, Resp(2)],
        ];
        if thorough {
            for perm in [[1, 2, 3], [1, 3, 2], [2, 1, 3], [2, 3, 1], [3, 1, 2], [3, 2, 1]] {
                let mut s = vec![Meta(1), Meta(2), Meta(3), AwaitMeta];
                s.extend(perm.iter().map(|k| Resp(*k)));
                v.push(s);
            }
            v.push(vec![Meta(1), AwaitMeta, Meta(2), Resp(1), Meta(3), AwaitMeta, Resp(3), Resp(2)]);
        }
        v
    }

    fn random_script(r: &mut Rng) -> Self::Script {
        use JStep::*;
        let n = 2 + r.below(5) as i64;
        let mut s = vec![];
        let mut pending_meta: Vec<i64> = vec![];
        let mut acked: Vec<i64> = vec![];
        let mut keys: Vec<i64> = (1..=n).collect();
        r.shuffle(&mut keys);
        let mut next = 0usize;
        while next < keys.len() || !acked.is_empty() || !pending_meta.is_empty() {
            match r.below(3) {
                0 if next < keys.len() => {
                    s.push(Meta(keys[next]));
                    pending_meta.push(keys[next]);
                    next += 1;
                }
                1 if !pending_meta.is_empty() => {
                    s.push(AwaitMeta);
                    acked.append(&mut pending_meta);
                }
                2 if !acked.is_empty() => {
                    let i = r.below(acked.len());
                    s.push(Resp(acked.remove(i)));
                }
                _ => {}
            }
        }
        if r.chance(1, 4) {
            s.push(Resp(99));
        }
        s
    }
}

const RULE: &str = "collect_quorum and collect_quorum_with_response for every (min,max) with 1<=min<=max<=3: \
every response sequence over 2 keys with <= max responses per key and every Ok/Err labelling (total length <= 4 \
in quick, <= 2*max in thorough) is fed to the simulator's exhaustive engine, which enumerates every batching; \
longer random sequences over <= 4 keys run under seeded schedules. join_responses: scripts of metadata sends, \
waits for the end_atomic acknowledgement and responses in every order (exhaustive for <= 3 keys, seeded \
schedules for random scripts over <= 6 keys). A case is non-trivial when some key reached quorum in a sequence \
of >= 2 responses (quorum) / >= 2 responses were eligible for joining (join); distinct = distinct (script, trace).";

const TEST: &str = "c39_quorum_sim";

fn fold(rep: &mut Reporter, e: Explored, name: &str) {
    let complete = e.exhaustive_complete;
    for err in e.part.merge_into(rep, &[]) {
        rep.require(false, &format!("harness error: {err}"));
    }
    if !complete {
        rep.require(false, &format!("exhaustive exploration of {name} did not complete"));
    }
}

pub fn run() {
    println!();
    let args = Args::from_env();
    if args.prop == "NONE" {
        return;
    }
    let mut rep = Reporter::new("C39", args.seed);
    if let Some(case) = args.replay_case() {
        // a replay descriptor of another stage / another test of this property: not ours, nothing to do
        if case["engine"].as_str() != Some("hv_sim_b") || case["test"].as_str() != Some("c39_quorum_sim") {
            return;
        }
        let e = if case["flow"].as_str() == Some("join_responses") {
            replay::<Join>("C39", TEST, &case)
        } else {
            replay::<Quorum>("C39", TEST, &case)
        };
        for err in e.part.merge_into(&mut rep, &[]) {
            rep.require(false, &format!("harness error: {err}"));
        }
        rep.finish(RULE, false);
        return;
    }
    let thorough = args.tier == Tier::Thorough;
    let budget = args.budget(20_000, 400_000, 20);
    drop(rep);
    // one summary per helper family (see c31.rs for why)
    {
        let mut rep = Reporter::new("C39", args.seed);
        let t0 = std::time::Instant::now();
        fold(&mut rep, explore::<Quorum>("C39", TEST, args.seed, thorough, budget), "quorum");
        rep.extra("helpers", json!("collect_quorum, collect_quorum_with_response"));
        rep.extra("seconds", json!(t0.elapsed().as_secs_f64()));
        rep.require(rep.counter("quorum_exhaustive_scripts") >= 500, "fewer than 500 response sequences enumerated");
        rep.require(rep.counter("quorum_exhaustive_executions") >= 5000, "fewer than 5000 exhaustive quorum executions");
        rep.require(rep.counter("quorum_keys_reaching_quorum") >= 1000, "too few keys reached quorum");
        rep.require(rep.counter("quorum_error_responses") >= 1000, "too few error responses");
        rep.finish(RULE, true);
    }
    {
        let mut rep = Reporter::new("C39", args.seed);
        let t0 = std::time::Instant::now();
        fold(&mut rep, explore::<Join>("C39", TEST, args.seed, thorough, budget), "join_responses");
        rep.extra("helpers", json!("join_responses"));
        rep.extra("seconds", json!(t0.elapsed().as_secs_f64()));
        rep.require(rep.counter("join_responses_exhaustive_executions") >= 20, "fewer than 20 exhaustive join executions");
        rep.require(rep.counter("join_responses_eligible_responses") >= 500, "too few joinable responses");
        rep.require(rep.counter("join_responses_runs_where_an_ack_never_came") == 0, "a metadata acknowledgement never arrived");
        rep.finish(RULE, true);
    }
}
