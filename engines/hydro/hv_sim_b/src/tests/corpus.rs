//! Generic explorer for corpus flows (C31 / C34 / C39): a flow + a harness script language + a judge.
//! Small scripts are explored with the simulator's `exhaustive` engine, larger random ones with seeded
//! single-instance schedules (see util.rs).
use std::fmt::Debug;
use std::future::Future;
use std::hash::Hash;
use std::panic::RefUnwindSafe;
use std::sync::Mutex;

use hydro_lang::sim::compiled::CompiledSim;
use serde::Serialize;
use serde::de::DeserializeOwned;
use vcommon::{Rng, Value, hash_of, json};

use super::util::{Partial, hex, run_exhaustive, run_schedule, sched_bytes, unhex};

#[derive(Default)]
pub struct Judgement {
    /// (failure kind, human-readable detail)
    pub findings: Vec<(String, String)>,
    pub nontrivial: bool,
    pub evals: u64,
    pub counters: Vec<(&'static str, u64)>,
}

impl Judgement {
    pub fn find(&mut self, kind: &str, detail: String) {
        if !self.findings.iter().any(|(k, _)| k == kind) {
            self.findings.push((kind.to_string(), detail));
        }
    }
    pub fn count(&mut self, k: &'static str, n: u64) {
        self.counters.push((k, n));
    }
}

pub trait Corpus {
    const NAME: &'static str;
    type Ports: Copy + RefUnwindSafe + 'static;
    type Script: Clone + Debug + Serialize + DeserializeOwned + RefUnwindSafe;
    type Trace: Clone + Debug + Hash + Serialize + Default;
    fn build() -> (CompiledSim, Self::Ports);
    /// Runs the harness script against one simulator instance and returns everything observed.
    fn drive(p: Self::Ports, s: &Self::Script) -> impl Future<Output = Self::Trace>;
    fn judge(s: &Self::Script, t: &Self::Trace) -> Judgement;
    fn exhaustive_scripts(thorough: bool) -> Vec<Self::Script>;
    fn random_script(r: &mut Rng) -> Self::Script;
}

pub struct Explored {
    pub part: Partial,
    /// number of executions with at least one finding
    pub failing_executions: u64,
    pub exhaustive_complete: bool,
}

fn case_json<F: Corpus>(test: &str, mode: &str, script: &F::Script, bytes: Option<&[u8]>, t: &F::Trace) -> Value {
    let mut c = json!({"engine":"hv_sim_b","test":test,"flow":F::NAME,"mode":mode,
                       "script":serde_json::to_value(script).unwrap(),
                       "observed":serde_json::to_value(t).unwrap()});
    if let Some(b) = bytes {
        c["bytes_hex"] = json!(hex(b));
    }
    c
}

fn book<F: Corpus>(
    part: &mut Partial,
    prop: &str,
    test: &str,
    mode: &str,
    script: &F::Script,
    bytes: Option<&[u8]>,
    t: &F::Trace,
    failing: &mut u64,
) {
    let j = F::judge(script, t);
    part.evals += j.evals.max(1);
    part.count(&format!("{}_{mode}_executions", F::NAME));
    for (k, n) in &j.counters {
        part.count_n(&format!("{}_{k}", F::NAME), *n);
    }
    if j.nontrivial {
        part.nontrivial.push(hash_of(&(F::NAME, t)));
        part.count(&format!("{}_nontrivial_executions", F::NAME));
        part.sample(|| json!({"flow":F::NAME,"mode":mode,"script":serde_json::to_value(script).unwrap(),
                               "observed":serde_json::to_value(t).unwrap()}));
    }
    if !j.findings.is_empty() {
        *failing += 1;
    }
    for (kind, detail) in j.findings {
        part.violation(
            &format!("{prop}|{}|{kind}", F::NAME),
            &detail,
            case_json::<F>(test, mode, script, bytes, t),
        );
    }
}

/// Explore one corpus flow: all `exhaustive_scripts` under the exhaustive engine, then `fuzz_budget`
/// random scripts with seeded schedules.
pub fn explore<F: Corpus>(prop: &str, test: &str, seed: u64, thorough: bool, fuzz_budget: usize) -> Explored {
    let t_build = std::time::Instant::now();
    let mut part = Partial::default();
    // Smoke run: if the very first script already fails inside the harness/simulator plumbing (observed when the
    // simulator handed this process a dylib built for another flow by a concurrent build in the shared trybuild
    // directory), rebuild instead of reporting 10^4 identical harness errors. A program under test that really
    // breaks the first script still breaks it after the rebuilds and is reported as before.
    let mut attempt = 0;
    let (sim, ports) = loop {
        let (sim, ports) = F::build();
        let ok = match F::exhaustive_scripts(thorough).into_iter().next() {
            Some(script) => run_exhaustive(&sim, async || {
                let _ = F::drive(ports, &script).await;
            })
            .is_ok(),
            None => true,
        };
        if ok || attempt >= 2 {
            break (sim, ports);
        }
        attempt += 1;
        part.count(&format!("{}_rebuilds_after_failed_smoke_run", F::NAME));
        std::thread::sleep(std::time::Duration::from_secs(5));
    };
    part.count_n(&format!("{}_ms_build", F::NAME), t_build.elapsed().as_millis() as u64);
    let mut failing = 0u64;
    let mut exhaustive_complete = true;

    let t_ex = std::time::Instant::now();
    for script in F::exhaustive_scripts(thorough) {
        let agg: Mutex<(Partial, u64)> = Mutex::new((Partial::default(), 0));
        let res = run_exhaustive(&sim, async || {
            let t = F::drive(ports, &script).await;
            let mut g = agg.lock().unwrap();
            let (p, f) = &mut *g;
            book::<F>(p, prop, test, "exhaustive", &script, None, &t, f);
        });
        let (p, f) = agg.into_inner().unwrap_or_else(|e| e.into_inner());
        failing += f;
        merge(&mut part, p);
        part.count(&format!("{}_exhaustive_scripts", F::NAME));
        if let Err(msg) = res {
            exhaustive_complete = false;
            part.harness_error(format!(
                "{} exhaustive script {:?} stopped: {msg}",
                F::NAME,
                script
            ));
        }
    }

    part.count_n(&format!("{}_ms_exhaustive", F::NAME), t_ex.elapsed().as_millis() as u64);
    let t_fz = std::time::Instant::now();
    let base = Rng::new(seed).fork(hash_of(F::NAME));
    for i in 0..fuzz_budget {
        let mut rng = base.fork(i as u64);
        let script = F::random_script(&mut rng);
        let bytes = sched_bytes(&mut rng);
        let cell: Mutex<Option<F::Trace>> = Mutex::new(None);
        let res = run_schedule(&sim, bytes.clone(), async || {
            let t = F::drive(ports, &script).await;
            *cell.lock().unwrap() = Some(t);
        });
        let t = cell.into_inner().unwrap_or_else(|e| e.into_inner());
        match (res, t) {
            (Ok(()), Some(t)) => book::<F>(&mut part, prop, test, "fuzz", &script, Some(&bytes), &t, &mut failing),
            (Err(msg), _) => part.harness_error(format!("{} fuzz script {:?}: {msg}", F::NAME, script)),
            (Ok(()), None) => part.harness_error(format!("{} fuzz script {:?}: no trace", F::NAME, script)),
        }
    }
    part.count_n(&format!("{}_ms_fuzz", F::NAME), t_fz.elapsed().as_millis() as u64);
    Explored {
        part,
        failing_executions: failing,
        exhaustive_complete,
    }
}

fn merge(into: &mut Partial, from: Partial) {
    into.evals += from.evals;
    for (k, n) in from.counters {
        into.count_n(&k, n);
    }
    into.nontrivial.extend(from.nontrivial);
    for (s, w, c) in from.violations {
        into.violation(&s, &w, c);
    }
    for s in from.samples {
        into.sample(|| s);
    }
    for e in from.harness_errors {
        into.harness_error(e);
    }
}

/// Re-run exactly one recorded case.
pub fn replay<F: Corpus>(prop: &str, test: &str, case: &Value) -> Explored {
    let (sim, ports) = F::build();
    let script: F::Script = serde_json::from_value(case["script"].clone()).expect("script");
    let mut part = Partial::default();
    let mut failing = 0u64;
    let mut exhaustive_complete = false;
    if case["mode"].as_str() == Some("fuzz") {
        let bytes = unhex(case["bytes_hex"].as_str().expect("bytes_hex"));
        let cell: Mutex<Option<F::Trace>> = Mutex::new(None);
        let res = run_schedule(&sim, bytes.clone(), async || {
            let t = F::drive(ports, &script).await;
            *cell.lock().unwrap() = Some(t);
        });
        let t = cell.into_inner().unwrap_or_else(|e| e.into_inner());
        match (res, t) {
            (Ok(()), Some(t)) => {
                println!("{}", json!({"t":"note","replay":F::NAME,"observed":serde_json::to_value(&t).unwrap()}));
                book::<F>(&mut part, prop, test, "fuzz", &script, Some(&bytes), &t, &mut failing)
            }
            (Err(msg), _) => part.harness_error(format!("{} replay: {msg}", F::NAME)),
            (Ok(()), None) => part.harness_error(format!("{} replay: no trace", F::NAME)),
        }
    } else {
        let agg: Mutex<(Partial, u64)> = Mutex::new((Partial::default(), 0));
        let res = run_exhaustive(&sim, async || {
            let t = F::drive(ports, &script).await;
            let mut g = agg.lock().unwrap();
            let (p, f) = &mut *g;
            book::<F>(p, prop, test, "exhaustive", &script, None, &t, f);
        });
        let (p, f) = agg.into_inner().unwrap_or_else(|e| e.into_inner());
        failing += f;
        merge(&mut part, p);
        exhaustive_complete = res.is_ok();
        if let Err(msg) = res {
            part.harness_error(format!("{} replay (exhaustive) stopped: {msg}", F::NAME));
        }
    }
    Explored {
        part,
        failing_executions: failing,
        exhaustive_complete,
    }
}
