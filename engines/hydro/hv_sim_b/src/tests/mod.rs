//! Simulator-driven monitors (run by bin/check through the `cargotest` stage kind).
mod c31;
mod c34;
mod c39;
mod c40;
mod corpus;
mod paxos;
mod util;

/// C40 (primary): Raft.
#[test]
fn c40_raft() {
    c40::raft();
}

/// C40 (primary): Paxos (production embedded codegen under a harness scheduler; see paxos.rs for why).
#[test]
fn c40_paxos() {
    paxos::run();
}

/// Sizing probe for the bounded-exhaustive Raft scenario (not registered).
#[test]
#[ignore]
fn c40_probe_exhaustive() {
    c40::probe_exhaustive();
}

/// C31, simulator half.
#[test]
fn c31_slices_sim() {
    c31::run();
}

/// C34, simulator half (+ positive controls).
#[test]
fn c34_atomic_sim() {
    c34::run();
}

/// C39, simulator half.
#[test]
fn c39_quorum_sim() {
    c39::run();
}
