//! C40 — replicated log examples never diverge (Raft part).
//!
//! The shipped `hydro_test::cluster::raft::raft_server` is built for the simulator with N members; election
//! timers, heartbeat timers and client requests are simulator inputs driven by the harness. What the harness
//! observes is each member's `committed` output stream (plus `leader_views` and `redirected` for coverage
//! evidence). The oracle is the harness's own: for all members a, b and all log indexes i, the entries they
//! committed at i are equal whenever both committed one, and a member never emits a different entry for an
//! index it already committed. It is evaluated at every phase barrier, i.e. over time.
use std::collections::{BTreeMap, BTreeSet, HashSet};
use std::sync::Mutex;

use hydro_lang::live_collections::stream::{ExactlyOnce, TotalOrder};
use hydro_lang::location::MemberId;
use hydro_lang::prelude::*;
use hydro_lang::sim::compiled::CompiledSim;
use hydro_lang::sim::{SimClusterReceiver, SimClusterSender};
use hydro_test::cluster::raft::{LeaderView, LogEntry, RaftConfig, Replica, raft_server};
use vcommon::{Args, Reporter, Rng, Tier, Value, hash_of, json};

use super::util::{Partial, hex, run_exhaustive, run_schedule, sched_bytes, unhex, workers};

/// (log index, term, message)
type Entry = (usize, usize, u32);
type Redirect = (u32, Option<MemberId<Replica>>);

pub struct RaftSim {
    pub sim: CompiledSim,
    pub n: usize,
    el: SimClusterSender<(), TotalOrder, ExactlyOnce>,
    hb: SimClusterSender<(), TotalOrder, ExactlyOnce>,
    rq: SimClusterSender<u32, TotalOrder, ExactlyOnce>,
    committed: SimClusterReceiver<LogEntry<u32>, TotalOrder, ExactlyOnce>,
    views: SimClusterReceiver<LeaderView<Replica>, TotalOrder, ExactlyOnce>,
    redirected: SimClusterReceiver<Redirect, TotalOrder, ExactlyOnce>,
}

pub fn build(n: usize) -> RaftSim {
    let mut flow = FlowBuilder::new();
    let cluster = flow.cluster::<Replica>();
    let (el, election) = cluster.sim_input::<(), TotalOrder, ExactlyOnce>();
    let (hb, heartbeat) = cluster.sim_input::<(), TotalOrder, ExactlyOnce>();
    let (rq, requests) = cluster.sim_input::<u32, TotalOrder, ExactlyOnce>();
    let outputs = raft_server(
        &cluster,
        requests,
        election,
        heartbeat,
        RaftConfig { cluster_size: n },
        TCP.fail_stop().bincode(),
        nondet!(/** which member leads and how requests interleave is explored by the simulator */),
    );
    let committed = outputs.committed.end_atomic().sim_cluster_output();
    let views = outputs.leader_views.sim_cluster_output();
    let redirected = outputs.redirected.sim_cluster_output();
    let sim = super::util::compile_locked(|| {
        flow.sim()
            .skip_consistency_assertions()
            .with_cluster_size(&cluster, n)
            .compiled()
    });
    RaftSim {
        sim,
        n,
        el,
        hb,
        rq,
        committed,
        views,
        redirected,
    }
}

#[derive(Clone, Copy)]
struct Ports<'a> {
    n: usize,
    el: &'a SimClusterSender<(), TotalOrder, ExactlyOnce>,
    hb: &'a SimClusterSender<(), TotalOrder, ExactlyOnce>,
    rq: &'a SimClusterSender<u32, TotalOrder, ExactlyOnce>,
    committed: SimClusterReceiver<LogEntry<u32>, TotalOrder, ExactlyOnce>,
    views: SimClusterReceiver<LeaderView<Replica>, TotalOrder, ExactlyOnce>,
    redirected: SimClusterReceiver<Redirect, TotalOrder, ExactlyOnce>,
}

impl RaftSim {
    fn ports(&self) -> Ports<'_> {
        Ports {
            n: self.n,
            el: &self.el,
            hb: &self.hb,
            rq: &self.rq,
            committed: self.committed,
            views: self.views,
            redirected: self.redirected,
        }
    }
}

/// Everything observed in one schedule.
#[derive(Default, Debug)]
struct Obs {
    /// per member, in emission order
    committed: Vec<Vec<Entry>>,
    /// per member: (term, leader raw id)
    views: Vec<Vec<(usize, Option<u32>)>>,
    redirected: u64,
    /// (kind, detail)
    findings: Vec<(String, String)>,
    finding_keys: BTreeSet<(String, usize, usize, usize)>,
    comparisons: u64,
    barriers: u32,
    noncontiguous: u64,
    duplicate_emissions: u64,
    elections_fired: u32,
    requests_sent: u32,
    heartbeats_fired: u32,
    concurrent_rounds: u32,
    contended_rounds: u32,
    /// number of committed entries (max over members) at the moment the k-th distinct leader claim was seen
    commits_at_claim: Vec<(usize, u32, usize)>,
}

impl Obs {
    fn new(n: usize) -> Obs {
        Obs {
            committed: vec![vec![]; n],
            views: vec![vec![]; n],
            ..Default::default()
        }
    }
    fn max_term(&self) -> usize {
        self.views
            .iter()
            .flat_map(|v| v.iter().map(|x| x.0))
            .max()
            .unwrap_or(0)
    }
    /// (term, member) for every self-claim.
    fn claims(&self) -> Vec<(usize, u32)> {
        let mut c = vec![];
        for (m, vs) in self.views.iter().enumerate() {
            for (t, l) in vs {
                if *l == Some(m as u32) {
                    c.push((*t, m as u32));
                }
            }
        }
        c.sort();
        c
    }
    fn believed_leader(&self) -> u32 {
        self.claims().last().map(|c| c.1).unwrap_or(0)
    }
    fn max_committed(&self) -> usize {
        self.committed.iter().map(|c| c.len()).max().unwrap_or(0)
    }
    fn absorb_committed(&mut self, m: usize, new: Vec<LogEntry<u32>>) {
        for e in new {
            let ent: Entry = (e.index, e.term_received, e.message);
            let pos = self.committed[m].len();
            if let Some(prev) = self.committed[m].iter().find(|p| p.0 == ent.0).copied() {
                if prev != ent {
                    if self.finding_keys.insert(("rewrite".into(), m, m, ent.0)) {
                        self.findings.push((
                            "rewrite".into(),
                            format!(
                                "member {m} first committed {prev:?} and later {ent:?} at log index {}",
                                ent.0
                            ),
                        ));
                    }
                } else {
                    self.duplicate_emissions += 1;
                }
            }
            if ent.0 != pos + 1 {
                self.noncontiguous += 1;
            }
            self.committed[m].push(ent);
        }
    }
    fn absorb_views(&mut self, m: usize, new: Vec<LeaderView<Replica>>) {
        for v in new {
            let leader = v.leader.as_ref().map(|l| l.get_raw_id());
            if leader == Some(m as u32) {
                let mc = self.max_committed();
                self.commits_at_claim.push((v.term, m as u32, mc));
            }
            self.views[m].push((v.term, leader));
        }
    }
    /// The oracle: pairwise agreement by log index.
    fn cross_check(&mut self) {
        let n = self.committed.len();
        for a in 0..n {
            for b in (a + 1)..n {
                for ea in &self.committed[a] {
                    if let Some(eb) = self.committed[b].iter().find(|e| e.0 == ea.0) {
                        self.comparisons += 1;
                        if ea != eb && self.finding_keys.insert(("fork".into(), a, b, ea.0)) {
                            self.findings.push((
                                "fork".into(),
                                format!(
                                    "members {a} and {b} committed different entries at log index {}: {ea:?} vs {eb:?}",
                                    ea.0
                                ),
                            ));
                        }
                    }
                }
            }
        }
    }
}

#[derive(Clone, Copy, Debug)]
enum Act {
    El(u32),
    Hb(u32),
    HbAll,
    Req(u32),
}

struct Driver<'a> {
    p: Ports<'a>,
    obs: &'a Mutex<Obs>,
    next_msg: u32,
}

impl Driver<'_> {
    fn act(&mut self, a: Act) {
        let mut o = self.obs.lock().unwrap();
        match a {
            Act::El(m) => {
                self.p.el.send(m, ());
                o.elections_fired += 1;
            }
            Act::Hb(m) => {
                self.p.hb.send(m, ());
                o.heartbeats_fired += 1;
            }
            Act::HbAll => {
                for m in 0..self.p.n as u32 {
                    self.p.hb.send(m, ());
                    o.heartbeats_fired += 1;
                }
            }
            Act::Req(m) => {
                self.p.rq.send(m, self.next_msg);
                self.next_msg += 1;
                o.requests_sent += 1;
            }
        }
    }
    /// Phase barrier: run to quiescence, fold in everything emitted, evaluate the oracle.
    async fn barrier(&mut self) {
        hydro_lang::sim::quiesce().await;
        for m in 0..self.p.n {
            let c: Vec<LogEntry<u32>> = self.p.committed.collect(m as u32).await;
            let v: Vec<LeaderView<Replica>> = self.p.views.collect(m as u32).await;
            let r: Vec<Redirect> = self.p.redirected.collect(m as u32).await;
            let mut o = self.obs.lock().unwrap();
            o.absorb_views(m, v);
            o.absorb_committed(m, c);
            o.redirected += r.len() as u64;
        }
        let mut o = self.obs.lock().unwrap();
        o.barriers += 1;
        o.cross_check();
    }
    /// A burst of un-quiesced actions followed by a barrier; books concurrent-candidate rounds.
    async fn burst(&mut self, acts: &[Act]) {
        let cands: BTreeSet<u32> = acts
            .iter()
            .filter_map(|a| if let Act::El(m) = a { Some(*m) } else { None })
            .collect();
        let before = self.obs.lock().unwrap().max_term();
        for a in acts {
            self.act(*a);
        }
        self.barrier().await;
        let mut o = self.obs.lock().unwrap();
        let after = o.max_term();
        if cands.len() >= 2 && after > before {
            o.concurrent_rounds += 1;
            if after >= before + 2 {
                o.contended_rounds += 1;
            }
        }
    }
}

pub const FAMILIES: [&str; 3] = ["targeted", "concurrent", "staggered"];

/// The harness script of one schedule; every random choice derives from `script_seed`.
async fn drive(p: Ports<'_>, family: usize, script_seed: u64, obs: &Mutex<Obs>) {
    let n = p.n;
    let mut r = Rng::new(script_seed);
    let mut d = Driver {
        p,
        obs,
        next_msg: 1,
    };
    match family {
        // Seed a leader and one committed entry, then racy rounds: replication of fresh entries overlaps
        // with one or two challengers' candidacies (cf. the repo's concurrent_elections_never_fork...).
        0 => {
            let lead0 = r.below(n) as u32;
            d.act(Act::El(lead0));
            d.barrier().await;
            d.act(Act::Req(lead0));
            for _ in 0..8 {
                d.act(Act::Hb(lead0));
                d.barrier().await;
                if obs.lock().unwrap().committed.iter().all(|c| !c.is_empty()) {
                    break;
                }
            }
            let rounds = 2 + r.below(5);
            for _ in 0..rounds {
                let leader = obs.lock().unwrap().believed_leader();
                let k = if r.chance(1, 2) { 2.min(n) } else { 1 };
                let mut members: Vec<u32> = (0..n as u32).collect();
                r.shuffle(&mut members);
                if r.chance(3, 4) {
                    members.retain(|m| *m != leader);
                }
                let challengers: Vec<u32> = members.into_iter().take(k).collect();
                if r.chance(3, 4) {
                    // consume the heartbeat-suppression flag so the burst's interrupt can start a candidacy
                    for c in &challengers {
                        d.act(Act::El(*c));
                    }
                }
                let mut acts = vec![Act::Req(leader), Act::Hb(leader), Act::Hb(leader)];
                for c in &challengers {
                    acts.push(Act::Req(*c));
                    acts.push(Act::El(*c));
                }
                if r.chance(1, 2) {
                    acts.push(Act::HbAll);
                }
                r.shuffle(&mut acts);
                d.burst(&acts).await;
                for _ in 0..r.below(4) {
                    d.act(Act::HbAll);
                    d.barrier().await;
                }
            }
        }
        // Everything outstanding at once; the simulator owns the complete interleaving
        // (cf. fully_concurrent_run_never_forks...). Optionally a second such phase.
        1 => {
            let phases = 1 + r.below(2);
            for _ in 0..phases {
                let mut acts = vec![];
                for m in 0..n as u32 {
                    for _ in 0..(1 + r.below(2)) {
                        acts.push(Act::El(m));
                    }
                    for _ in 0..r.below(3) {
                        acts.push(Act::Req(m));
                    }
                    for _ in 0..(3 + r.below(4)) {
                        acts.push(Act::Hb(m));
                    }
                }
                r.shuffle(&mut acts);
                d.burst(&acts).await;
            }
        }
        // A random action sequence with barriers sprinkled in (so some actions overlap, some do not).
        _ => {
            let len = 12 + r.below(16);
            let mut pending: Vec<Act> = vec![];
            for _ in 0..len {
                let m = r.below(n) as u32;
                let a = match r.below(8) {
                    0 | 1 => Act::El(m),
                    2 | 3 => Act::Req(m),
                    4 => Act::Req(obs.lock().unwrap().believed_leader()),
                    5 | 6 => Act::Hb(m),
                    _ => Act::HbAll,
                };
                pending.push(a);
                if r.chance(1, 3) {
                    let acts = std::mem::take(&mut pending);
                    d.burst(&acts).await;
                }
            }
            let acts = std::mem::take(&mut pending);
            d.burst(&acts).await;
        }
    }
    // settle: let whoever leads finish replicating
    for _ in 0..2 {
        d.act(Act::HbAll);
        d.barrier().await;
    }
}

fn case_json(n: usize, family: usize, script_seed: u64, bytes: &[u8]) -> Value {
    json!({"engine":"hv_sim_b","test":"c40_raft","protocol":"raft","n":n,"family":FAMILIES[family],
           "script_seed":script_seed,"bytes_hex":hex(bytes)})
}

/// Fold one finished schedule into `part`.
fn digest(
    part: &mut Partial,
    sets: &mut BTreeMap<&'static str, HashSet<u64>>,
    n: usize,
    family: usize,
    script_seed: u64,
    bytes: &[u8],
    res: Result<(), String>,
    o: Obs,
) {
    part.count("schedules");
    part.count(&format!("schedules_n{n}_{}", FAMILIES[family]));
    part.evals += o.comparisons + o.committed.iter().map(|c| c.len() as u64).sum::<u64>();
    match res {
        Ok(()) => {}
        Err(msg) if guard_kind(&msg).is_some() => {
            let kind = guard_kind(&msg).unwrap();
            let mut case = case_json(n, family, script_seed, bytes);
            case["observed_committed"] = json!(o.committed);
            part.violation(
                &format!("C40|raft|guard-panic:{kind}|n={n}"),
                &format!("the implementation's own safety guard fired during the schedule: {msg}"),
                case,
            );
        }
        Err(msg) => {
            part.harness_error(format!(
                "n={n} family={} script_seed={script_seed}: {msg}",
                FAMILIES[family]
            ));
            return;
        }
    }
    for (kind, detail) in &o.findings {
        let mut case = case_json(n, family, script_seed, bytes);
        case["observed_committed"] = json!(o.committed);
        case["observed_views"] = json!(o.views);
        part.violation(&format!("C40|raft|{kind}|n={n}"), detail, case);
    }
    let claims = o.claims();
    let leaders: BTreeSet<u32> = claims.iter().map(|c| c.1).collect();
    let members_with_commit = o.committed.iter().filter(|c| !c.is_empty()).count();
    part.count_n("elections_won", claims.len() as u64);
    part.count_n("elections_fired", o.elections_fired as u64);
    part.count_n("requests_sent", o.requests_sent as u64);
    part.count_n("heartbeats_fired", o.heartbeats_fired as u64);
    part.count_n("barriers", o.barriers as u64);
    part.count_n("entries_committed_max_member", o.max_committed() as u64);
    part.count_n("rounds_with_concurrent_candidates", o.concurrent_rounds as u64);
    part.count_n("rounds_with_concurrent_candidates_two_terms", o.contended_rounds as u64);
    part.count_n("redirected_requests", o.redirected);
    part.count_n("noncontiguous_emissions", o.noncontiguous);
    part.count_n("duplicate_emissions", o.duplicate_emissions);
    part.max("max_term", o.max_term() as u64);
    part.max("max_log_len", o.max_committed() as u64);
    if members_with_commit >= 1 {
        part.count("schedules_with_commit");
    }
    if members_with_commit == n {
        part.count("schedules_all_members_committed");
    }
    // two different members claimed one term: election safety, outside C40's statement — evidence only
    let mut by_term: BTreeMap<usize, BTreeSet<u32>> = BTreeMap::new();
    for (t, m) in &claims {
        by_term.entry(*t).or_default().insert(*m);
    }
    if by_term.values().any(|s| s.len() > 1) {
        part.count("schedules_two_leaders_one_term");
    }
    // a later leader took over after something had been committed: the situation the oracle is about
    let takeover = o
        .commits_at_claim
        .iter()
        .any(|(t, m, c)| *c >= 1 && claims.iter().any(|(t0, m0)| t0 < t && m0 != m));
    if takeover {
        part.count("schedules_leader_change_after_commit");
    }
    let longest = o.committed.iter().max_by_key(|c| c.len()).cloned().unwrap_or_default();
    sets.entry("distinct_committed_histories")
        .or_default()
        .insert(hash_of(&(n, &longest)));
    sets.entry("distinct_leader_sequences")
        .or_default()
        .insert(hash_of(&(n, &claims)));
    if members_with_commit >= 2 && leaders.len() >= 2 {
        part.nontrivial.push(hash_of(&(n, &o.committed, &claims)));
        part.sample(|| {
            json!({"n":n,"family":FAMILIES[family],"committed":o.committed,"leader_claims":claims,
                   "concurrent_rounds":o.concurrent_rounds})
        });
    }
}

/// What a child process reports on its last stdout line (`P{json}`).
#[derive(Default, serde::Serialize, serde::Deserialize)]
struct WorkerOut {
    part: Partial,
    sets: BTreeMap<String, Vec<u64>>,
    secs: f64,
    /// exhaustive children: Ok(executions) / Err(message)
    exhaustive: Option<Result<usize, String>>,
}

/// The i-th schedule of a run is a pure function of (seed, n, i).
fn schedule_params(seed: u64, n: usize, i: usize) -> (usize, u64, Vec<u8>) {
    let mut rng = Rng::new(seed).fork((n as u64) << 40 | i as u64);
    let family = i % 3;
    let script_seed = rng.next_u64();
    let bytes = sched_bytes(&mut rng);
    (family, script_seed, bytes)
}

/// `build` + a smoke schedule; rebuilds (at most twice) if the smoke schedule fails in the harness plumbing, which
/// happens when a concurrent build in the shared trybuild directory handed this process another flow's dylib.
fn build_checked(n: usize) -> RaftSim {
    let mut attempt = 0;
    loop {
        let sim = build(n);
        let obs = Mutex::new(Obs::new(n));
        let ports = sim.ports();
        let res = run_schedule(&sim.sim, vec![0u8; 64], async || drive(ports, 2, 0, &obs).await);
        match res {
            Err(msg) if guard_kind(&msg).is_none() && attempt < 2 => {
                eprintln!("smoke schedule failed ({msg}); rebuilding the simulator");
                attempt += 1;
                std::thread::sleep(std::time::Duration::from_secs(5));
            }
            _ => return sim,
        }
    }
}

fn worker(n: usize, total: usize, wi: usize, w: usize, seed: u64) -> WorkerOut {
    let sim = build_checked(n);
    let t0 = std::time::Instant::now();
    let mut part = Partial::default();
    let mut sets: BTreeMap<&'static str, HashSet<u64>> = BTreeMap::new();
    let mut i = wi;
    while i < total {
        let (family, script_seed, bytes) = schedule_params(seed, n, i);
        // announce the schedule before running it: if the program under test aborts the process (a panic inside
        // the simulator's dylib cannot be caught), the parent knows which schedule did it
        println!("@{i}");
        let obs = Mutex::new(Obs::new(n));
        let ports = sim.ports();
        let res = run_schedule(&sim.sim, bytes.clone(), async || {
            drive(ports, family, script_seed, &obs).await
        });
        let o = obs.into_inner().unwrap_or_else(|e| e.into_inner());
        digest(&mut part, &mut sets, n, family, script_seed, &bytes, res, o);
        i += w;
    }
    WorkerOut {
        part,
        sets: sets.into_iter().map(|(k, v)| (k.to_string(), v.into_iter().collect())).collect(),
        secs: t0.elapsed().as_secs_f64(),
        exhaustive: None,
    }
}

/// Parse an exhaustive scenario: tokens `e<m>` (election timer of member m), `r<m>` (request to m), `h<m>`
/// (heartbeat timer of m) form un-quiesced bursts, `|` is a phase barrier. Example: "e0r0h0".
fn parse_scenario(s: &str) -> Vec<Vec<Act>> {
    let mut bursts = vec![vec![]];
    let cs: Vec<char> = s.chars().collect();
    let mut i = 0;
    while i < cs.len() {
        match cs[i] {
            '|' => bursts.push(vec![]),
            c @ ('e' | 'r' | 'h') => {
                i += 1;
                let m = cs[i].to_digit(10).expect("member digit");
                bursts.last_mut().unwrap().push(match c {
                    'e' => Act::El(m),
                    'r' => Act::Req(m),
                    _ => Act::Hb(m),
                });
            }
            _ => panic!("bad scenario {s}"),
        }
        i += 1;
    }
    bursts
}

/// Bounded-exhaustive part on a 3-member cluster: the simulator enumerates every schedule of `scenario`.
fn exhaustive_small(scenario: &str) -> WorkerOut {
    let bursts = parse_scenario(scenario);
    let sim = build_checked(3);
    let ports = sim.ports();
    let t0 = std::time::Instant::now();
    let agg: Mutex<(Partial, BTreeMap<&'static str, HashSet<u64>>)> =
        Mutex::new((Partial::default(), BTreeMap::new()));
    let res = run_exhaustive(&sim.sim, async || {
        let obs = Mutex::new(Obs::new(3));
        {
            let mut d = Driver {
                p: ports,
                obs: &obs,
                next_msg: 1,
            };
            for b in &bursts {
                d.burst(b).await;
            }
        }
        let o = obs.into_inner().unwrap_or_else(|e| e.into_inner());
        let mut g = agg.lock().unwrap();
        let (part, sets) = &mut *g;
        part.count("exhaustive_executions");
        part.evals += o.comparisons + o.committed.iter().map(|c| c.len() as u64).sum::<u64>();
        for (kind, detail) in &o.findings {
            part.violation(
                &format!("C40|raft|{kind}|exhaustive"),
                detail,
                exhaustive_case(scenario, Some(&o)),
            );
        }
        let committers = o.committed.iter().filter(|c| !c.is_empty()).count();
        if committers >= 1 {
            part.count("exhaustive_executions_with_commit");
        }
        if committers >= 2 {
            part.count("exhaustive_executions_two_members_committed");
        }
        sets.entry("exhaustive_distinct_outcomes")
            .or_default()
            .insert(hash_of(&(&o.committed, &o.views)));
    });
    let (part, sets) = agg.into_inner().unwrap_or_else(|e| e.into_inner());
    WorkerOut {
        part,
        sets: sets.into_iter().map(|(k, v)| (k.to_string(), v.into_iter().collect())).collect(),
        secs: t0.elapsed().as_secs_f64(),
        exhaustive: Some(res),
    }
}

fn exhaustive_case(scenario: &str, o: Option<&Obs>) -> Value {
    let mut c = json!({"engine":"hv_sim_b","test":"c40_raft","protocol":"raft","n":3,"family":"exhaustive",
                       "scenario":scenario});
    if let Some(o) = o {
        c["observed_committed"] = json!(o.committed);
    }
    c
}

/// Classify the text of a safety-guard panic of the implementation.
fn guard_kind(msg: &str) -> Option<&'static str> {
    if !msg.contains("protocol violation") {
        None
    } else if msg.contains("truncate committed") {
        Some("truncate-committed")
    } else if msg.contains("two leaders") {
        Some("two-leaders-one-term")
    } else {
        Some("other")
    }
}

// -------------------------------------------------------------------------------------------------
// Child processes. A panic raised inside the simulator's dylib (e.g. raft_step's own "protocol violation" guards)
// cannot be caught by the host ("Rust cannot catch foreign exceptions") and aborts the process, so every
// simulator execution of this test runs in a child process: the same test binary re-invoked with
// VERIF_C40_CHILD=<spec>. A child prints `@<i>` before schedule i and `P<json WorkerOut>` at the end.

const CHILD_ENV: &str = "VERIF_C40_CHILD";

struct ChildResult {
    out: Option<WorkerOut>,
    last_started: Option<usize>,
    ok: bool,
    stderr_tail: String,
}

fn run_child(spec: &str) -> ChildResult {
    let exe = std::env::current_exe().expect("current_exe");
    let output = std::process::Command::new(exe)
        .args(["tests::c40_raft", "--exact", "--nocapture", "--test-threads", "1"])
        .env(CHILD_ENV, spec)
        .stdin(std::process::Stdio::null())
        .output()
        .expect("spawn child");
    let stdout = String::from_utf8_lossy(&output.stdout);
    let mut last_started = None;
    let mut out = None;
    for line in stdout.lines() {
        if let Some(i) = line.strip_prefix('@') {
            last_started = i.trim().parse().ok();
        } else if let Some(j) = line.strip_prefix('P') {
            out = serde_json::from_str::<WorkerOut>(j).ok();
        } else if line.starts_with('{') {
            // replay children print notes / nothing else is expected
            println!("{line}");
        }
    }
    let stderr = String::from_utf8_lossy(&output.stderr);
    // keep the child's diagnostics in the log, without the exhaustive engine's progress chatter
    for l in stderr.lines().filter(|l| !l.starts_with("test <unknown>")) {
        eprintln!("[child {spec}] {l}");
    }
    let tail: Vec<&str> = stderr.lines().filter(|l| l.contains("panicked") || l.contains("protocol violation") || l.contains("fatal runtime error")).collect();
    ChildResult {
        out,
        last_started,
        ok: output.status.success(),
        stderr_tail: tail.join(" / "),
    }
}

fn child_main(spec: &str) {
    let f: Vec<&str> = spec.split(':').collect();
    let out = match f[0] {
        "fuzz" => {
            let p: Vec<u64> = f[1..].iter().map(|x| x.parse().expect("child spec")).collect();
            worker(p[0] as usize, p[1] as usize, p[2] as usize, p[3] as usize, p[4])
        }
        "exh" => exhaustive_small(f[1]),
        "replay" => {
            let args = Args::from_env();
            let case = args.replay_case().expect("replay case");
            replay_in_child(&case)
        }
        other => panic!("bad child spec {other}"),
    };
    println!("P{}", serde_json::to_string(&out).unwrap());
}

/// Fold a finished child into the reporter. Returns false if the child died.
fn absorb_child(
    rep: &mut Reporter,
    all_sets: &mut BTreeMap<String, HashSet<u64>>,
    r: ChildResult,
    describe_abort: impl FnOnce(Option<usize>) -> Value,
    sig_suffix: &str,
) -> Option<WorkerOut> {
    match r.out {
        Some(mut o) if r.ok => {
            let part = std::mem::take(&mut o.part);
            for e in part.merge_into(rep, &["max_term", "max_log_len"]) {
                rep.require(false, &format!("harness error: {e}"));
            }
            for (k, v) in std::mem::take(&mut o.sets) {
                all_sets.entry(k).or_default().extend(v);
            }
            Some(o)
        }
        _ => {
            rep.count("children_that_died");
            match guard_kind(&r.stderr_tail) {
                Some(kind) => {
                    let mut case = describe_abort(r.last_started);
                    case["child_stderr"] = json!(r.stderr_tail);
                    rep.violation(
                        &format!("C40|raft|guard-panic:{kind}|{sig_suffix}"),
                        &format!(
                            "the implementation's own safety guard fired (and aborted the simulator process): {}",
                            r.stderr_tail
                        ),
                        case,
                    );
                }
                None => rep.require(
                    false,
                    &format!("a child process died without a safety-guard message: {}", r.stderr_tail),
                ),
            }
            None
        }
    }
}

/// Runs inside a child: re-run exactly one recorded case.
fn replay_in_child(case: &Value) -> WorkerOut {
    let n = case["n"].as_u64().unwrap_or(3) as usize;
    let fam_name = case["family"].as_str().unwrap_or("targeted");
    if fam_name == "exhaustive" {
        let scenario = case["scenario"].as_str().unwrap_or(EXHAUSTIVE_QUICK[0]).to_string();
        return exhaustive_small(&scenario);
    }
    let family = FAMILIES.iter().position(|f| *f == fam_name).unwrap_or(0);
    let script_seed = case["script_seed"].as_u64().expect("script_seed");
    let bytes = unhex(case["bytes_hex"].as_str().expect("bytes_hex"));
    let sim = build(n);
    let obs = Mutex::new(Obs::new(n));
    let ports = sim.ports();
    println!("@0");
    let res = run_schedule(&sim.sim, bytes.clone(), async || {
        drive(ports, family, script_seed, &obs).await
    });
    let o = obs.into_inner().unwrap_or_else(|e| e.into_inner());
    println!(
        "{}",
        json!({"t":"note","replay":"c40_raft","result":format!("{res:?}"),"committed":o.committed,"views":o.views})
    );
    let mut part = Partial::default();
    let mut sets: BTreeMap<&'static str, HashSet<u64>> = BTreeMap::new();
    digest(&mut part, &mut sets, n, family, script_seed, &bytes, res, o);
    WorkerOut {
        part,
        ..Default::default()
    }
}

fn replay(case: &Value, rep: &mut Reporter) {
    let r = run_child("replay");
    let mut sets = BTreeMap::new();
    let case2 = case.clone();
    absorb_child(rep, &mut sets, r, move |_| case2, "replay");
}

const RULE: &str = "Each case is one simulator schedule of the shipped raft_server on N members (fail-stop \
channels): a harness script (families: targeted = seeded leader + racy rounds where 1-2 challengers' election \
timers fire in the same un-quiesced burst as fresh requests and heartbeats; concurrent = every timer/request \
outstanding at once; staggered = random action sequence with random phase barriers), with every scheduler \
decision (tick choice, batch boundaries, delivery interleaving) drawn from 4096 seeded bytes. At every phase \
barrier the members' committed streams are compared pairwise by log index and each member's history is checked \
to be rewrite-free. A case is non-trivial when at least two members committed an entry AND at least two \
different members won an election in it; distinct = distinct (committed histories, leader claims).";

pub fn raft() {
    println!();
    if let Ok(spec) = std::env::var(CHILD_ENV) {
        if !spec.is_empty() {
            child_main(&spec);
            return;
        }
    }
    let args = Args::from_env();
    if args.prop == "NONE" {
        return;
    }
    let mut rep = Reporter::new("C40", args.seed);
    if let Some(case) = args.replay_case() {
        // a replay descriptor of another stage / another test of this property: not ours, nothing to do
        if case["engine"].as_str() != Some("hv_sim_b") || case["test"].as_str() != Some("c40_raft") {
            return;
        }
        replay(&case, &mut rep);
        rep.finish(RULE, false);
        return;
    }
    let plan: Vec<(usize, usize)> = match args.tier {
        Tier::Quick => vec![(3, 6000)],
        Tier::Thorough => vec![(3, 400_000), (5, 60_000)],
        Tier::Miri => vec![(3, 50)],
    };
    let w = workers(2, 6, args.tier);
    let seed = args.seed;
    let mut all_sets: BTreeMap<String, HashSet<u64>> = BTreeMap::new();
    let mut rates = vec![];
    for (n, total) in plan {
        let results: Vec<ChildResult> = std::thread::scope(|s| {
            let hs: Vec<_> = (0..w)
                .map(|wi| s.spawn(move || run_child(&format!("fuzz:{n}:{total}:{wi}:{w}:{seed}"))))
                .collect();
            hs.into_iter().map(|h| h.join().expect("child waiter")).collect()
        });
        let mut secs = 0.0f64;
        for r in results {
            let o = absorb_child(
                &mut rep,
                &mut all_sets,
                r,
                |last| match last {
                    Some(i) => {
                        let (family, script_seed, bytes) = schedule_params(seed, n, i);
                        case_json(n, family, script_seed, &bytes)
                    }
                    None => json!({"engine":"hv_sim_b","test":"c40_raft","protocol":"raft","n":n,
                                   "note":"child died before its first schedule"}),
                },
                &format!("n={n}"),
            );
            if let Some(o) = o {
                secs = secs.max(o.secs);
            }
        }
        rates.push(json!({"n":n,"schedules":total,"worker_processes":w,"seconds":secs,
                          "schedules_per_second": total as f64 / secs.max(1e-9)}));
    }
    rep.extra("throughput", json!(rates));
    rep.extra("scheduler_decision_bytes_per_schedule", json!(super::util::SCHED_BYTES));

    let mut exhaustive_done = args.tier != Tier::Miri;
    if args.tier != Tier::Miri {
        let scenarios: &[&str] = if args.tier == Tier::Thorough { &EXHAUSTIVE_THOROUGH } else { &EXHAUSTIVE_QUICK };
        for sc in scenarios {
            let r = run_child(&format!("exh:{sc}"));
            let mut sets = BTreeMap::new();
            match absorb_child(&mut rep, &mut sets, r, |_| exhaustive_case(sc, None), "exhaustive") {
                Some(o) => {
                    for (k, s) in sets {
                        rep.extra(&format!("{k} [{sc}]"), json!(s.len()));
                    }
                    match o.exhaustive {
                        Some(Ok(nexec)) => rep.extra(&format!("exhaustive_executions [{sc}]"), json!(nexec)),
                        Some(Err(msg)) => {
                            exhaustive_done = false;
                            rep.require(false, &format!("exhaustive exploration of {sc} stopped: {msg}"));
                        }
                        None => exhaustive_done = false,
                    }
                }
                None => exhaustive_done = false,
            }
        }
    }
    for (k, s) in &all_sets {
        rep.extra(k, json!(s.len()));
    }

    let sched = rep.counter("schedules").max(1);
    if args.tier != Tier::Miri {
        rep.require(rep.counter("harness_errors") == 0, "harness errors occurred");
        rep.require(
            rep.counter("schedules_with_commit") * 2 >= sched,
            "fewer than half of the schedules committed anything",
        );
        rep.require(
            rep.distinct_count() as u64 * 10 >= sched,
            "fewer than 10% of the schedules were non-trivial (>=2 committing members and >=2 leaders)",
        );
        rep.require(
            rep.counter("schedules_leader_change_after_commit") * 20 >= sched,
            "fewer than 5% of the schedules had a leader change after a commit",
        );
        rep.require(
            rep.counter("rounds_with_concurrent_candidates") * 2 >= sched,
            "too few rounds with concurrent candidates",
        );
        rep.require(rep.counter("max_term") >= 4, "terms never exceeded 3");
        rep.require(
            rep.counter("exhaustive_executions_two_members_committed") >= 1000,
            "the exhaustive scenario never had two committing members",
        );
    }
    rep.finish(RULE, exhaustive_done);
}

/// Bounded-exhaustive scenarios on 3 members, sized by probe so that each stays well below 10^6 executions:
/// "e0|r0h0|h0" = member 0's election timer; barrier; a request to it racing one heartbeat round; barrier; one
/// more heartbeat round (51 480 schedules, two members commit in 40 320 of them); "e0r0h0" = election timer,
/// request and one heartbeat round all outstanding at once (40 976 schedules). Larger variants ("e0r0h0|h0",
/// "e0|r0h0h0", "e0r0h0h0") exceed 3*10^5 .. 6*10^5 schedules without finishing in 10 minutes.
pub const EXHAUSTIVE_QUICK: [&str; 1] = ["e0|r0h0|h0"];
pub const EXHAUSTIVE_THOROUGH: [&str; 2] = ["e0|r0h0|h0", "e0r0h0"];

/// Probe used while sizing the exhaustive scenario (not registered; runs in-process).
pub fn probe_exhaustive() {
    let sc = std::env::var("VERIF_PROBE_SCENARIO").unwrap_or_else(|_| "e0r0h0".to_string());
    let t0 = std::time::Instant::now();
    let o = exhaustive_small(&sc);
    println!(
        "probe_exhaustive scenario={sc} result={:?} counters={:?} in {:?}",
        o.exhaustive,
        o.part.counters,
        t0.elapsed()
    );
}
