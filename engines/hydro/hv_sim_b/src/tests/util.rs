//! Shared plumbing for the simulator-driven monitors.
//!
//! Schedules are explored in two ways:
//! * `run_schedule`: ONE simulator instance whose every nondeterministic decision (which tick runs, batch
//!   boundaries, snapshot versions, message interleavings) is drawn from an explicit byte string through
//!   `CompiledSim::fuzz_repro` (the simulator's public single-instance entry point, the same driver type that
//!   replays `cargo sim` reproducers). The bytes come from the monitor's own splitmix RNG, so a run is a pure
//!   function of VERIF_SEED and every schedule is exactly replayable from (scenario, bytes). NOTE:
//!   `SimFlow::fuzz` is *not* used: bolero's random engine seeds only its first iteration from
//!   BOLERO_RANDOM_SEED and draws all others from the OS RNG, so it is neither reproducible nor replayable.
//! * `CompiledSim::exhaustive`: bolero's exhaustive driver enumerates every decision sequence.
use std::collections::BTreeMap;
use std::panic::RefUnwindSafe;

use hydro_lang::sim::compiled::{CompiledSim, CompiledSimInstance};
use vcommon::{Reporter, Rng, Value};

/// bolero's byte driver reads at most 4096 bytes (`Options::DEFAULT_MAX_LEN`), later decisions are 0 — the same
/// cap the simulator's own `fuzz` has on its RNG driver.
pub const SCHED_BYTES: usize = 4096;

pub fn sched_bytes(rng: &mut Rng) -> Vec<u8> {
    let mut v = Vec::with_capacity(SCHED_BYTES + 8);
    while v.len() < SCHED_BYTES {
        v.extend_from_slice(&rng.next_u64().to_le_bytes());
    }
    v.truncate(SCHED_BYTES);
    v
}

pub fn hex(b: &[u8]) -> String {
    let mut s = String::with_capacity(b.len() * 2);
    for x in b {
        s.push_str(&format!("{x:02x}"));
    }
    s
}

pub fn unhex(s: &str) -> Vec<u8> {
    (0..s.len() / 2)
        .map(|i| u8::from_str_radix(&s[2 * i..2 * i + 2], 16).expect("hex"))
        .collect()
}

/// Run one simulator instance with decisions from `bytes`; a panic (from the program under test or from the
/// simulator) is returned as `Err(message)`.
pub fn run_schedule<F>(sim: &CompiledSim, bytes: Vec<u8>, thunk: F) -> Result<(), String>
where
    F: AsyncFnOnce() + RefUnwindSafe,
{
    vcommon::catch(|| {
        sim.fuzz_repro(bytes, async |inst: CompiledSimInstance<'_>| {
            inst.run_with_scheduler_and_logger(std::io::sink(), thunk())
                .await
        })
    })
}

/// Exhaustive exploration; `Err` = the engine stopped at a panicking execution.
pub fn run_exhaustive<F>(sim: &CompiledSim, thunk: F) -> Result<usize, String>
where
    F: AsyncFnMut() + RefUnwindSafe,
{
    vcommon::catch(|| sim.exhaustive(thunk))
}

unsafe extern "C" {
    fn flock(fd: i32, operation: i32) -> i32;
}

/// Cross-process lock around `SimFlow::compiled()`. With RUSTFLAGS set (bin/check sets it) the simulator builds every
/// flow of this crate as the same cargo example (`sim-dylib`, selected by an env var) in one shared directory and
/// copies the artifact afterwards without holding any lock, so two processes compiling *different* flows of
/// this crate at the same time can hand each other the wrong dylib (observed: every execution then fails with
/// `Option::unwrap()` on a missing port). Serialising build+copy across processes removes the race.
pub fn compile_locked<T>(build: impl FnOnce() -> T) -> T {
    use std::os::fd::AsRawFd;
    let dir = std::env::var("CARGO_TARGET_DIR")
        .map(std::path::PathBuf::from)
        .unwrap_or_else(|_| std::env::temp_dir());
    let file = std::fs::OpenOptions::new()
        .create(true)
        .truncate(false)
        .write(true)
        .open(dir.join("hv_sim_b.compile.lock"))
        .ok();
    if let Some(f) = &file {
        // SAFETY: flock(2) on a descriptor we own; LOCK_EX = 2. Released when `file` is dropped.
        unsafe {
            flock(f.as_raw_fd(), 2);
        }
    }
    let out = build();
    drop(file);
    out
}

/// What a worker (thread or child process) observed; merged into the `Reporter` by the test's main thread.
#[derive(Default, serde::Serialize, serde::Deserialize)]
pub struct Partial {
    pub evals: u64,
    pub counters: BTreeMap<String, u64>,
    pub nontrivial: Vec<u64>,
    pub violations: Vec<(String, String, Value)>,
    pub samples: Vec<Value>,
    pub harness_errors: Vec<String>,
}

impl Partial {
    pub fn count(&mut self, k: &str) {
        *self.counters.entry(k.to_string()).or_insert(0) += 1;
    }
    pub fn count_n(&mut self, k: &str, n: u64) {
        *self.counters.entry(k.to_string()).or_insert(0) += n;
    }
    pub fn max(&mut self, k: &str, n: u64) {
        let e = self.counters.entry(k.to_string()).or_insert(0);
        if n > *e {
            *e = n;
        }
    }
    pub fn violation(&mut self, sig: &str, what: &str, case: Value) {
        if self.violations.len() < 64 {
            self.violations
                .push((sig.to_string(), what.to_string(), case));
        } else {
            self.count("violations_not_listed");
        }
    }
    pub fn sample(&mut self, v: impl FnOnce() -> Value) {
        if self.samples.len() < 4 {
            self.samples.push(v());
        }
    }
    pub fn harness_error(&mut self, e: String) {
        if self.harness_errors.len() < 8 {
            self.harness_errors.push(e);
        }
        self.count("harness_errors");
    }
    /// `max_keys`: counters merged by maximum instead of sum.
    pub fn merge_into(self, rep: &mut Reporter, max_keys: &[&str]) -> Vec<String> {
        rep.evals(self.evals);
        for (k, n) in self.counters {
            if max_keys.contains(&k.as_str()) {
                let cur = rep.counter(&k);
                if n > cur {
                    rep.count_n(&k, n - cur);
                }
            } else {
                rep.count_n(&k, n);
            }
        }
        for h in self.nontrivial {
            rep.nontrivial(h);
        }
        for (sig, what, case) in self.violations {
            rep.violation(&sig, &what, case);
        }
        for s in self.samples {
            rep.sample(|| s);
        }
        self.harness_errors
    }
}

/// Number of worker threads (each builds its own simulator instance of the same flow).
pub fn workers(default_quick: usize, default_thorough: usize, tier: vcommon::Tier) -> usize {
    if let Ok(v) = std::env::var("VERIF_WORKERS") {
        if let Ok(n) = v.parse::<usize>() {
            return n.max(1);
        }
    }
    match tier {
        vcommon::Tier::Thorough => default_thorough,
        _ => default_quick,
    }
}
