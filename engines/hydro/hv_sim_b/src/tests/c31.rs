//! C31 (simulator half) — slices partition streams and take monotone snapshots.
//!
//! Corpus flows (flows.rs: c31_basic, c31_atomic, c31_keyed, c31_buffer, and c31_multi in the thorough tier)
//! emit one record per slice with what each hook revealed. Oracle (from docs/…/slices.mdx "Guarantees" and the hook docs):
//!  * batches partition the input: concatenation of the observed batches == the input that was sent, in order
//!    (per key for keyed streams), each element in exactly one batch;
//!  * snapshots never go back: counts non-decreasing, set-valued snapshots growing, keys never disappear,
//!    an optional never turns absent again / its max never decreases;
//!  * one cut per slice, demanded only where documented: the two `use::atomic` snapshots of one singleton in one
//!    slice are equal ("all snapshots of this singleton into the atomic-associated tick will observe the same
//!    value"), and an atomic snapshot reflects every batch released by earlier slices;
//!  * state hooks: the value read by slice j+1 is the value slice j wrote (initial value in slice 0).
use std::collections::{BTreeMap, BTreeSet};

use hydro_lang::live_collections::stream::{ExactlyOnce, TotalOrder};
use hydro_lang::location::Location;
use hydro_lang::prelude::*;
use hydro_lang::sim::compiled::CompiledSim;
use hydro_lang::sim::{SimReceiver, SimSender};
use vcommon::{Args, Reporter, Rng, Tier, json};

use super::corpus::{Corpus, Explored, Judgement, explore, replay};
use crate::flows::{self, C31Atomic, C31Basic, C31Buffer, C31Keyed, C31Multi, Node};

type Tx<T> = &'static SimSender<T, TotalOrder, ExactlyOnce>;
type Rx<T> = SimReceiver<T, TotalOrder, ExactlyOnce>;

fn leak<T>(t: T) -> &'static T {
    Box::leak(Box::new(t))
}

/// All compositions of `items` into consecutive non-empty phases.
fn compositions<T: Clone>(items: &[T]) -> Vec<Vec<Vec<T>>> {
    let n = items.len();
    if n == 0 {
        return vec![vec![]];
    }
    let mut out = vec![];
    for mask in 0..(1u32 << (n - 1)) {
        let mut phases = vec![vec![items[0].clone()]];
        for i in 1..n {
            if mask & (1 << (i - 1)) != 0 {
                phases.push(vec![]);
            }
            phases.last_mut().unwrap().push(items[i].clone());
        }
        out.push(phases);
    }
    out
}

/// Largest exhaustively explored input length for a flow; `VERIF_C31_MAXN_<FLOW>` overrides (sizing probes).
fn max_n(flow: &str, thorough: bool, quick: usize, thor: usize) -> usize {
    std::env::var(format!("VERIF_C31_MAXN_{}", flow.to_uppercase()))
        .ok()
        .and_then(|v| v.parse().ok())
        .unwrap_or(if thorough { thor } else { quick })
}

/// Inputs [3,1,4,2][..n] for n = 1..=max_n in every split into phases.
fn int_scripts(max_n: usize) -> Vec<Vec<Vec<i64>>> {
    let mut v = vec![];
    for n in 1..=max_n.min(4) {
        v.extend(compositions(&[3i64, 1, 4, 2][..n]));
    }
    v
}

fn random_phases<T: Clone>(r: &mut Rng, items: &[T]) -> Vec<Vec<T>> {
    let mut phases: Vec<Vec<T>> = vec![vec![]];
    for (i, x) in items.iter().enumerate() {
        if i > 0 && r.chance(1, 3) {
            phases.push(vec![]);
        }
        phases.last_mut().unwrap().push(x.clone());
    }
    phases
}

/// Compare the concatenation of the batches with what was sent; classify the failure.
fn judge_partition<T: Ord + Clone + std::fmt::Debug>(j: &mut Judgement, what: &str, sent: &[T], got: &[T]) {
    j.evals += 1;
    if sent == got {
        return;
    }
    let mut cs: BTreeMap<&T, i64> = BTreeMap::new();
    for x in sent {
        *cs.entry(x).or_default() += 1;
    }
    for x in got {
        *cs.entry(x).or_default() -= 1;
    }
    let lost: Vec<&T> = cs.iter().filter(|(_, c)| **c > 0).map(|(k, _)| *k).collect();
    let extra: Vec<&T> = cs.iter().filter(|(_, c)| **c < 0).map(|(k, _)| *k).collect();
    if !lost.is_empty() {
        j.find(
            &format!("{what}-element-in-no-batch"),
            format!("sent {sent:?} but the batches concatenate to {got:?}: {lost:?} appear in no batch"),
        );
    }
    if !extra.is_empty() {
        j.find(
            &format!("{what}-element-in-several-batches"),
            format!("sent {sent:?} but the batches concatenate to {got:?}: {extra:?} appear more often than sent"),
        );
    }
    if lost.is_empty() && extra.is_empty() {
        j.find(
            &format!("{what}-batches-out-of-order"),
            format!("sent {sent:?} but the batches concatenate to {got:?}"),
        );
    }
}

// -------------------------------------------------------------------------------------------------
pub struct Basic;
#[derive(Clone, Copy)]
pub struct BasicPorts {
    inp: Tx<i64>,
    out: Rx<C31Basic>,
}

impl Corpus for Basic {
    const NAME: &'static str = "basic";
    type Ports = BasicPorts;
    type Script = Vec<Vec<i64>>;
    /// (what was actually sent, one record per slice)
    type Trace = (Vec<i64>, Vec<C31Basic>);

    fn build() -> (CompiledSim, BasicPorts) {
        let mut flow = FlowBuilder::new();
        let p = flow.process::<Node>();
        let (inp, s) = p.sim_input::<i64, TotalOrder, ExactlyOnce>();
        let out = flows::c31_basic(s).sim_output();
        (super::util::compile_locked(|| flow.sim().compiled()), BasicPorts { inp: leak(inp), out })
    }

    async fn drive(p: BasicPorts, s: &Self::Script) -> Self::Trace {
        let mut sent = vec![];
        let mut recs = vec![];
        for (i, ph) in s.iter().enumerate() {
            p.inp.send_many(ph.clone());
            sent.extend(ph.iter().copied());
            if i + 1 < s.len() {
                match p.out.try_next().await {
                    Some(r) => recs.push(r),
                    None => break,
                }
            }
        }
        let rest: Vec<C31Basic> = p.out.collect().await;
        recs.extend(rest);
        (sent, recs)
    }

    fn judge(_s: &Self::Script, t: &Self::Trace) -> Judgement {
        let (sent, recs) = t;
        let mut j = Judgement::default();
        let got: Vec<i64> = recs.iter().flat_map(|r| r.0.iter().copied()).collect();
        judge_partition(&mut j, "batch", sent, &got);
        let mut prev_set: BTreeSet<i64> = BTreeSet::new();
        let mut expect_state = 0usize;
        let mut batched = 0usize;
        let (mut lag, mut nonempty, mut snap_changes) = (0u64, 0u64, 0u64);
        for (k, (b, set, seen)) in recs.iter().enumerate() {
            j.evals += 2;
            let set_now: BTreeSet<i64> = set.iter().copied().collect();
            if !prev_set.is_subset(&set_now) {
                j.find(
                    "set-snapshot-went-back",
                    format!("slice {k} saw set {set:?} after an earlier slice saw {prev_set:?}; records {recs:?}"),
                );
            }
            if *seen != expect_state {
                j.find(
                    "state-not-carried",
                    format!("slice {k} read state {seen} but the previous slice wrote {expect_state}; records {recs:?}"),
                );
            }
            if set_now != prev_set {
                snap_changes += 1;
            }
            expect_state = seen + b.len();
            batched += b.len();
            if set_now.len() < batched {
                lag += 1;
            }
            if !b.is_empty() {
                nonempty += 1;
            }
            prev_set = set_now;
        }
        j.nontrivial = nonempty >= 2 || (nonempty >= 1 && snap_changes >= 2);
        j.count("slices", recs.len() as u64);
        j.count("slices_where_snapshot_lags_batch_cut", lag);
        j
    }

    fn exhaustive_scripts(thorough: bool) -> Vec<Self::Script> {
        int_scripts(max_n("basic", thorough, 4, 4))
    }

    fn random_script(r: &mut Rng) -> Self::Script {
        let n = 5 + r.below(8);
        let mut items: Vec<i64> = (1..=n as i64).collect();
        r.shuffle(&mut items);
        random_phases(r, &items)
    }
}

// -------------------------------------------------------------------------------------------------
pub struct Multi;
#[derive(Clone, Copy)]
pub struct MultiPorts {
    inp: Tx<i64>,
    out: Rx<C31Multi>,
}

impl Corpus for Multi {
    const NAME: &'static str = "multi";
    type Ports = MultiPorts;
    type Script = Vec<Vec<i64>>;
    type Trace = (Vec<i64>, Vec<C31Multi>);

    fn build() -> (CompiledSim, MultiPorts) {
        let mut flow = FlowBuilder::new();
        let p = flow.process::<Node>();
        let (inp, s) = p.sim_input::<i64, TotalOrder, ExactlyOnce>();
        let out = flows::c31_multi(s).sim_output();
        (super::util::compile_locked(|| flow.sim().compiled()), MultiPorts { inp: leak(inp), out })
    }

    async fn drive(p: MultiPorts, s: &Self::Script) -> Self::Trace {
        let mut sent = vec![];
        let mut recs = vec![];
        for (i, ph) in s.iter().enumerate() {
            p.inp.send_many(ph.clone());
            sent.extend(ph.iter().copied());
            if i + 1 < s.len() {
                match p.out.try_next().await {
                    Some(r) => recs.push(r),
                    None => break,
                }
            }
        }
        let rest: Vec<C31Multi> = p.out.collect().await;
        recs.extend(rest);
        (sent, recs)
    }

    fn judge(_s: &Self::Script, t: &Self::Trace) -> Judgement {
        let (sent, recs) = t;
        let mut j = Judgement::default();
        let got: Vec<i64> = recs.iter().flat_map(|r| r.0.iter().copied()).collect();
        judge_partition(&mut j, "batch", sent, &got);
        // inputs are positive, so both the count and the sum of a longer prefix are larger
        let (mut prev_c, mut prev_s) = (0usize, 0i64);
        let mut expect_state = 0usize;
        let (mut nonempty, mut differ) = (0u64, 0u64);
        for (k, (b, c, sum, seen)) in recs.iter().enumerate() {
            j.evals += 3;
            if *c < prev_c {
                j.find(
                    "count-snapshot-went-back",
                    format!("slice {k} saw count {c} after an earlier slice saw {prev_c}; records {recs:?}"),
                );
            }
            if *sum < prev_s {
                j.find(
                    "sum-snapshot-went-back",
                    format!("slice {k} saw sum {sum} after an earlier slice saw {prev_s}; records {recs:?}"),
                );
            }
            if *seen != expect_state {
                j.find(
                    "state-not-carried",
                    format!("slice {k} read state {seen} but the previous slice wrote {expect_state}; records {recs:?}"),
                );
            }
            // evidence only: the two (non-atomic) snapshots describe different prefixes of the input
            if sent.iter().take(*c).sum::<i64>() != *sum {
                differ += 1;
            }
            expect_state = seen + b.len();
            if !b.is_empty() {
                nonempty += 1;
            }
            prev_c = *c;
            prev_s = *sum;
        }
        j.nontrivial = nonempty >= 2;
        j.count("slices", recs.len() as u64);
        j.count("slices_where_the_two_snapshots_show_different_prefixes", differ);
        j
    }

    fn exhaustive_scripts(thorough: bool) -> Vec<Self::Script> {
        int_scripts(max_n("multi", thorough, 2, 3))
    }

    fn random_script(r: &mut Rng) -> Self::Script {
        Basic::random_script(r)
    }
}

// -------------------------------------------------------------------------------------------------
pub struct Atomic;
#[derive(Clone, Copy)]
pub struct AtomicPorts {
    inp: Tx<i64>,
    acks: Rx<i64>,
    out: Rx<C31Atomic>,
}

impl Corpus for Atomic {
    const NAME: &'static str = "atomic";
    type Ports = AtomicPorts;
    type Script = Vec<Vec<i64>>;
    /// (sent, records, acks)
    type Trace = (Vec<i64>, Vec<C31Atomic>, Vec<i64>);

    fn build() -> (CompiledSim, AtomicPorts) {
        let mut flow = FlowBuilder::new();
        let p = flow.process::<Node>();
        let (inp, s) = p.sim_input::<i64, TotalOrder, ExactlyOnce>();
        let (acks, out) = flows::c31_atomic(s);
        let acks = acks.sim_output();
        let out = out.sim_output();
        (
            super::util::compile_locked(|| flow.sim().compiled()),
            AtomicPorts {
                inp: leak(inp),
                acks,
                out,
            },
        )
    }

    async fn drive(p: AtomicPorts, s: &Self::Script) -> Self::Trace {
        let mut sent = vec![];
        let mut recs = vec![];
        for (i, ph) in s.iter().enumerate() {
            p.inp.send_many(ph.clone());
            sent.extend(ph.iter().copied());
            if i + 1 < s.len() {
                match p.out.try_next().await {
                    Some(r) => recs.push(r),
                    None => break,
                }
            }
        }
        let rest: Vec<C31Atomic> = p.out.collect().await;
        recs.extend(rest);
        let acks: Vec<i64> = p.acks.collect().await;
        (sent, recs, acks)
    }

    fn judge(_s: &Self::Script, t: &Self::Trace) -> Judgement {
        let (sent, recs, _acks) = t;
        let mut j = Judgement::default();
        let got: Vec<i64> = recs.iter().flat_map(|r| r.0.iter().copied()).collect();
        judge_partition(&mut j, "atomic-batch", sent, &got);
        let mut prev_c = 0usize;
        let mut expect_state = 0usize;
        let mut batched_before = 0usize;
        let (mut exact, mut nonempty) = (0u64, 0u64);
        for (k, (b, c1, c2, seen)) in recs.iter().enumerate() {
            j.evals += 4;
            if c1 != c2 {
                j.find(
                    "atomic-snapshots-of-one-slice-differ",
                    format!("slice {k}: two use::atomic snapshots of the same singleton read {c1} and {c2}; records {recs:?}"),
                );
            }
            if *c1 < prev_c {
                j.find(
                    "atomic-snapshot-went-back",
                    format!("slice {k} saw count {c1} after an earlier slice saw {prev_c}; records {recs:?}"),
                );
            }
            if *c1 < batched_before {
                j.find(
                    "atomic-snapshot-misses-earlier-batches",
                    format!("slice {k} saw count {c1} although earlier slices already released {batched_before} elements; records {recs:?}"),
                );
            }
            if *seen != expect_state {
                j.find(
                    "state-not-carried",
                    format!("slice {k} read state {seen} but the previous slice wrote {expect_state}; records {recs:?}"),
                );
            }
            if *c1 == batched_before + b.len() {
                exact += 1;
            }
            expect_state = seen + b.len();
            batched_before += b.len();
            if !b.is_empty() {
                nonempty += 1;
            }
            prev_c = *c1;
        }
        j.nontrivial = nonempty >= 2;
        j.count("slices", recs.len() as u64);
        j.count("slices_where_snapshot_equals_batch_cut", exact);
        j
    }

    fn exhaustive_scripts(thorough: bool) -> Vec<Self::Script> {
        int_scripts(max_n("atomic", thorough, 4, 4))
    }

    fn random_script(r: &mut Rng) -> Self::Script {
        Basic::random_script(r)
    }
}

// -------------------------------------------------------------------------------------------------
pub struct Keyed;
#[derive(Clone, Copy)]
pub struct KeyedPorts {
    inp: Tx<(i64, i64)>,
    out: Rx<C31Keyed>,
}

impl Corpus for Keyed {
    const NAME: &'static str = "keyed";
    type Ports = KeyedPorts;
    type Script = Vec<Vec<(i64, i64)>>;
    type Trace = (Vec<(i64, i64)>, Vec<C31Keyed>);

    fn build() -> (CompiledSim, KeyedPorts) {
        let mut flow = FlowBuilder::new();
        let p = flow.process::<Node>();
        let (inp, s) = p.sim_input::<(i64, i64), TotalOrder, ExactlyOnce>();
        let out = flows::c31_keyed(s).sim_output();
        (super::util::compile_locked(|| flow.sim().compiled()), KeyedPorts { inp: leak(inp), out })
    }

    async fn drive(p: KeyedPorts, s: &Self::Script) -> Self::Trace {
        let mut sent = vec![];
        let mut recs = vec![];
        for (i, ph) in s.iter().enumerate() {
            p.inp.send_many(ph.clone());
            sent.extend(ph.iter().copied());
            if i + 1 < s.len() {
                match p.out.try_next().await {
                    Some(r) => recs.push(r),
                    None => break,
                }
            }
        }
        let rest: Vec<C31Keyed> = p.out.collect().await;
        recs.extend(rest);
        (sent, recs)
    }

    fn judge(_s: &Self::Script, t: &Self::Trace) -> Judgement {
        let (sent, recs) = t;
        let mut j = Judgement::default();
        let keys: BTreeSet<i64> = sent.iter().map(|x| x.0).collect();
        for k in &keys {
            let sent_k: Vec<i64> = sent.iter().filter(|x| x.0 == *k).map(|x| x.1).collect();
            let got_k: Vec<i64> = recs
                .iter()
                .flat_map(|r| r.0.iter().filter(|(kk, _)| kk == k).flat_map(|(_, vs)| vs.iter().copied()))
                .collect();
            judge_partition(&mut j, "keyed-batch", &sent_k, &got_k);
        }
        let stray: Vec<i64> = recs
            .iter()
            .flat_map(|r| r.0.iter().map(|x| x.0))
            .filter(|k| !keys.contains(k))
            .collect();
        if !stray.is_empty() {
            j.find(
                "keyed-batch-element-in-several-batches",
                format!("batches mention keys {stray:?} that were never sent; records {recs:?}"),
            );
        }
        let mut prev: BTreeMap<i64, usize> = BTreeMap::new();
        let mut nonempty = 0u64;
        for (k, (b, snap)) in recs.iter().enumerate() {
            j.evals += 1;
            let now: BTreeMap<i64, usize> = snap.iter().copied().collect();
            for (key, c) in &prev {
                match now.get(key) {
                    None => j.find(
                        "keyed-snapshot-key-disappeared",
                        format!("slice {k}: key {key} present in an earlier snapshot is absent; records {recs:?}"),
                    ),
                    Some(c2) if c2 < c => j.find(
                        "keyed-snapshot-went-back",
                        format!("slice {k}: key {key} count {c2} after an earlier slice saw {c}; records {recs:?}"),
                    ),
                    _ => {}
                }
            }
            if b.iter().any(|(_, vs)| !vs.is_empty()) {
                nonempty += 1;
            }
            prev = now;
        }
        j.nontrivial = nonempty >= 2 && keys.len() >= 2;
        j.count("slices", recs.len() as u64);
        j
    }

    fn exhaustive_scripts(thorough: bool) -> Vec<Self::Script> {
        let max_n = max_n("keyed", thorough, 3, 4);
        let mut v = vec![];
        for n in 1..=max_n {
            // key assignments over {0,1}, first key fixed to 0 (symmetry); for n = 4 (about 5*10^5 executions per
            // script) only the two most mixed assignments
            for mask in 0..(1u32 << (n - 1)) {
                if n == 4 && mask != 0b101 && mask != 0b011 {
                    continue;
                }
                let items: Vec<(i64, i64)> = (0..n)
                    .map(|i| {
                        let key = if i == 0 { 0 } else { ((mask >> (i - 1)) & 1) as i64 };
                        (key, 10 + i as i64)
                    })
                    .collect();
                v.push(vec![items.clone()]);
                if n >= 2 {
                    let h = n / 2;
                    v.push(vec![items[..h].to_vec(), items[h..].to_vec()]);
                }
            }
        }
        v
    }

    fn random_script(r: &mut Rng) -> Self::Script {
        let n = 5 + r.below(8);
        let nkeys = 2 + r.below(2) as i64;
        let items: Vec<(i64, i64)> = (0..n).map(|i| (r.range(0, nkeys - 1), 100 + i as i64)).collect();
        random_phases(r, &items)
    }
}

// -------------------------------------------------------------------------------------------------
pub struct Buffer;
#[derive(Clone, Copy)]
pub struct BufferPorts {
    pay: Tx<i64>,
    lead: Tx<i64>,
    out: Rx<C31Buffer>,
}

impl Corpus for Buffer {
    const NAME: &'static str = "buffer";
    type Ports = BufferPorts;
    /// phases of (payloads, leader announcements)
    type Script = Vec<(Vec<i64>, Vec<i64>)>;
    /// (payloads sent, leaders sent, records)
    type Trace = (Vec<i64>, Vec<i64>, Vec<C31Buffer>);

    fn build() -> (CompiledSim, BufferPorts) {
        let mut flow = FlowBuilder::new();
        let p = flow.process::<Node>();
        let (pay, s) = p.sim_input::<i64, TotalOrder, ExactlyOnce>();
        let (lead, l) = p.sim_input::<i64, TotalOrder, ExactlyOnce>();
        let out = flows::c31_buffer(s, l).sim_output();
        (
            super::util::compile_locked(|| flow.sim().compiled()),
            BufferPorts {
                pay: leak(pay),
                lead: leak(lead),
                out,
            },
        )
    }

    async fn drive(p: BufferPorts, s: &Self::Script) -> Self::Trace {
        let (mut sp, mut sl, mut recs) = (vec![], vec![], vec![]);
        for (i, (pays, leads)) in s.iter().enumerate() {
            p.pay.send_many(pays.clone());
            p.lead.send_many(leads.clone());
            sp.extend(pays.iter().copied());
            sl.extend(leads.iter().copied());
            if i + 1 < s.len() {
                match p.out.try_next().await {
                    Some(r) => recs.push(r),
                    None => break,
                }
            }
        }
        let rest: Vec<C31Buffer> = p.out.collect().await;
        recs.extend(rest);
        (sp, sl, recs)
    }

    fn judge(_s: &Self::Script, t: &Self::Trace) -> Judgement {
        let (sent, _leaders, recs) = t;
        let mut j = Judgement::default();
        let mut batches: Vec<i64> = vec![];
        let mut expect_carried: Vec<i64> = vec![];
        let mut prev_latest: Option<i64> = None;
        let (mut buffered_slices, mut nonempty) = (0u64, 0u64);
        for (k, (all, latest, carried)) in recs.iter().enumerate() {
            j.evals += 3;
            if *carried != expect_carried {
                j.find(
                    "state-not-carried",
                    format!("slice {k} read buffered state {carried:?} but the previous slice wrote {expect_carried:?}; records {recs:?}"),
                );
            }
            if all.len() < carried.len() || all[..carried.len()] != carried[..] {
                j.find(
                    "state-not-carried",
                    format!("slice {k}: buffered ++ batch = {all:?} does not start with the buffered state {carried:?}"),
                );
            } else {
                let b = &all[carried.len()..];
                if !b.is_empty() {
                    nonempty += 1;
                }
                batches.extend_from_slice(b);
            }
            match (prev_latest, latest) {
                (Some(p), None) => j.find(
                    "optional-snapshot-went-back",
                    format!("slice {k}: leader snapshot absent after an earlier slice saw {p}; records {recs:?}"),
                ),
                (Some(p), Some(l)) if *l < p => j.find(
                    "optional-snapshot-went-back",
                    format!("slice {k}: leader snapshot {l} after an earlier slice saw {p}; records {recs:?}"),
                ),
                _ => {}
            }
            expect_carried = if latest.is_none() { all.clone() } else { vec![] };
            if latest.is_none() && !all.is_empty() {
                buffered_slices += 1;
            }
            prev_latest = *latest;
        }
        judge_partition(&mut j, "batch", sent, &batches);
        j.nontrivial = nonempty >= 2 || (nonempty >= 1 && buffered_slices >= 1 && prev_latest.is_some());
        j.count("slices", recs.len() as u64);
        j.count("slices_that_buffered", buffered_slices);
        j
    }

    fn exhaustive_scripts(thorough: bool) -> Vec<Self::Script> {
        let mut v: Vec<Self::Script> = vec![];
        let max_total = max_n("buffer", thorough, 4, 4);
        for np in 1..=3usize {
            for leaders in [vec![], vec![7], vec![7, 9], vec![9, 7]] {
                if np + leaders.len() > max_total {
                    continue;
                }
                let pays: Vec<i64> = (1..=np as i64).collect();
                v.push(vec![(pays.clone(), leaders.clone())]);
                if np >= 2 {
                    v.push(vec![(pays[..1].to_vec(), vec![]), (pays[1..].to_vec(), leaders.clone())]);
                }
                if !leaders.is_empty() {
                    v.push(vec![(pays.clone(), vec![]), (vec![], leaders.clone())]);
                }
            }
        }
        v
    }

    fn random_script(r: &mut Rng) -> Self::Script {
        let phases = 1 + r.below(4);
        let mut next = 1i64;
        (0..phases)
            .map(|_| {
                let pays: Vec<i64> = (0..r.below(5))
                    .map(|_| {
                        next += 1;
                        next
                    })
                    .collect();
                let leads: Vec<i64> = (0..r.below(3)).map(|_| r.range(1, 9)).collect();
                (pays, leads)
            })
            .collect()
    }
}

// -------------------------------------------------------------------------------------------------
const RULE: &str = "Corpus slice programs (basic: use::batch + count/set use::snapshot + use::state; atomic: \
use::atomic batch + two use::atomic snapshots + state; keyed: keyed batch + keyed-singleton snapshot; buffer: the \
documented state_null buffering idiom with an optional snapshot) emit one record per slice. Inputs of <= 3 \
(quick) / <= 4 (thorough) items, in every split into harness phases, are explored with the simulator's \
exhaustive engine (all batch boundaries, snapshot versions and tick orders); longer random inputs (5-12 items, \
random phases) with seeded schedules. A case is non-trivial when at least two slices received a non-empty \
batch (or a snapshot changed between slices); distinct = distinct (flow, input, per-slice records).";

const TEST: &str = "c31_slices_sim";

fn fold(rep: &mut Reporter, e: Explored, name: &str, want_exhaustive: bool) {
    for err in e.part.merge_into(rep, &[]) {
        rep.require(false, &format!("harness error: {err}"));
    }
    if want_exhaustive && !e.exhaustive_complete {
        rep.require(false, &format!("exhaustive exploration of flow {name} did not complete"));
    }
}

pub fn run() {
    println!();
    let args = Args::from_env();
    if args.prop == "NONE" {
        return;
    }
    let mut rep = Reporter::new("C31", args.seed);
    if let Some(case) = args.replay_case() {
        // a replay descriptor of another stage / another test of this property: not ours, nothing to do
        if case["engine"].as_str() != Some("hv_sim_b") || case["test"].as_str() != Some("c31_slices_sim") {
            return;
        }
        let e = match case["flow"].as_str().unwrap_or("") {
            "basic" => replay::<Basic>("C31", TEST, &case),
            "atomic" => replay::<Atomic>("C31", TEST, &case),
            "keyed" => replay::<Keyed>("C31", TEST, &case),
            "multi" => replay::<Multi>("C31", TEST, &case),
            _ => replay::<Buffer>("C31", TEST, &case),
        };
        fold(&mut rep, e, "replay", false);
        rep.finish(RULE, false);
        return;
    }
    let thorough = args.tier == Tier::Thorough;
    let budget = args.budget(20_000, 400_000, 20);
    // One summary per flow, printed as soon as the flow is done: if a later flow makes the simulator abort the
    // process (its internal errors are `abort()`s), what was already judged is not lost.
    drop(rep);
    run_flow::<Basic>(&args, thorough, budget, 500);
    run_flow::<Atomic>(&args, thorough, budget, 20);
    run_flow::<Keyed>(&args, thorough, budget, 500);
    run_flow::<Buffer>(&args, thorough, budget, 100);
    if thorough || std::env::var("VERIF_C31_MULTI").is_ok() {
        run_flow::<Multi>(&args, thorough, budget, 500);
    }
}

/// `want_exhaustive`: minimum number of exhaustive executions (the atomic flow leaves the simulator few choices,
/// its exhaustive space is small by construction).
fn run_flow<F: Corpus>(args: &Args, thorough: bool, budget: usize, want_exhaustive: u64) {
    let mut rep = Reporter::new("C31", args.seed);
    let t0 = std::time::Instant::now();
    fold(&mut rep, explore::<F>("C31", TEST, args.seed, thorough, budget), F::NAME, true);
    rep.extra("flow", json!(F::NAME));
    rep.extra("seconds", json!(t0.elapsed().as_secs_f64()));
    let f = F::NAME;
    rep.require(
        rep.counter(&format!("{f}_exhaustive_executions")) >= want_exhaustive,
        &format!("flow {f}: fewer than {want_exhaustive} exhaustive executions"),
    );
    rep.require(
        rep.counter(&format!("{f}_nontrivial_executions")) >= 50,
        &format!("flow {f}: fewer than 50 non-trivial executions"),
    );
    if args.tier != Tier::Miri {
        rep.require(
            rep.counter(&format!("{f}_fuzz_executions")) as usize >= budget * 9 / 10,
            &format!("flow {f}: fuzz schedules did not complete"),
        );
    }
    rep.finish(RULE, true);
}
