//! C40 — replicated log examples never diverge (Paxos part).
//!
//! The shipped `hydro_test::cluster::paxos::paxos_core` CANNOT be compiled by the Hydro simulator
//! (`flow.sim().compiled()` panics: "Reduce with optional intermediates is not yet supported in simulator" —
//! `leader_election` takes `.max()` of an unbounded top-level stream — and its election / heartbeat timers are
//! wall-clock `tokio::time` intervals, not inputs). It is therefore explored through the PRODUCTION code
//! generator (`generate_embedded`, see build.rs) by a harness scheduler that owns everything the simulator would
//! own: which member runs a tick next, the fail-stop network (one FIFO queue per channel and ordered pair of
//! members, no loss, no duplication, arbitrary delay and arbitrary interleaving across queues), the clock (a
//! paused tokio clock advanced only by the harness, so the 1 s heartbeat / 2 s leader-expiry timers race with
//! message delivery), client payload arrival, and long stalls of a current leader (a stalled-then-resumed old
//! leader is the classic divergence hazard). Every choice derives from VERIF_SEED.
//!
//! Oracle (the harness's own): every proposer's `sequenced` output is a set of (slot, value) pairs; for all
//! proposers a, b and all slots s the values are equal whenever both emitted s, and a proposer never emits two
//! different values for one slot.
use std::cell::RefCell;
use std::collections::{BTreeMap, BTreeSet, HashSet, VecDeque};
use std::rc::Rc;
use std::time::Duration;

use dfir_rs::bytes::{Bytes, BytesMut};
use hv_common::Feed;
use hydro_lang::location::MembershipEvent;
use hydro_lang::location::member_id::TaglessMemberId;
use hydro_test::cluster::paxos::Ballot;
use vcommon::{Args, Reporter, Rng, Tier, Value, hash_of, json};

use super::util::Partial;

#[allow(warnings, clippy::all)]
pub mod emb {
    include!(concat!(env!("OUT_DIR"), "/paxos_emb.rs"));
}

type NetItem = Result<(TaglessMemberId, BytesMut), std::io::Error>;
type Member = (TaglessMemberId, MembershipEvent);

/// Channels of the generated code (build.rs names them in IR order): ch0 proposer->proposer (i-am-leader),
/// ch1 proposer->acceptor (p1a), ch2 acceptor->proposer (p1b), ch3 proposer->acceptor (p2a),
/// ch4 acceptor->proposer (p2b).
const CHANNEL_NAMES: [&str; 5] = ["i-am-leader", "p1a", "p1b", "p2a", "p2b"];

fn node_name(np: usize, global: usize) -> String {
    if global < np {
        format!("P{global}")
    } else {
        format!("A{}", global - np)
    }
}

fn dst_is_acceptor(ch: usize) -> bool {
    ch == 1 || ch == 3
}

/// Global node ids: proposers 0..np, acceptors np..np+na.
struct Net {
    np: usize,
    /// (channel, src global, dst global) -> FIFO
    queues: BTreeMap<(usize, usize, usize), VecDeque<Bytes>>,
    sent: u64,
    delivered: u64,
}

fn sender(net: Rc<RefCell<Net>>, ch: usize, src_global: usize) -> impl FnMut((TaglessMemberId, Bytes)) {
    move |(dst, b)| {
        let mut n = net.borrow_mut();
        let d = dst.get_raw_id() as usize + if dst_is_acceptor(ch) { n.np } else { 0 };
        n.queues.entry((ch, src_global, d)).or_default().push_back(b);
        n.sent += 1;
    }
}

struct PropFeeds {
    payloads: Feed<u32>,
    mem_p: Feed<Member>,
    mem_a: Feed<Member>,
    ch0: Feed<NetItem>,
    ch2: Feed<NetItem>,
    ch4: Feed<NetItem>,
}

struct AccFeeds {
    checkpoints: Feed<usize>,
    ch1: Feed<NetItem>,
    ch3: Feed<NetItem>,
}

#[derive(Default, Debug)]
struct PObs {
    /// per proposer, in emission order
    sequenced: Vec<Vec<(usize, Option<u32>)>>,
    /// per proposer: ballots announced when it became leader (num, proposer)
    ballots: Vec<Vec<(u32, u32)>>,
    /// global order of leader announcements (step, proposer, ballot num)
    leader_log: Vec<(usize, usize, u32)>,
    step: usize,
}

fn prop_outputs(
    i: usize,
    obs: Rc<RefCell<PObs>>,
) -> emb::proposer::EmbeddedOutputs<impl FnMut(Ballot), impl FnMut((usize, Option<u32>))> {
    let o1 = obs.clone();
    let o2 = obs;
    emb::proposer::EmbeddedOutputs {
        ballots: move |b: Ballot| {
            let mut o = o1.borrow_mut();
            let step = o.step;
            o.ballots[i].push((b.num, b.proposer_id.get_raw_id()));
            o.leader_log.push((step, i, b.num));
        },
        sequenced: move |x: (usize, Option<u32>)| {
            o2.borrow_mut().sequenced[i].push(x);
        },
    }
}

fn prop_net_out(
    i: usize,
    net: Rc<RefCell<Net>>,
) -> emb::proposer::EmbeddedNetworkOut<
    impl FnMut((TaglessMemberId, Bytes)),
    impl FnMut((TaglessMemberId, Bytes)),
    impl FnMut((TaglessMemberId, Bytes)),
> {
    emb::proposer::EmbeddedNetworkOut {
        ch0: sender(net.clone(), 0, i),
        ch1: sender(net.clone(), 1, i),
        ch3: sender(net, 3, i),
    }
}

fn acc_net_out(
    global: usize,
    net: Rc<RefCell<Net>>,
) -> emb::acceptor::EmbeddedNetworkOut<impl FnMut((TaglessMemberId, Bytes)), impl FnMut((TaglessMemberId, Bytes))> {
    emb::acceptor::EmbeddedNetworkOut {
        ch2: sender(net.clone(), 2, global),
        ch4: sender(net, 4, global),
    }
}

#[derive(Default, Debug, Clone)]
struct Outcome {
    sequenced: Vec<Vec<(usize, Option<u32>)>>,
    ballots: Vec<Vec<(u32, u32)>>,
    leader_log: Vec<(usize, usize, u32)>,
    sent: u64,
    delivered: u64,
    undelivered: u64,
    payloads_sent: u32,
    virtual_ms: u64,
    stalls: u32,
    ticks: u64,
}

/// One schedule: `np` proposers, 3 acceptors (f = 1), `steps` scheduler decisions drawn from `sched_seed`,
/// followed by a settle phase (deliver everything, tick everyone, advance the clock) so that whoever leads can
/// finish committing.
fn run_one(np: usize, steps: usize, sched_seed: u64, trace: bool) -> Outcome {
    let rt = tokio::runtime::Builder::new_current_thread()
        .enable_time()
        .start_paused(true)
        .build()
        .expect("tokio runtime");
    let local = tokio::task::LocalSet::new();
    rt.block_on(local.run_until(run_one_async(np, steps, sched_seed, trace)))
}

async fn run_one_async(np: usize, steps: usize, sched_seed: u64, trace: bool) -> Outcome {
    const NA: usize = 3;
    let net = Rc::new(RefCell::new(Net {
        np,
        queues: BTreeMap::new(),
        sent: 0,
        delivered: 0,
    }));
    let obs = Rc::new(RefCell::new(PObs {
        sequenced: vec![vec![]; np],
        ballots: vec![vec![]; np],
        ..Default::default()
    }));
    let pids: Vec<TaglessMemberId> = (0..np as u32).map(TaglessMemberId::from_raw_id).collect();
    let aids: Vec<TaglessMemberId> = (0..NA as u32).map(TaglessMemberId::from_raw_id).collect();
    let pfeeds: Vec<PropFeeds> = (0..np)
        .map(|_| PropFeeds {
            payloads: Feed::new(),
            mem_p: Feed::new(),
            mem_a: Feed::new(),
            ch0: Feed::new(),
            ch2: Feed::new(),
            ch4: Feed::new(),
        })
        .collect();
    let afeeds: Vec<AccFeeds> = (0..NA)
        .map(|_| AccFeeds {
            checkpoints: Feed::new(),
            ch1: Feed::new(),
            ch3: Feed::new(),
        })
        .collect();
    for f in &pfeeds {
        f.mem_p
            .push_all(pids.iter().map(|id| (id.clone(), MembershipEvent::Joined)));
        f.mem_a
            .push_all(aids.iter().map(|id| (id.clone(), MembershipEvent::Joined)));
    }
    let mut pouts: Vec<_> = (0..np).map(|i| prop_outputs(i, obs.clone())).collect();
    let mut pnout: Vec<_> = (0..np).map(|i| prop_net_out(i, net.clone())).collect();
    let mut anout: Vec<_> = (0..NA).map(|j| acc_net_out(np + j, net.clone())).collect();

    let mut pflows: Vec<_> = pids
        .iter()
        .zip(pouts.iter_mut())
        .zip(pnout.iter_mut())
        .zip(pfeeds.iter())
        .map(|(((id, o), no), f)| {
            emb::proposer(
                id,
                emb::proposer::EmbeddedMembershipStreams {
                    proposer: f.mem_p.clone(),
                    acceptor: f.mem_a.clone(),
                },
                f.payloads.clone(),
                o,
                emb::proposer::EmbeddedNetworkIn {
                    ch0: f.ch0.clone(),
                    ch2: f.ch2.clone(),
                    ch4: f.ch4.clone(),
                },
                no,
            )
        })
        .collect();
    let mut aflows: Vec<_> = aids
        .iter()
        .zip(anout.iter_mut())
        .zip(afeeds.iter())
        .map(|((id, no), f)| {
            emb::acceptor(
                id,
                f.checkpoints.clone(),
                emb::acceptor::EmbeddedNetworkIn {
                    ch1: f.ch1.clone(),
                    ch3: f.ch3.clone(),
                },
                no,
            )
        })
        .collect();

    let mut r = Rng::new(sched_seed);
    let nodes = np + NA;
    let mut out = Outcome::default();
    let mut next_payload = 1u32;
    // (node, until step): a stalled member neither ticks nor receives
    let mut stalled: Option<(usize, usize)> = None;
    let stall_plan: Option<usize> = if r.chance(2, 3) { Some(steps / 4 + r.below(steps / 2 + 1)) } else { None };

    macro_rules! tick {
        ($n:expr) => {{
            let n: usize = $n;
            if trace {
                println!("[sched] step {} tick {}", obs.borrow().step, node_name(np, n));
            }
            if n < np {
                pflows[n].run_tick().await;
            } else {
                aflows[n - np].run_tick().await;
            }
            out.ticks += 1;
        }};
    }
    let deliver = |key: (usize, usize, usize)| {
        let (ch, s, d) = key;
        let b = {
            let mut n = net.borrow_mut();
            let q = n.queues.get_mut(&key).unwrap();
            let b = q.pop_front().unwrap();
            n.delivered += 1;
            b
        };
        if trace {
            println!(
                "[sched] step {} deliver {} {} -> {}",
                obs.borrow().step,
                CHANNEL_NAMES[ch],
                node_name(np, s),
                node_name(np, d)
            );
        }
        let src_raw = if ch == 2 || ch == 4 { s - np } else { s } as u32;
        let item: NetItem = Ok((TaglessMemberId::from_raw_id(src_raw), BytesMut::from(&b[..])));
        match ch {
            0 => pfeeds[d].ch0.push_all([item]),
            2 => pfeeds[d].ch2.push_all([item]),
            4 => pfeeds[d].ch4.push_all([item]),
            1 => afeeds[d - np].ch1.push_all([item]),
            _ => afeeds[d - np].ch3.push_all([item]),
        }
    };

    for step in 0..steps {
        obs.borrow_mut().step = step;
        if let Some((_, until)) = stalled {
            if step >= until {
                stalled = None;
            }
        }
        if stall_plan == Some(step) {
            // stall the member that most recently announced leadership (else a random proposer)
            let victim = obs.borrow().leader_log.last().map(|l| l.1).unwrap_or_else(|| r.below(np));
            stalled = Some((victim, step + 40 + r.below(160)));
            if trace {
                println!("[sched] step {step} stall {} until step {}", node_name(np, victim), stalled.unwrap().1);
            }
            out.stalls += 1;
        }
        let is_stalled = |n: usize| stalled.map(|s| s.0 == n).unwrap_or(false);
        let x = r.below(100);
        if x < 42 {
            let n = r.below(nodes);
            if !is_stalled(n) {
                tick!(n);
            }
        } else if x < 82 {
            let keys: Vec<(usize, usize, usize)> = net
                .borrow()
                .queues
                .iter()
                .filter(|(k, q)| !q.is_empty() && !is_stalled(k.2))
                .map(|(k, _)| *k)
                .collect();
            if !keys.is_empty() {
                deliver(*r.choose(&keys));
            }
        } else if x < 90 {
            let ms = 100 + r.below(1100) as u64;
            if trace {
                println!("[sched] step {step} clock +{ms}ms");
            }
            tokio::time::advance(Duration::from_millis(ms)).await;
            out.virtual_ms += ms;
        } else if x < 96 {
            if next_payload <= 8 {
                // to the latest announced leader most of the time, else anyone
                let to = match obs.borrow().leader_log.last() {
                    Some(l) if r.chance(3, 4) => l.1,
                    _ => r.below(np),
                };
                if trace {
                    println!("[sched] step {step} client payload {next_payload} -> P{to}");
                }
                pfeeds[to].payloads.push_all([next_payload]);
                next_payload += 1;
                out.payloads_sent += 1;
            }
        } else {
            for n in 0..nodes {
                if !is_stalled(n) {
                    tick!(n);
                }
            }
        }
    }
    // settle: everyone runs, everything is delivered (random queue order, FIFO within a queue), time passes
    for round in 0..24 {
        obs.borrow_mut().step = steps + round;
        loop {
            let keys: Vec<(usize, usize, usize)> = net
                .borrow()
                .queues
                .iter()
                .filter(|(_, q)| !q.is_empty())
                .map(|(k, _)| *k)
                .collect();
            if keys.is_empty() {
                break;
            }
            deliver(*r.choose(&keys));
        }
        for n in 0..nodes {
            tick!(n);
        }
        tokio::time::advance(Duration::from_millis(400)).await;
        out.virtual_ms += 400;
    }
    drop(pflows);
    drop(aflows);
    let o = obs.borrow();
    out.sequenced = o.sequenced.clone();
    out.ballots = o.ballots.clone();
    out.leader_log = o.leader_log.clone();
    let n = net.borrow();
    out.sent = n.sent;
    out.delivered = n.delivered;
    out.undelivered = n.queues.values().map(|q| q.len() as u64).sum();
    out
}

/// The oracle. Returns (kind, detail) findings and the number of slot comparisons made.
fn judge(o: &Outcome) -> (Vec<(String, String)>, u64) {
    let mut findings = vec![];
    let mut evals = 0u64;
    let mut chosen: BTreeMap<usize, (usize, Option<u32>)> = BTreeMap::new();
    let mut seen_kinds: BTreeSet<(String, usize)> = BTreeSet::new();
    for (p, seq) in o.sequenced.iter().enumerate() {
        let mut own: BTreeMap<usize, Option<u32>> = BTreeMap::new();
        for (slot, v) in seq {
            evals += 1;
            if let Some(prev) = own.get(slot) {
                if prev != v && seen_kinds.insert(("rewrite".into(), *slot)) {
                    findings.push((
                        "one-proposer-two-values-for-one-slot".into(),
                        format!("proposer {p} emitted {prev:?} and later {v:?} for slot {slot}"),
                    ));
                }
            }
            own.insert(*slot, *v);
            match chosen.get(slot) {
                Some((q, w)) if w != v && *q != p => {
                    if seen_kinds.insert(("fork".into(), *slot)) {
                        findings.push((
                            "two-proposers-differ-at-one-slot".into(),
                            format!("proposers {q} and {p} sequenced different values at slot {slot}: {w:?} vs {v:?}"),
                        ));
                    }
                }
                Some(_) => {}
                None => {
                    chosen.insert(*slot, (p, *v));
                }
            }
        }
    }
    (findings, evals)
}

fn case_json(np: usize, steps: usize, sched_seed: u64) -> Value {
    json!({"engine":"hv_sim_b","test":"c40_paxos","protocol":"paxos","proposers":np,"acceptors":3,
           "steps":steps,"sched_seed":sched_seed})
}

fn digest(part: &mut Partial, sets: &mut BTreeMap<&'static str, HashSet<u64>>, np: usize, steps: usize, seed: u64, o: &Outcome) {
    part.count("schedules");
    part.count(&format!("schedules_{np}_proposers"));
    let (findings, evals) = judge(o);
    part.evals += evals.max(1);
    for (kind, detail) in findings {
        let mut case = case_json(np, steps, seed);
        case["observed_sequenced"] = json!(o.sequenced);
        case["observed_leader_announcements"] = json!(o.leader_log);
        part.violation(&format!("C40|paxos|{kind}"), &detail, case);
    }
    let leaders: BTreeSet<usize> = o.leader_log.iter().map(|l| l.1).collect();
    let committing: Vec<usize> = (0..np).filter(|p| !o.sequenced[*p].is_empty()).collect();
    let mut slot_owners: BTreeMap<usize, BTreeSet<usize>> = BTreeMap::new();
    for (p, seq) in o.sequenced.iter().enumerate() {
        for (s, _) in seq {
            slot_owners.entry(*s).or_default().insert(p);
        }
    }
    let shared_slots = slot_owners.values().filter(|s| s.len() >= 2).count();
    part.count_n("leader_announcements", o.leader_log.len() as u64);
    part.count_n("slots_sequenced", slot_owners.len() as u64);
    part.count_n("slots_sequenced_by_two_proposers", shared_slots as u64);
    part.count_n("holes_sequenced", o.sequenced.iter().flatten().filter(|x| x.1.is_none()).count() as u64);
    part.count_n("messages_sent", o.sent);
    part.count_n("messages_delivered", o.delivered);
    part.count_n("payloads_sent", o.payloads_sent as u64);
    part.count_n("leader_stalls", o.stalls as u64);
    part.count_n("ticks", o.ticks);
    part.count_n("virtual_seconds", o.virtual_ms / 1000);
    part.max("max_ballot_num", o.leader_log.iter().map(|l| l.2 as u64).max().unwrap_or(0));
    if !slot_owners.is_empty() {
        part.count("schedules_with_commit");
    }
    if leaders.len() >= 2 {
        part.count("schedules_with_leader_change");
    }
    if committing.len() >= 2 {
        part.count("schedules_two_proposers_sequenced");
    }
    if shared_slots >= 1 {
        part.count("schedules_slot_sequenced_by_two_proposers");
    }
    let mut all: Vec<(usize, Option<u32>)> = o.sequenced.iter().flatten().copied().collect();
    all.sort();
    all.dedup();
    sets.entry("distinct_committed_histories").or_default().insert(hash_of(&all));
    if committing.len() >= 2 || (leaders.len() >= 2 && !slot_owners.is_empty()) {
        part.nontrivial.push(hash_of(&(np, &o.sequenced, &o.leader_log.iter().map(|l| (l.1, l.2)).collect::<Vec<_>>())));
        part.sample(|| json!({"proposers":np,"sequenced":o.sequenced,"leader_announcements":o.leader_log}));
    }
}

unsafe extern "C" {
    fn dup(fd: i32) -> i32;
    fn dup2(from: i32, to: i32) -> i32;
    fn close(fd: i32) -> i32;
}

/// Points file descriptor 1 at /dev/null until dropped.
struct StdoutSilencer {
    saved: i32,
}

impl StdoutSilencer {
    fn engage() -> Option<StdoutSilencer> {
        use std::io::Write;
        use std::os::fd::AsRawFd;
        let _ = std::io::stdout().flush();
        let devnull = std::fs::OpenOptions::new().write(true).open("/dev/null").ok()?;
        // SAFETY: plain POSIX descriptor juggling on descriptors this process owns.
        unsafe {
            let saved = dup(1);
            if saved < 0 {
                return None;
            }
            if dup2(devnull.as_raw_fd(), 1) < 0 {
                close(saved);
                return None;
            }
            Some(StdoutSilencer { saved })
        }
    }
}

impl Drop for StdoutSilencer {
    fn drop(&mut self) {
        use std::io::Write;
        let _ = std::io::stdout().flush();
        // SAFETY: see `engage`.
        unsafe {
            dup2(self.saved, 1);
            close(self.saved);
        }
    }
}

const RULE: &str = "Paxos is explored by a harness scheduler over the PRODUCTION embedded codegen of the shipped \
paxos_core, not by the Hydro simulator: the simulator cannot compile it (unsupported top-level reduce in \
leader_election; wall-clock tokio timers). Each case is one schedule of 2 or 3 proposers and 3 acceptors (f=1): \
500 seeded scheduler decisions (run one member's tick / deliver the head of one per-channel per-pair FIFO queue / \
advance the paused clock by 0.1-1.2 s / hand a client payload to a proposer / tick everyone), in 2 of 3 schedules \
a long stall of the member that last announced leadership, then a settle phase. The proposers' sequenced \
(slot, value) outputs are compared pairwise by slot and checked rewrite-free. A case is non-trivial when two \
proposers sequenced something, or leadership changed and something was sequenced; distinct = distinct \
(sequenced outputs, leader announcements). HashMap iteration order inside the generated program is not seeded, so \
replay of a case re-runs the same scheduler decisions but is not guaranteed bit-identical.";

pub fn run() {
    println!();
    let args = Args::from_env();
    if args.prop == "NONE" {
        return;
    }
    let mut rep = Reporter::new("C40", args.seed);
    let steps = 500;
    if let Some(case) = args.replay_case() {
        // a replay descriptor of another stage / another test of this property: not ours, nothing to do
        if case["engine"].as_str() != Some("hv_sim_b") || case["test"].as_str() != Some("c40_paxos") {
            return;
        }
        let np = case["proposers"].as_u64().unwrap_or(2) as usize;
        let st = case["steps"].as_u64().unwrap_or(steps as u64) as usize;
        let seed = case["sched_seed"].as_u64().expect("sched_seed");
        let o = run_one(np, st, seed, true);
        println!("{}", json!({"t":"note","replay":"c40_paxos","sequenced":o.sequenced,"leader_announcements":o.leader_log}));
        let mut part = Partial::default();
        let mut sets = BTreeMap::new();
        digest(&mut part, &mut sets, np, st, seed, &o);
        part.merge_into(&mut rep, &["max_ballot_num"]);
        rep.finish(RULE, false);
        return;
    }
    let total = args.budget(1500, 30_000, 10);
    let w = super::util::workers(2, 6, args.tier);
    let t0 = std::time::Instant::now();
    // The shipped program println!s on every protocol step (~7 KB per schedule); keep that out of the
    // monitor's stdout protocol while the schedules run (replay mode keeps it: it is the protocol trace).
    let quiet = StdoutSilencer::engage();
    let outs: Vec<(Partial, BTreeMap<&'static str, HashSet<u64>>)> = std::thread::scope(|s| {
        let hs: Vec<_> = (0..w)
            .map(|wi| {
                let seed = args.seed;
                s.spawn(move || {
                    let mut part = Partial::default();
                    let mut sets = BTreeMap::new();
                    let base = Rng::new(seed).fork(0xFA05);
                    let mut i = wi;
                    while i < total {
                        let mut rng = base.fork(i as u64);
                        let np = 2 + (i % 2);
                        let sched_seed = rng.next_u64();
                        match vcommon::catch(|| run_one(np, steps, sched_seed, false)) {
                            Ok(o) => digest(&mut part, &mut sets, np, steps, sched_seed, &o),
                            Err(msg) => part.harness_error(format!("proposers={np} sched_seed={sched_seed}: {msg}")),
                        }
                        i += w;
                    }
                    (part, sets)
                })
            })
            .collect();
        hs.into_iter().map(|h| h.join().expect("worker")).collect()
    });
    drop(quiet);
    let mut all_sets: BTreeMap<&'static str, HashSet<u64>> = BTreeMap::new();
    for (part, sets) in outs {
        for e in part.merge_into(&mut rep, &["max_ballot_num"]) {
            rep.require(false, &format!("harness error: {e}"));
        }
        for (k, s) in sets {
            all_sets.entry(k).or_default().extend(s);
        }
    }
    for (k, s) in &all_sets {
        rep.extra(k, json!(s.len()));
    }
    let secs = t0.elapsed().as_secs_f64();
    rep.extra("throughput", json!({"schedules":total,"workers":w,"seconds":secs,"schedules_per_second":total as f64/secs.max(1e-9)}));
    rep.extra("explored_by", json!("harness scheduler over production embedded codegen (the Hydro simulator cannot compile paxos_core)"));
    let sched = rep.counter("schedules").max(1);
    if args.tier != Tier::Miri {
        rep.require(rep.counter("harness_errors") == 0, "harness errors occurred");
        rep.require(rep.counter("schedules_with_commit") * 2 >= sched, "fewer than half of the schedules sequenced anything");
        rep.require(rep.counter("schedules_with_leader_change") * 4 >= sched, "fewer than a quarter of the schedules had a leader change");
        rep.require(rep.counter("schedules_two_proposers_sequenced") * 20 >= sched, "fewer than 5% of the schedules had two proposers sequencing");
        rep.require(rep.counter("schedules_slot_sequenced_by_two_proposers") >= 5, "no slot was ever sequenced by two different proposers");
    }
    rep.finish(RULE, false);
}
