//! Generated Hydro flows (C41 / C42b / C28-generated).
//!
//! `src/generated.rs` is written by `gen/gen.py` from (seed, N, generator version); the committed
//! file is a tiny placeholder so the crate builds from a fresh clone. This file holds only what is
//! hand-written: the location tags and the *observers* that turn a flow's result into something
//! `embedded_output` accepts. Observers are outside the program under judgement (their `nondet!`s
//! do not count against the "safe API only" restriction of C28).
#[cfg(stageleft_runtime)]
hydro_lang::setup!();

use std::fmt::Debug;

use hydro_lang::live_collections::keyed_singleton::KeyedSingletonBound;
use hydro_lang::live_collections::singleton::SingletonBound;
use hydro_lang::live_collections::stream::{ExactlyOnce, Ordering, Retries, TotalOrder};
use hydro_lang::live_collections::boundedness::Boundedness;
use hydro_lang::prelude::*;

pub mod generated;

/// Location tags of the (up to three) processes a generated flow may span.
pub struct P0;
pub struct P1;
pub struct P2;

/// What the harness receives for every observed element: its `Debug` rendering.
pub type Obs<'a, P> = Stream<String, Process<'a, P>, Unbounded, TotalOrder, ExactlyOnce>;

/// Observer for streams of any ordering / retry guarantee (compared as sequence, multiset or set
/// by the harness according to the *declared* type of the flow result).
pub fn obs_stream<'a, T: Debug, P, B: Boundedness, O: Ordering, R: Retries>(
    s: Stream<T, Process<'a, P>, B, O, R>,
) -> Obs<'a, P> {
    s.weaken_boundedness::<Unbounded>()
        .assume_ordering::<TotalOrder>(nondet!(/** observer */))
        .assume_retries::<ExactlyOnce>(nondet!(/** observer */))
        .map(q!(|x| format!("{:?}", x)))
}

/// Observer for singletons: one sample per tick; the harness uses the last one.
pub fn obs_singleton<'a, T: Debug, P, B: SingletonBound>(s: Singleton<T, Process<'a, P>, B>) -> Obs<'a, P> {
    s.sample_eager(nondet!(/** observer */))
        .assume_ordering::<TotalOrder>(nondet!(/** observer */))
        .assume_retries::<ExactlyOnce>(nondet!(/** observer */))
        .map(q!(|x| format!("{:?}", x)))
}

/// Observer for optionals: sampled as `Option<T>` so that a value that disappears is seen.
pub fn obs_optional<'a, T: Debug + Clone, P, B: Boundedness>(s: Optional<T, Process<'a, P>, B>) -> Obs<'a, P> {
    s.into_singleton()
        .sample_eager(nondet!(/** observer */))
        .assume_ordering::<TotalOrder>(nondet!(/** observer */))
        .assume_retries::<ExactlyOnce>(nondet!(/** observer */))
        .map(q!(|x| format!("{:?}", x)))
}

/// Observer for keyed singletons whose values may still change: every tick, a snapshot rendered as the
/// sorted vector of entries; the harness uses the last one. (Public APIs only: snapshot + entries + a
/// commutative collect inside the observer's own tick.)
pub fn obs_keyed_singleton_snapshot<'a, K, V, P, B>(s: KeyedSingleton<K, V, Process<'a, P>, B>) -> Obs<'a, P>
where
    K: Debug + Ord + Clone,
    V: Debug + Ord + Clone,
    B: KeyedSingletonBound<ValueBound = Unbounded>,
{
    let tick = s.location().tick();
    s.snapshot(&tick, nondet!(/** observer */))
        .entries()
        .fold(
            q!(|| Vec::new()),
            q!(|acc, kv| acc.push(kv), commutative = manual_proof!(/** sorted before use */)),
        )
        .map(q!(|mut v| {
            v.sort();
            format!("{:?}", v)
        }))
        .all_ticks()
}

/// Observer for keyed singletons whose values are fixed once present: the stream of entries (each key
/// appears once; compared as a multiset).
pub fn obs_keyed_singleton_entries<'a, K: Debug, V: Debug, P, B>(s: KeyedSingleton<K, V, Process<'a, P>, B>) -> Obs<'a, P>
where
    B: KeyedSingletonBound<ValueBound = Bounded>,
{
    s.entries()
        .weaken_boundedness::<Unbounded>()
        .assume_ordering::<TotalOrder>(nondet!(/** observer */))
        .map(q!(|x| format!("{:?}", x)))
}

/// Observer for keyed streams: entries tagged with their key (the harness groups by key).
pub fn obs_keyed_stream<'a, K: Debug, V: Debug, P, B: Boundedness, O: Ordering, R: Retries>(
    s: KeyedStream<K, V, Process<'a, P>, B, O, R>,
) -> Obs<'a, P> {
    s.entries()
        .weaken_boundedness::<Unbounded>()
        .assume_ordering::<TotalOrder>(nondet!(/** observer */))
        .assume_retries::<ExactlyOnce>(nondet!(/** observer */))
        .map(q!(|(k, v)| format!("{:?}\u{1}{:?}", k, v)))
}
