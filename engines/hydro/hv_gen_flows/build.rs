//! stageleft final-crate generation, plus: on a fresh clone the generated (git-ignored) inputs of this
//! crate pair do not exist yet -- put the committed placeholders in their place so both crates build.
use std::path::Path;

fn ensure(target: &str, placeholder: &str) {
    let t = Path::new(target);
    if !t.exists() {
        let _ = std::fs::copy(placeholder, t);
    }
}

fn main() {
    println!("cargo::rerun-if-changed=src/generated.rs");
    println!("cargo::rerun-if-changed=build.rs");
    ensure("src/generated.rs", "gen/placeholder_generated.rs");
    ensure("../hv_gen_emb/gen_build.rs", "gen/placeholder_gen_build.rs");
    ensure("../hv_gen_emb/gen_desc.json", "gen/placeholder_gen_desc.json");
    stageleft_tool::gen_final!();
}
