// Placeholder: the real file is written by hv_gen_flows/gen/gen.py (through vlib/drv_gen.py) from the seed.
