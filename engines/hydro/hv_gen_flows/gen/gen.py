#!/usr/bin/env python3
"""Typed combinator-grammar generator of Hydro flows (C41 / C42b / C28-generated).

From (seed, N) it produces N programs. Each program is
  * a `pub fn flow_<k><'a>(procs.., inputs..) -> (results..)` over hydro_lang live collections for
    `hv_gen_flows/src/generated.rs`. Every `let` carries the full Hydro type the grammar computed, so a
    mismatch between this model and the real API is a *compile error in generated.rs* (classified as
    generator bug by the driver, never as a finding);
  * a build block for `hv_gen_emb/gen_build.rs` (FlowBuilder + embedded inputs + observers +
    generate_embedded);
  * a driver shim for `hv_gen_emb/src/gen_drivers.rs`;
  * a JSON description (operators, inputs, outputs with their declared ordering/retries, safe flag).

The grammar tracks: element type, collection kind, location (process, tick), boundedness, ordering,
retries, and synchronous dependencies on open forward references. Aggregations on unordered /
at-least-once inputs are only ever given closures from a fixed vocabulary whose algebraic property
genuinely holds (sum: commutative; max/min/set-insert: commutative + idempotent), annotated with
`commutative = manual_proof!(..)` / `idempotent = manual_proof!(..)`.
"""
import hashlib
import json
import os
import re
import sys

GEN_VERSION = 3

MASK = (1 << 64) - 1


class Rng:
    def __init__(self, seed):
        self.s = (seed ^ 0x9E3779B97F4A7C15) & MASK

    def next(self):
        self.s = (self.s + 0x9E3779B97F4A7C15) & MASK
        z = self.s
        z = ((z ^ (z >> 30)) * 0xBF58476D1CE4E5B9) & MASK
        z = ((z ^ (z >> 27)) * 0x94D049BB133111EB) & MASK
        return z ^ (z >> 31)

    def below(self, n):
        return self.next() % n

    def chance(self, num, den):
        return self.next() % den < num

    def choose(self, xs):
        return xs[self.below(len(xs))]

    def weighted(self, items):
        """items: list of (weight, value)"""
        tot = sum(w for w, _ in items)
        r = self.below(tot)
        for w, v in items:
            if r < w:
                return v
            r -= w
        return items[-1][1]


# --------------------------------------------------------------------------------------------------
# element types:  'i64' | 'usize' | 'bool' | ('t', a, b) | ('opt', a) | ('set',)

I64 = 'i64'
USZ = 'usize'
BOOL = 'bool'
SET = ('set',)
PAIR = ('t', I64, I64)


def T2(a, b):
    return ('t', a, b)


def ty(t):
    if isinstance(t, str):
        return t
    if t[0] == 't':
        return '(%s, %s)' % (ty(t[1]), ty(t[2]))
    if t[0] == 'opt':
        return 'Option<%s>' % ty(t[1])
    if t[0] == 'set':
        return 'std::collections::BTreeSet<i64>'
    raise ValueError(t)


def depth(t):
    if isinstance(t, str) or t[0] == 'set':
        return 0
    if t[0] == 'opt':
        return 1 + depth(t[1])
    return 1 + max(depth(t[1]), depth(t[2]))


def leaves(t, x):
    """i64-valued expressions over the leaves of value expression x of type t."""
    if t == I64:
        return [x]
    if t in (USZ, BOOL):
        return ['(%s as i64)' % x]
    if t[0] == 't':
        return leaves(t[1], '(%s.0)' % x) + leaves(t[2], '(%s.1)' % x)
    if t[0] == 'opt':
        inner = leaves(t[1], 'o')
        e = inner[0]
        for l in inner[1:]:
            e = '%s.wrapping_add(%s)' % (e, l)
        return ['(%s.clone().map(|o| %s).unwrap_or(-1i64))' % (x, e)]
    if t[0] == 'set':
        return ['(%s.iter().fold(0i64, |s, e| s.wrapping_add(*e)))' % x]
    raise ValueError(t)


def to_i64(t, x, rng, small=None):
    ls = leaves(t, x)
    e = None
    for l in ls:
        c = rng.choose([1, 1, 2, 3, -1, 5])
        term = l if c == 1 else '%s.wrapping_mul(%di64)' % (l, c)
        e = term if e is None else '%s.wrapping_add(%s)' % (e, term)
    if rng.chance(1, 2):
        e = '%s.wrapping_add(%di64)' % (e, rng.choose([1, 2, 7, -3]))
    if small:
        return '(%s).rem_euclid(%di64)' % (e, small)
    return '((%s) %% 1009i64)' % e


def to_elem(t_from, x, t_to, rng):
    """expression of type t_to computed from x : t_from"""
    if t_to == I64:
        return to_i64(t_from, x, rng)
    if t_to == PAIR:
        return '(%s, %s)' % (to_i64(t_from, x, rng, small=rng.choose([2, 3, 5])), to_i64(t_from, x, rng))
    raise ValueError(t_to)


def cond(t, x, rng):
    m = rng.choose([2, 3, 4])
    return '%s != 0i64' % to_i64(t, x, rng, small=m)


# --------------------------------------------------------------------------------------------------
# collection model

TOTAL, NOORD = 'TotalOrder', 'NoOrder'
EXACT, ATLEAST = 'ExactlyOnce', 'AtLeastOnce'
BND, UNB, MONO = 'Bounded', 'Unbounded', 'Monotonic'
# keyed-singleton bounds
KB = {
    'Bounded': dict(under=BND, value=BND, erase='Bounded'),
    'Unbounded': dict(under=UNB, value=UNB, erase='Unbounded'),
    'BoundedValue': dict(under=UNB, value=BND, erase='BoundedValue'),
    'MonotonicValue': dict(under=UNB, value=UNB, erase='MonotonicKeys'),
    'MonotonicKeys': dict(under=UNB, value=UNB, erase='MonotonicKeys'),
}


def min_order(a, b):
    return TOTAL if a == TOTAL and b == TOTAL else NOORD


def min_retry(a, b):
    return EXACT if a == EXACT and b == EXACT else ATLEAST


def under(b):
    return UNB if b == MONO else b


class Var:
    def __init__(self, kind, loc, t=None, k=None, v=None, bound=UNB, order=TOTAL, retry=EXACT, deps=frozenset(),
                 adeps=None):
        self.kind = kind      # 'S' stream, 'KS' keyed stream, 'Sg' singleton, 'Op' optional, 'KSg' keyed singleton
        self.loc = loc        # (proc index, tick name or None)
        self.t = t            # element type (S, Sg, Op)
        self.k, self.v = k, v  # key / value types (KS, KSg)
        self.bound = bound
        self.order = order
        self.retry = retry
        self.deps = frozenset(deps)  # forward refs this collection depends on synchronously (same tick, no hop)
        self.adeps = frozenset(deps if adeps is None else adeps)  # ... depends on at all (also through defer/network)
        self.name = None
        self.inp = False

    def loc_str(self):
        p = "Process<'a, P%d>" % self.loc[0]
        return 'Tick<%s>' % p if self.loc[1] else p

    def type_str(self):
        l = self.loc_str()
        if self.kind == 'S':
            return 'Stream<%s, %s, %s, %s, %s>' % (ty(self.t), l, self.bound, self.order, self.retry)
        if self.kind == 'KS':
            return 'KeyedStream<%s, %s, %s, %s, %s, %s>' % (ty(self.k), ty(self.v), l, self.bound, self.order, self.retry)
        if self.kind == 'Sg':
            return 'Singleton<%s, %s, %s>' % (ty(self.t), l, self.bound)
        if self.kind == 'Op':
            return 'Optional<%s, %s, %s>' % (ty(self.t), l, self.bound)
        if self.kind == 'KSg':
            return 'KeyedSingleton<%s, %s, %s, %s>' % (ty(self.k), ty(self.v), l, self.bound)
        raise ValueError(self.kind)

    def in_tick(self):
        return self.loc[1] is not None

    def like(self, **kw):
        d = dict(kind=self.kind, loc=self.loc, t=self.t, k=self.k, v=self.v, bound=self.bound, order=self.order,
                 retry=self.retry, deps=self.deps, adeps=self.adeps)
        d.update(kw)
        return Var(**d)


MP_COMM = 'commutative = manual_proof!(/** %s */)'
MP_IDEM = 'idempotent = manual_proof!(/** %s */)'


class Prog:
    def __init__(self, idx, rng, mode, max_ops):
        self.idx = idx
        self.rng = rng
        self.mode = mode            # 'safe' (no nondet! anywhere), 'tick'
        self.max_ops = max_ops
        self.lines = []
        self.pool = []
        self.nvars = 0
        self.ops = []
        self.inputs = []            # (name, proc, elem type)
        self.nprocs = 1
        self.ticks = {}             # tick name -> proc
        self.safe = True
        self.channels = []          # (name, from proc, to proc)
        self.open_cycles = []       # dict(kind='tick'|'fwd', handle, var template, id)
        self.ncycles = 0
        self.has_loop = False       # a dependency cycle exists at run time (through defer / network)
        self.max_defer = 0
        self.inp = {}               # var name -> depends on a harness input
        self.hist = {}              # var name -> operators in its backward slice
        self.cycle_hist = {}        # cycle id -> operators in the slice of the completing collection
        self.cyc_of = {}
        self.fwd_sync = {}          # completed forward ref -> forward refs its completion depends on synchronously

    # ---- helpers
    def fresh(self):
        n = 'v%d' % self.nvars
        self.nvars += 1
        return n

    def note_inp(self, var, expr, op=None):
        parents = re.findall(r'\b(?:v|in)\d+\b', expr)
        var.inp = any(self.inp.get(n, False) for n in parents)
        self.inp[var.name] = var.inp
        h = set([op] if op else [])
        for n in parents:
            h |= self.hist.get(n, set())
        self.hist[var.name] = h

    def emit(self, var, expr, op):
        var.name = self.fresh()
        self.note_inp(var, expr, op)
        self.lines.append('let %s: %s = %s;' % (var.name, var.type_str(), expr))
        self.pool.append(var)
        self.ops.append(op)
        return var

    def use(self, var):
        """an expression consuming var: either moves it (removed from pool) or clones it (tee)."""
        if self.rng.chance(1, 4):
            self.ops.append('tee')
            return '%s.clone()' % var.name
        self.pool.remove(var)
        return var.name

    def tick_of(self, proc, new_ok=True):
        names = [n for n, p in self.ticks.items() if p == proc]
        if names and (not new_ok or len(names) >= 2 or self.rng.chance(3, 4)):
            return self.rng.choose(names)
        n = 't%d' % len(self.ticks)
        self.ticks[n] = proc
        self.lines.append('let %s = p%d.tick();' % (n, proc))
        return n

    def pick(self, pred):
        c = [v for v in self.pool if pred(v)]
        return self.rng.choose(c) if c else None

    def new_elem(self, t_from):
        """target element type for a map-like closure"""
        r = self.rng.below(10)
        if r < 4:
            return I64
        if r < 8:
            return PAIR
        return None  # caller-specific richer type

    # ---- closures
    def cl_map(self, t_from, t_to):
        return 'q!(|x: %s| %s)' % (ty(t_from), to_elem(t_from, 'x', t_to, self.rng))

    def cl_filter(self, t):
        return 'q!(|r: &%s| { let x = r.clone(); %s })' % (ty(t), cond(t, 'x', self.rng))

    def cl_filter_map(self, t_from, t_to):
        return 'q!(|x: %s| if %s { Some(%s) } else { None })' % (
            ty(t_from), cond(t_from, 'x', self.rng), to_elem(t_from, 'x', t_to, self.rng))

    def cl_flat_map(self, t_from):
        a = to_i64(t_from, 'x', self.rng)
        b = to_i64(t_from, 'x', self.rng)
        if self.rng.chance(1, 2):
            return 'q!(|x: %s| vec![%s, %s])' % (ty(t_from), a, b)
        return 'q!(|x: %s| (0i64..(%s)).map(move |j| j.wrapping_add(%s)).collect::<Vec<i64>>())' % (
            ty(t_from), to_i64(t_from, 'x', self.rng, small=3), b)

    def agg(self, t, order, retry):
        """(init closure, comb closure incl. annotations, acc type, name) for fold over elements of type t"""
        need_comm = order == NOORD
        need_idem = retry == ATLEAST
        x = to_i64(t, 'x', self.rng)
        choices = []
        if not need_idem:
            choices.append('sum')
        choices += ['max', 'min', 'set']
        if not need_comm and not need_idem:
            choices += ['poly', 'poly']
        name = self.rng.choose(choices)
        props = []
        if name == 'sum':
            init, body, acc = '0i64', '*acc = acc.wrapping_add(%s);' % x, I64
            comm, idem = True, False
        elif name == 'max':
            init, body, acc = 'i64::MIN', '*acc = (*acc).max(%s);' % x, I64
            comm, idem = True, True
        elif name == 'min':
            init, body, acc = 'i64::MAX', '*acc = (*acc).min(%s);' % x, I64
            comm, idem = True, True
        elif name == 'set':
            init, body, acc = 'std::collections::BTreeSet::<i64>::new()', 'acc.insert(%s);' % x, SET
            comm, idem = True, True
        else:
            init, body, acc = '7i64', '*acc = acc.wrapping_mul(31i64).wrapping_add(%s) %% 1000003i64;' % x, I64
            comm, idem = False, False
        if comm and (need_comm or self.rng.chance(1, 3)):
            props.append(MP_COMM % (name + ' is commutative'))
        if idem and (need_idem or self.rng.chance(1, 3)):
            props.append(MP_IDEM % (name + ' is idempotent'))
        comb = 'q!(|acc: &mut %s, x: %s| { %s }%s)' % (ty(acc), ty(t), body, ''.join(', ' + p for p in props))
        return 'q!(|| %s)' % init, comb, acc, 'fold_' + name

    def red(self, t, order, retry):
        need_comm = order == NOORD
        need_idem = retry == ATLEAST
        choices = ['max', 'min']
        if t == I64 and not need_idem:
            choices.append('sum')
        if not need_comm and not need_idem:
            choices += ['last', 'last']
        name = self.rng.choose(choices)
        props = []
        if name == 'sum':
            body, comm, idem = '*acc = acc.wrapping_add(x);', True, False
        elif name == 'max':
            body, comm, idem = 'if x > *acc { *acc = x; }', True, True
        elif name == 'min':
            body, comm, idem = 'if x < *acc { *acc = x; }', True, True
        else:
            body, comm, idem = '*acc = x;', False, False
        if comm and (need_comm or self.rng.chance(1, 3)):
            props.append(MP_COMM % (name + ' is commutative'))
        if idem and (need_idem or self.rng.chance(1, 3)):
            props.append(MP_IDEM % (name + ' is idempotent'))
        return 'q!(|acc: &mut %s, x: %s| { %s }%s)' % (ty(t), ty(t), body, ''.join(', ' + p for p in props)), 'reduce_' + name

    # ---- sources
    def add_input(self, proc, t):
        name = 'in%d' % len(self.inputs)
        self.inputs.append((name, proc, t))
        v = Var('S', (proc, None), t=t, bound=UNB, order=TOTAL, retry=EXACT)
        v.name = name
        v.inp = True
        self.inp[name] = True
        self.hist[name] = set()
        self.pool.append(v)
        return v

    def src_iter(self, loc):
        t = self.rng.choose([I64, I64, PAIR])
        n = 1 + self.rng.below(4)
        if t == I64:
            items = ', '.join('%di64' % (self.rng.below(12) - 2) for _ in range(n))
        else:
            items = ', '.join('(%di64, %di64)' % (self.rng.below(4), self.rng.below(12) - 2) for _ in range(n))
        who = loc[1] if loc[1] else 'p%d' % loc[0]
        v = Var('S', loc, t=t, bound=BND, order=TOTAL, retry=EXACT)
        return self.emit(v, '%s.source_iter(q!(vec![%s]))' % (who, items), 'source_iter')

    def src_singleton(self, loc):
        who = loc[1] if loc[1] else 'p%d' % loc[0]
        v = Var('Sg', loc, t=I64, bound=BND)
        return self.emit(v, '%s.singleton(q!(%di64))' % (who, self.rng.below(9) - 1), 'singleton_source')

    # ---- operator application: returns True if something was emitted
    def step(self):
        rng = self.rng
        if self.mode == 'tick' and self.ticks and not any(o.startswith('tick_cycle') for o in self.ops) and rng.chance(1, 5):
            self.op_tick_cycle(rng.choose(sorted(self.ticks)))
            return True
        un = []
        for v in self.pool:
            k = 3 if v.inp else 1
            if v.kind in ('KS', 'KSg'):
                k *= 3
            un += [(w * k, f) for (w, f) in self.unary_cands(v)]
        bi = self.binary_cands()
        src = self.source_cands()
        cats = []
        if un:
            cats.append((50, un))
        if bi:
            cats.append((30, bi))
        if src:
            cats.append((10 if len(self.pool) < 5 else 3, src))
        if not cats:
            return False
        cands = rng.weighted(cats)
        f = rng.weighted([(c[0], c) for c in cands])
        f[1]()
        return True

    def unary_cands(self, v):
        """list of (weight, thunk)"""
        rng = self.rng
        out = []
        tickmode = self.mode == 'tick'
        if v.kind == 'S':
            d = depth(v.t)
            out.append((6, lambda: self.op_map(v)))
            out.append((4, lambda: self.emit(v.like(), '%s.filter(%s)' % (self.use(v), self.cl_filter(v.t)), 'filter')))
            out.append((3, lambda: self.op_filter_map(v)))
            out.append((3, lambda: self.op_flat_map(v)))
            out.append((1, lambda: self.emit(v.like(), '%s.inspect(q!(|_x: &%s| {}))' % (self.use(v), ty(v.t)), 'inspect')))
            if v.order == TOTAL and v.retry == EXACT:
                if d < 3:
                    out.append((3, lambda: self.emit(v.like(t=T2(USZ, v.t)), '%s.enumerate()' % self.use(v), 'enumerate')))
                out.append((2, lambda: self.op_scan(v)))
            out.append((3, lambda: self.emit(v.like(retry=EXACT), '%s.unique()' % self.use(v), 'unique')))
            out.append((5, lambda: self.op_fold(v)))
            out.append((3, lambda: self.op_reduce(v)))
            if v.retry == EXACT:
                out.append((2, lambda: self.emit(
                    Var('Sg', v.loc, t=USZ, bound=(MONO if v.bound == UNB else BND), deps=v.deps, adeps=v.adeps),
                    '%s.count()' % self.use(v), 'count')))
            out.append((2, lambda: self.emit(Var('Op', v.loc, t=v.t, bound=v.bound, deps=v.deps, adeps=v.adeps),
                                             '%s.%s()' % (self.use(v), rng.choose(['max', 'min'])), 'max_min')))
            if v.order == TOTAL:
                out.append((2, lambda: self.emit(Var('Op', v.loc, t=v.t, bound=v.bound, deps=v.deps, adeps=v.adeps),
                                                 '%s.%s()' % (self.use(v), rng.choose(['first', 'last'])), 'first_last')))
            if not isinstance(v.t, str) and v.t[0] == 't':
                out.append((9, lambda: self.emit(
                    Var('KS', v.loc, k=v.t[1], v=v.t[2], bound=v.bound, order=v.order, retry=v.retry, deps=v.deps, adeps=v.adeps),
                    '%s.into_keyed()' % self.use(v), 'into_keyed')))
            if v.order == TOTAL:
                out.append((1, lambda: self.emit(v.like(order=NOORD), '%s.weaken_ordering::<NoOrder>()' % self.use(v), 'weaken_ordering')))
            if v.retry == EXACT:
                out.append((1, lambda: self.emit(v.like(retry=ATLEAST), '%s.weaken_retries::<AtLeastOnce>()' % self.use(v), 'weaken_retries')))
            if v.bound == BND:
                out.append((2, lambda: self.emit(v.like(order=TOTAL), '%s.sort()' % self.use(v), 'sort')))
                out.append((1, lambda: self.emit(Var('Sg', v.loc, t=BOOL, bound=BND, deps=v.deps, adeps=v.adeps),
                                                 '%s.is_empty()' % self.use(v), 'is_empty')))
            if v.order == TOTAL and v.retry == EXACT:
                out.append((2, lambda: self.emit(v.like(), '%s.limit(q!(%dusize))' % (self.use(v), 1 + rng.below(4)), 'limit')))
            out.append((2, lambda: self.op_partition(v)))
            sig = self.pick(lambda o: o.kind == 'Op' and o.loc == v.loc and o.bound == BND)
            if sig is not None:
                out.append((3, lambda: self.op_filter_if(v, sig)))
            if v.in_tick():
                out.append((4, lambda: self.emit(v.like(loc=(v.loc[0], None), bound=UNB), '%s.all_ticks()' % self.use(v), 'all_ticks')))
                out.append((2, lambda: self.op_defer(v)))
            else:
                if tickmode:
                    out.append((14, lambda: self.op_batch(v)))
                if self.nprocs > 1 or rng.chance(1, 2):
                    out.append((4, lambda: self.op_send(v)))
        elif v.kind == 'KS':
            out.append((3, lambda: self.op_ks_map(v)))
            out.append((2, lambda: self.emit(v.like(), '%s.filter(%s)' % (self.use(v), self.cl_filter(v.v)), 'keyed_filter')))
            rare = (not v.in_tick()) and v.bound == BND
            if not rare or rng.chance(1, 6):
                out.append((5, lambda: self.op_ks_fold(v)))
                out.append((3, lambda: self.op_ks_reduce(v)))
            out.append((3, lambda: self.emit(Var('S', v.loc, t=T2(v.k, v.v), bound=v.bound, order=NOORD, retry=v.retry, deps=v.deps, adeps=v.adeps),
                                             '%s.entries()' % self.use(v), 'keyed_entries')))
            out.append((2, lambda: self.emit(Var('S', v.loc, t=v.k, bound=v.bound, order=NOORD, retry=EXACT, deps=v.deps, adeps=v.adeps),
                                             '%s.keys()' % self.use(v), 'keyed_keys')))
            out.append((2, lambda: self.emit(Var('S', v.loc, t=v.v, bound=v.bound, order=NOORD, retry=v.retry, deps=v.deps, adeps=v.adeps),
                                             '%s.values()' % self.use(v), 'keyed_values')))
            if v.order == TOTAL and v.retry == EXACT:
                out.append((2, lambda: self.emit(
                    Var('KSg', v.loc, k=v.k, v=v.v, bound=('BoundedValue' if v.bound == UNB else 'Bounded'), deps=v.deps, adeps=v.adeps),
                    '%s.first()' % self.use(v), 'keyed_first')))
                out.append((2, lambda: self.op_ks_scan(v)))
                if depth(v.v) < 2:
                    out.append((1, lambda: self.emit(v.like(v=T2(USZ, v.v)), '%s.enumerate()' % self.use(v), 'keyed_enumerate')))
            out.append((2, lambda: self.op_ks_map_with_key(v)))
            out.append((2, lambda: self.emit(v.like(v=I64), '%s.filter_map(%s)' % (self.use(v), self.cl_filter_map(v.v, I64)),
                                             'keyed_filter_map')))
            out.append((2, lambda: self.emit(v.like(order=NOORD, retry=EXACT), '%s.unique()' % self.use(v), 'keyed_unique')))
            if v.bound == BND:
                out.append((1, lambda: self.emit(v.like(order=TOTAL), '%s.sort()' % self.use(v), 'keyed_sort')))
            if v.retry == EXACT:
                out.append((2, lambda: self.emit(
                    Var('KSg', v.loc, k=v.k, v=USZ, bound=('MonotonicValue' if v.bound == UNB else 'Bounded'), deps=v.deps, adeps=v.adeps),
                    '%s.value_counts()' % self.use(v), 'value_counts')))
            if v.in_tick():
                out.append((3, lambda: self.emit(v.like(loc=(v.loc[0], None), bound=UNB), '%s.all_ticks()' % self.use(v), 'keyed_all_ticks')))
                out.append((1, lambda: self.op_defer(v)))
            elif tickmode:
                out.append((3, lambda: self.op_batch(v)))
        elif v.kind == 'Sg':
            out.append((4, lambda: self.op_sg_map(v)))
            out.append((2, lambda: self.emit(Var('Op', v.loc, t=v.t, bound=under(v.bound), deps=v.deps, adeps=v.adeps),
                                             '%s.filter(%s)' % (self.use(v), self.cl_filter(v.t)), 'singleton_filter')))
            if v.bound == MONO:
                out.append((1, lambda: self.emit(v.like(bound=UNB), '%s.ignore_monotonic()' % self.use(v), 'ignore_monotonic')))
            if v.bound == BND:
                out.append((3, lambda: self.emit(Var('S', v.loc, t=v.t, bound=BND, order=TOTAL, retry=EXACT, deps=v.deps, adeps=v.adeps),
                                                 '%s.into_stream()' % self.use(v), 'singleton_into_stream')))
            if v.in_tick():
                out.append((3, lambda: self.emit(Var('Sg', (v.loc[0], None), t=v.t, bound=UNB, deps=v.deps, adeps=v.adeps),
                                                 '%s.latest()' % self.use(v), 'singleton_latest')))
                out.append((2, lambda: self.emit(Var('S', (v.loc[0], None), t=v.t, bound=UNB, order=TOTAL, retry=EXACT, deps=v.deps, adeps=v.adeps),
                                                 '%s.all_ticks()' % self.use(v), 'singleton_all_ticks')))
            elif tickmode:
                out.append((4, lambda: self.op_snapshot(v)))
                if v.bound == BND:
                    out.append((2, lambda: self.op_clone_into_tick(v)))
        elif v.kind == 'Op':
            out.append((3, lambda: self.op_op_map(v)))
            out.append((1, lambda: self.emit(v.like(), '%s.filter(%s)' % (self.use(v), self.cl_filter(v.t)), 'optional_filter')))
            out.append((2, lambda: self.emit(Var('Sg', v.loc, t=v.t, bound=v.bound, deps=v.deps, adeps=v.adeps),
                                             '%s.unwrap_or_default()' % self.use(v), 'unwrap_or_default')))
            if depth(v.t) < 3:
                out.append((2, lambda: self.emit(Var('Sg', v.loc, t=('opt', v.t), bound=v.bound, deps=v.deps, adeps=v.adeps),
                                                 '%s.into_singleton()' % self.use(v), 'optional_into_singleton')))
            out.append((1, lambda: self.emit(Var('Sg', v.loc, t=BOOL, bound=v.bound, deps=v.deps, adeps=v.adeps),
                                             '%s.%s()' % (self.use(v), rng.choose(['is_some', 'is_none'])), 'is_some_none')))
            if v.bound == BND:
                out.append((2, lambda: self.emit(Var('S', v.loc, t=v.t, bound=BND, order=TOTAL, retry=EXACT, deps=v.deps, adeps=v.adeps),
                                                 '%s.into_stream()' % self.use(v), 'optional_into_stream')))
            if v.in_tick():
                out.append((2, lambda: self.emit(Var('Op', (v.loc[0], None), t=v.t, bound=UNB, deps=v.deps, adeps=v.adeps),
                                                 '%s.latest()' % self.use(v), 'optional_latest')))
                out.append((2, lambda: self.emit(Var('S', (v.loc[0], None), t=v.t, bound=UNB, order=TOTAL, retry=EXACT, deps=v.deps, adeps=v.adeps),
                                                 '%s.all_ticks()' % self.use(v), 'optional_all_ticks')))
                out.append((1, lambda: self.op_defer(v)))
            elif tickmode:
                out.append((3, lambda: self.op_snapshot(v)))
        elif v.kind == 'KSg':
            kb = KB[v.bound]
            out.append((2, lambda: self.op_ksg_map(v)))
            if not (v.bound in ('Unbounded', 'MonotonicValue') and not v.in_tick()) or rng.chance(1, 6):
                out.append((2, lambda: self.emit(Var('Sg', v.loc, t=USZ, bound=kb['under'], deps=v.deps, adeps=v.adeps),
                                                 '%s.key_count()' % self.use(v), 'key_count')))
            if kb['value'] == BND:
                which = rng.choose(['entries', 'keys', 'values'])
                t = {'entries': T2(v.k, v.v), 'keys': v.k, 'values': v.v}[which]
                out.append((4, lambda: self.emit(Var('S', v.loc, t=t, bound=kb['under'], order=NOORD, retry=EXACT, deps=v.deps, adeps=v.adeps),
                                                 '%s.%s()' % (self.use(v), which), 'keyed_singleton_' + which)))
                out.append((1, lambda: self.emit(v.like(), '%s.filter(%s)' % (self.use(v), self.cl_filter(v.v)), 'keyed_singleton_filter')))
                out.append((1, lambda: self.emit(Var('Op', v.loc, t=T2(v.k, v.v), bound=kb['under'], deps=v.deps, adeps=v.adeps),
                                                 '%s.get_max_key()' % self.use(v), 'get_max_key')))
                out.append((2, lambda: self.emit(
                    Var('KS', v.loc, k=v.k, v=v.v, bound=kb['under'], order=TOTAL, retry=EXACT, deps=v.deps, adeps=v.adeps),
                    '%s.into_keyed_stream()' % self.use(v), 'keyed_singleton_into_keyed_stream')))
            out.append((1, lambda: self.op_ksg_map_with_key(v)))
            if v.in_tick():
                out.append((1, lambda: self.op_defer(v)))
            elif tickmode and kb['value'] == UNB:
                out.append((4, lambda: self.op_snapshot(v)))
            elif tickmode and kb['value'] == BND:
                out.append((3, lambda: self.op_ksg_batch(v)))
        return out

    def binary_cands(self):
        rng = self.rng
        out = []
        S = [v for v in self.pool if v.kind == 'S']
        for a in S:
            for b in S:
                if a is b or a.loc != b.loc:
                    continue
                if a.t == b.t and a.bound == UNB and b.bound == UNB:
                    out.append((4, lambda a=a, b=b: self.op2(
                        a, b, a.like(order=NOORD, retry=min_retry(a.retry, b.retry)), 'merge_unordered')))
                if a.t == b.t and a.bound == BND:
                    out.append((4, lambda a=a, b=b: self.op2(
                        a, b, a.like(bound=b.bound, order=min_order(a.order, b.order), retry=min_retry(a.retry, b.retry)), 'chain')))
                if depth(a.t) < 2 and depth(b.t) < 2 and not (a.bound == BND and b.bound == UNB and rng.chance(3, 4)):
                    out.append((1, lambda a=a, b=b: self.op2(
                        a, b, a.like(t=T2(a.t, b.t), order=(a.order if b.bound == BND else NOORD),
                                     retry=min_retry(a.retry, b.retry)), 'cross_product')))
                ta, tb = a.t, b.t
                if (not isinstance(ta, str) and ta[0] == 't' and not isinstance(tb, str) and tb[0] == 't'
                        and ta[1] == tb[1] and depth(ta) < 3 and depth(tb) < 3):
                    out.append(((1 if (a.bound == BND and b.bound == UNB) else 6), lambda a=a, b=b: self.op2(
                        a, b, a.like(t=T2(a.t[1], T2(a.t[2], b.t[2])), order=(a.order if b.bound == BND else NOORD),
                                     retry=min_retry(a.retry, b.retry)), 'join')))
                if not isinstance(ta, str) and ta[0] == 't' and tb == ta[1] and b.bound == BND:
                    out.append((5, lambda a=a, b=b: self.op2(a, b, a.like(), 'anti_join')))
                if a.t == b.t and b.bound == BND and a.retry == b.retry and (a.bound == BND or rng.chance(1, 6)):
                    out.append((3, lambda a=a, b=b: self.op2(a, b, a.like(), 'filter_not_in')))
        if self.mode == 'tick':
            for a in S:
                for b in S:
                    if (a is not b and a.loc == b.loc and a.t == b.t and a.bound == b.bound
                            and a.order == TOTAL and b.order == TOTAL):
                        out.append((2, lambda a=a, b=b: self.op_merge_ordered(a, b)))
        K = [v for v in self.pool if v.kind == 'KS']
        for a in K:
            for b in K:
                if a is b or a.loc != b.loc or a.k != b.k:
                    continue
                if a.v == b.v and a.bound == UNB and b.bound == UNB:
                    out.append((3, lambda a=a, b=b: self.op2(
                        a, b, a.like(order=NOORD, retry=min_retry(a.retry, b.retry)), 'merge_unordered', 'keyed_merge_unordered')))
                if depth(a.v) < 2 and depth(b.v) < 2:
                    out.append(((1 if (a.bound == BND and b.bound == UNB) else 4), lambda a=a, b=b: self.op2(
                        a, b, a.like(v=T2(a.v, b.v), order=NOORD, retry=min_retry(a.retry, b.retry)),
                        'join_keyed_stream', 'join_keyed_stream')))
        X = [v for v in self.pool if v.kind in ('Sg', 'Op') and v.bound == BND]
        for a in K:
            for b in X:
                if a.loc == b.loc and depth(a.v) < 2 and depth(b.t) < 2:
                    out.append((3, lambda a=a, b=b: self.op2(a, b, a.like(v=T2(a.v, b.t)), 'cross_singleton', 'keyed_cross_singleton')))
        for a in S:
            for b in X:
                if a.loc == b.loc and depth(a.t) < 2 and depth(b.t) < 2:
                    out.append((5, lambda a=a, b=b: self.op2(a, b, a.like(t=T2(a.t, b.t)), 'cross_singleton')))
        for a in X:
            for b in X:
                if a is b or a.loc != b.loc or depth(a.t) >= 2 or depth(b.t) >= 2:
                    continue
                kind = 'Sg' if a.kind == 'Sg' and b.kind == 'Sg' else 'Op'
                if a.kind == 'Sg' or b.kind == 'Op' or True:
                    out.append((4, lambda a=a, b=b, kind=kind: self.op2(
                        a, b, Var(kind, a.loc, t=T2(a.t, b.t), bound=BND), 'zip')))
        O = [v for v in self.pool if v.kind == 'Op']
        for a in O:
            for b in O:
                if a is not b and a.loc == b.loc and a.t == b.t and a.bound == b.bound:
                    out.append((3, lambda a=a, b=b: self.op2(a, b, a.like(), 'or')))
            for b in self.pool:
                if b.kind == 'Sg' and a.loc == b.loc and a.t == b.t and a.bound == b.bound:
                    out.append((3, lambda a=a, b=b: self.op2(a, b, b.like(), 'unwrap_or')))
        # cap the number of binary candidates so that they do not swamp the unary ones
        if len(out) > 12:
            rng2 = self.rng
            sel = []
            for _ in range(12):
                sel.append(out[rng2.below(len(out))])
            out = sel
        return out

    def source_cands(self):
        rng = self.rng
        out = []
        procs = list(range(self.nprocs))
        p = rng.choose(procs)
        out.append((2, lambda: self.src_iter((p, None))))
        out.append((2, lambda: self.src_singleton((p, None))))
        if self.mode == 'tick' and self.ticks:
            tk = rng.choose(sorted(self.ticks))
            out.append((1, lambda: self.src_iter((self.ticks[tk], tk))))
            out.append((1, lambda: self.src_singleton((self.ticks[tk], tk))))
            out.append((6, lambda: self.op_tick_cycle(tk)))
            out.append((1, lambda: self.emit(Var('Op', (self.ticks[tk], tk), t=I64, bound=BND),
                                             '%s.optional_first_tick(q!(%di64))' % (tk, rng.below(7)), 'optional_first_tick')))
        if len(self.inputs) < 3:
            out.append((2, lambda: self.add_input(p, rng.choose([I64, PAIR]))))
        out.append((2, lambda: self.op_forward_ref(p)))
        return out

    # ---- individual ops
    def op2(self, a, b, res, name, opname=None):
        if name in ('join', 'cross_product', 'join_keyed_stream'):
            opname = name + {(UNB, UNB): '', (BND, BND): '_bounded_both', (UNB, BND): '_bounded_right',
                             (BND, UNB): '_bounded_left_unbounded_right'}[(a.bound, b.bound)]
        res.deps = a.deps | b.deps
        res.adeps = a.adeps | b.adeps
        ea = self.use(a)
        if b not in self.pool:   # a and b are distinct objects, but keep it safe
            return
        eb = self.use(b)
        self.emit(res, '%s.%s(%s)' % (ea, name, eb), opname or name)

    def op_merge_ordered(self, a, b):
        res = a.like(retry=min_retry(a.retry, b.retry), deps=a.deps | b.deps, adeps=a.adeps | b.adeps)
        self.safe = False
        ea = self.use(a)
        eb = self.use(b)
        self.emit(res, '%s.merge_ordered(%s, nondet!(/** generated */))' % (ea, eb), 'merge_ordered')

    def op_partition(self, v):
        e = '%s.partition(%s)' % (self.use(v), self.cl_filter(v.t))
        a, b = v.like(), v.like()
        a.name, b.name = self.fresh(), self.fresh()
        self.note_inp(a, e, 'partition')
        self.note_inp(b, e, 'partition')
        self.lines.append('let (%s, %s): (%s, %s) = %s;' % (a.name, b.name, a.type_str(), b.type_str(), e))
        self.pool += [a, b]
        self.ops.append('partition')
        if self.rng.chance(5, 6):
            # (a side that is dropped unused makes generate_embedded fail -- kept rare, see final report)
            for side in (a, b):
                self.pool.remove(side)
                self.emit(side.like(), '%s.filter(%s)' % (side.name, self.cl_filter(side.t)), 'filter')

    def op_filter_if(self, v, sig):
        which = self.rng.choose(['filter_if_some', 'filter_if_none'])
        res = v.like(deps=v.deps | sig.deps, adeps=v.adeps | sig.adeps)
        ev = self.use(v)
        es = self.use(sig)
        self.emit(res, '%s.%s(%s)' % (ev, which, es), which)

    def op_ks_scan(self, v):
        x = to_i64(v.v, 'x', self.rng)
        f = 'q!(|acc: &mut i64, x: %s| { *acc = acc.wrapping_mul(3i64).wrapping_add(%s) %% 100003i64; Some(*acc) })' % (ty(v.v), x)
        self.emit(v.like(v=I64, order=TOTAL, retry=EXACT), '%s.scan(q!(|| 0i64), %s)' % (self.use(v), f), 'keyed_scan')

    def op_ks_map_with_key(self, v):
        kv = T2(v.k, v.v)
        self.emit(v.like(v=I64), '%s.map_with_key(q!(|x: %s| %s))' % (self.use(v), ty(kv), to_i64(kv, 'x', self.rng)),
                  'keyed_map_with_key')

    def op_ksg_map_with_key(self, v):
        kv = T2(v.k, v.v)
        self.emit(v.like(v=I64, bound=KB[v.bound]['erase']),
                  '%s.map_with_key(q!(|x: %s| %s))' % (self.use(v), ty(kv), to_i64(kv, 'x', self.rng)),
                  'keyed_singleton_map_with_key')

    def op_ksg_batch(self, v):
        tk = self.tick_of(v.loc[0])
        self.safe = False
        self.emit(v.like(loc=(v.loc[0], tk), bound='Bounded'), '%s.batch(&%s, nondet!(/** generated */))' % (self.use(v), tk),
                  'keyed_singleton_batch')

    def op_clone_into_tick(self, v):
        tk = self.tick_of(v.loc[0])
        self.emit(v.like(loc=(v.loc[0], tk)), '%s.clone_into_tick(&%s)' % (self.use(v), tk), 'clone_into_tick')

    def op_map(self, v):
        t2 = self.new_elem(v.t)
        if t2 is None:
            if depth(v.t) < 2:
                t2 = T2(v.t, I64)
                e = 'q!(|x: %s| (x.clone(), %s))' % (ty(v.t), to_i64(v.t, 'x', self.rng))
                return self.emit(v.like(t=t2), '%s.map(%s)' % (self.use(v), e), 'map')
            t2 = I64
        self.emit(v.like(t=t2), '%s.map(%s)' % (self.use(v), self.cl_map(v.t, t2)), 'map')

    def op_filter_map(self, v):
        t2 = self.rng.choose([I64, PAIR])
        self.emit(v.like(t=t2), '%s.filter_map(%s)' % (self.use(v), self.cl_filter_map(v.t, t2)), 'filter_map')

    def op_flat_map(self, v):
        if self.rng.chance(2, 3):
            self.emit(v.like(t=I64), '%s.flat_map_ordered(%s)' % (self.use(v), self.cl_flat_map(v.t)), 'flat_map_ordered')
        else:
            self.emit(v.like(t=I64, order=NOORD), '%s.flat_map_unordered(%s)' % (self.use(v), self.cl_flat_map(v.t)),
                      'flat_map_unordered')

    def op_scan(self, v):
        x = to_i64(v.t, 'x', self.rng)
        f = 'q!(|acc: &mut i64, x: %s| { *acc = acc.wrapping_mul(3i64).wrapping_add(%s) %% 100003i64; Some(*acc) })' % (ty(v.t), x)
        self.emit(v.like(t=I64, order=TOTAL, retry=EXACT), '%s.scan(q!(|| 0i64), %s)' % (self.use(v), f), 'scan')

    def op_fold(self, v):
        init, comb, acc, name = self.agg(v.t, v.order, v.retry)
        self.emit(Var('Sg', v.loc, t=acc, bound=v.bound, deps=v.deps, adeps=v.adeps), '%s.fold(%s, %s)' % (self.use(v), init, comb), name)

    def op_reduce(self, v):
        comb, name = self.red(v.t, v.order, v.retry)
        self.emit(Var('Op', v.loc, t=v.t, bound=v.bound, deps=v.deps, adeps=v.adeps), '%s.reduce(%s)' % (self.use(v), comb), name)

    def op_ks_map(self, v):
        t2 = self.rng.choose([I64, PAIR])
        self.emit(v.like(v=t2), '%s.map(%s)' % (self.use(v), self.cl_map(v.v, t2)), 'keyed_map')

    def op_ks_fold(self, v):
        init, comb, acc, name = self.agg(v.v, v.order, v.retry)
        b = 'MonotonicKeys' if v.bound == UNB else 'Bounded'
        self.emit(Var('KSg', v.loc, k=v.k, v=acc, bound=b, deps=v.deps, adeps=v.adeps),
                  '%s.fold(%s, %s)' % (self.use(v), init, comb), 'keyed_' + name)

    def op_ks_reduce(self, v):
        comb, name = self.red(v.v, v.order, v.retry)
        self.emit(Var('KSg', v.loc, k=v.k, v=v.v, bound=v.bound, deps=v.deps, adeps=v.adeps),
                  '%s.reduce(%s)' % (self.use(v), comb), 'keyed_' + name)

    def op_sg_map(self, v):
        t2 = self.rng.choose([I64, PAIR])
        self.emit(Var('Sg', v.loc, t=t2, bound=under(v.bound), deps=v.deps, adeps=v.adeps),
                  '%s.map(%s)' % (self.use(v), self.cl_map(v.t, t2)), 'singleton_map')

    def op_op_map(self, v):
        t2 = self.rng.choose([I64, PAIR])
        self.emit(v.like(t=t2), '%s.map(%s)' % (self.use(v), self.cl_map(v.t, t2)), 'optional_map')

    def op_ksg_map(self, v):
        t2 = self.rng.choose([I64, PAIR])
        self.emit(v.like(v=t2, bound=KB[v.bound]['erase']), '%s.map(%s)' % (self.use(v), self.cl_map(v.v, t2)),
                  'keyed_singleton_map')

    def op_batch(self, v):
        tk = self.tick_of(v.loc[0])
        self.safe = False
        self.emit(v.like(loc=(v.loc[0], tk), bound=BND), '%s.batch(&%s, nondet!(/** generated */))' % (self.use(v), tk),
                  'batch' if v.kind == 'S' else 'keyed_batch')

    def op_snapshot(self, v):
        tk = self.tick_of(v.loc[0])
        self.safe = False
        self.emit(v.like(loc=(v.loc[0], tk), bound=BND), '%s.snapshot(&%s, nondet!(/** generated */))' % (self.use(v), tk),
                  {'Sg': 'singleton_snapshot', 'Op': 'optional_snapshot', 'KSg': 'keyed_singleton_snapshot'}[v.kind])

    def op_defer(self, v):
        self.max_defer += 1
        self.emit(v.like(deps=frozenset()), '%s.defer_tick()' % self.use(v), 'defer_tick')

    def op_send(self, v):
        created = False
        if self.nprocs < 3 and (self.nprocs == 1 or self.rng.chance(1, 4)):
            self.nprocs += 1
            created = True
        dst = self.rng.choose([p for p in range(self.nprocs) if p != v.loc[0]])
        if created:
            # a process that is declared but never receives anything gets no generated function at all
            dst = self.nprocs - 1
        ch = 'ch%d' % len(self.channels)
        self.channels.append((ch, v.loc[0], dst))
        if self.rng.chance(3, 4):
            via, order = 'TCP.fail_stop().bincode().name("%s")' % ch, v.order
        else:
            via, order = 'TCP.lossy_delayed_forever().bincode().name("%s")' % ch, NOORD
        self.emit(v.like(loc=(dst, None), bound=UNB, order=order, deps=frozenset()),
                  '%s.send(p%d, %s)' % (self.use(v), dst, via), 'send_bincode')

    def op_tick_cycle(self, tk):
        proc = self.ticks[tk]
        cid = self.ncycles
        self.ncycles += 1
        kind = self.rng.choose(['S', 'S', 'Op', 'Sg'])
        if kind == 'Sg':
            v = Var('Sg', (proc, tk), t=I64, bound=BND)
            v.name = self.fresh()
            h = 'h%d' % cid
            self.lines.append('let (%s, %s) = %s.cycle_with_initial::<%s, _>(%s.singleton(q!(%di64)));' % (
                h, v.name, tk, v.type_str(), tk, self.rng.below(5)))
            self.hist[v.name] = {'@%d' % cid, 'tick_cycle_with_initial'}
            self.pool.append(v)
            self.ops.append('tick_cycle_with_initial')
            self.open_cycles.append(dict(kind='tick', handle=h, tmpl=v.like(), id=cid))
            return
        if kind == 'S':
            v = Var('S', (proc, tk), t=self.rng.choose([I64, PAIR]), bound=BND, order=self.rng.choose([TOTAL, NOORD]), retry=EXACT)
        else:
            v = Var('Op', (proc, tk), t=self.rng.choose([I64, PAIR]), bound=BND)
        v.name = self.fresh()
        h = 'h%d' % cid
        self.lines.append('let (%s, %s) = %s.cycle::<%s, _>();' % (h, v.name, tk, v.type_str()))
        self.hist[v.name] = {'@%d' % cid, 'tick_cycle'}
        self.pool.append(v)
        self.ops.append('tick_cycle')
        self.open_cycles.append(dict(kind='tick', handle=h, tmpl=v.like(), id=cid))

    def op_forward_ref(self, proc):
        cid = self.ncycles
        self.ncycles += 1
        v = Var('S', (proc, None), t=self.rng.choose([I64, PAIR]), bound=UNB, order=NOORD, retry=EXACT, deps=frozenset([cid]))
        v.name = self.fresh()
        h = 'h%d' % cid
        self.lines.append('let (%s, %s) = p%d.forward_ref::<%s>();' % (h, v.name, proc, v.type_str()))
        self.hist[v.name] = {'@%d' % cid, 'forward_ref'}
        self.pool.append(v)
        self.ops.append('forward_ref')
        self.open_cycles.append(dict(kind='fwd', handle=h, tmpl=v.like(deps=frozenset()), id=cid))

    # ---- closing cycles
    def close_cycles(self):
        for c in self.open_cycles:
            tm = c['tmpl']
            if c['kind'] == 'tick':
                if tm.kind == 'S':
                    src = self.pick(lambda v: v.kind == 'S' and v.loc == tm.loc and v.bound == BND)
                    if src is None:
                        src = self.src_iter(tm.loc)
                    e = self.use(src)
                    cur = src.like()
                    if cur.t != tm.t:
                        e = '%s.map(%s)' % (e, self.cl_map(cur.t, tm.t))
                    if cur.retry != EXACT:
                        e += '.unique()'
                    if tm.order == TOTAL and cur.order != TOTAL:
                        e += '.sort()'
                    elif tm.order == NOORD and cur.order == TOTAL:
                        e += '.weaken_ordering::<NoOrder>()'
                    # keep the loop from growing without bound at run time
                    e += '.filter(%s)' % self.cl_filter(tm.t)
                elif tm.kind == 'Sg':
                    src = self.pick(lambda v: v.kind == 'Sg' and v.loc == tm.loc and v.bound == BND)
                    if src is None:
                        s2 = self.pick(lambda v: v.kind == 'S' and v.loc == tm.loc and v.bound == BND)
                        if s2 is None:
                            s2 = self.src_iter(tm.loc)
                        init, comb, acc, _ = self.agg(s2.t, s2.order, s2.retry)
                        e = '%s.fold(%s, %s)' % (self.use(s2), init, comb)
                        cur_t = acc
                    else:
                        e = self.use(src)
                        cur_t = src.t
                    if cur_t != tm.t:
                        e = '%s.map(%s)' % (e, self.cl_map(cur_t, tm.t))
                else:
                    src = self.pick(lambda v: v.kind == 'Op' and v.loc == tm.loc and v.bound == BND)
                    if src is None:
                        s2 = self.pick(lambda v: v.kind == 'S' and v.loc == tm.loc and v.bound == BND)
                        if s2 is None:
                            s2 = self.src_iter(tm.loc)
                        e = '%s.max()' % self.use(s2)
                        cur_t = s2.t
                    else:
                        e = self.use(src)
                        cur_t = src.t
                    if cur_t != tm.t:
                        e = '%s.map(%s)' % (e, self.cl_map(cur_t, tm.t))
                self.cycle_hist[c['id']] = self.expr_hist(e) | {'tick_cycle', 'complete_next_tick'}
                self.lines.append('%s.complete_next_tick(%s);' % (c['handle'], e))
                self.ops.append('complete_next_tick')
                self.has_loop = True
                self.max_defer += 1
            else:
                # forward reference: the completing collection must not depend synchronously on it,
                # directly or through forward references that were completed earlier
                src = self.pick(lambda v: v.kind == 'S' and v.loc == tm.loc and c['id'] not in self.sync_closure(v.deps))
                if src is None:
                    src = self.src_iter(tm.loc)
                uses_self = c['id'] in src.adeps
                e = self.use(src)
                cur = src.like()
                if cur.t != tm.t:
                    e = '%s.map(%s)' % (e, self.cl_map(cur.t, tm.t))
                if tm.t == I64:
                    e += '.map(q!(|x: i64| x.rem_euclid(37i64)))'
                else:
                    e += '.map(q!(|x: (i64, i64)| (x.0.rem_euclid(3i64), x.1.rem_euclid(13i64))))'
                # finite value domain + top-level unique() => any run-time loop through this
                # reference carries finitely many items
                e += '.unique()'
                if cur.bound == BND:
                    e += '.weaken_boundedness::<Unbounded>()'
                if cur.order == TOTAL:
                    e += '.weaken_ordering::<NoOrder>()'
                self.fwd_sync[c['id']] = self.sync_closure(src.deps)
                self.cycle_hist[c['id']] = self.expr_hist(e) | {'forward_ref', 'forward_ref_complete', 'unique', 'map'}
                self.lines.append('%s.complete(%s);' % (c['handle'], e))
                self.ops.append('forward_ref_complete')
                if uses_self:
                    self.has_loop = True
        self.open_cycles = []

    def sync_closure(self, deps):
        out, todo = set(), list(deps)
        while todo:
            d = todo.pop()
            if d not in out:
                out.add(d)
                todo += list(self.fwd_sync.get(d, ()))
        return out

    def expr_hist(self, expr):
        h = set()
        for n in re.findall(r'\b(?:v|in)\d+\b', expr):
            h |= self.hist.get(n, set())
        return h

    def slice_of(self, v):
        """operators in the backward slice of v, following completed cycles / forward references"""
        h = set(self.hist.get(v.name, set()))
        todo = list(self.cyc_of.get(v.name, set()))
        # every var derived from a cycle source carries the cycle id in hist as '@<id>'
        seen = set()
        changed = True
        while changed:
            changed = False
            for tag in [x for x in h if x.startswith('@')]:
                cid = int(tag[1:])
                if cid not in seen:
                    seen.add(cid)
                    h |= self.cycle_hist.get(cid, set())
                    changed = True
        return sorted(x for x in h if not x.startswith('@'))

    # ---- finishing
    def finish(self):
        rng = self.rng
        self.close_cycles()
        # bring a few tick-level leftovers to the top level
        for v in list(self.pool):
            if v.in_tick() and rng.chance(2, 3):
                if v.kind == 'S':
                    self.emit(v.like(loc=(v.loc[0], None), bound=UNB), '%s.all_ticks()' % self.use_move(v), 'all_ticks')
                elif v.kind == 'KS':
                    self.emit(v.like(loc=(v.loc[0], None), bound=UNB), '%s.all_ticks()' % self.use_move(v), 'keyed_all_ticks')
                elif v.kind in ('Sg', 'Op'):
                    self.emit(Var(v.kind, (v.loc[0], None), t=v.t, bound=UNB, deps=v.deps, adeps=v.adeps), '%s.latest()' % self.use_move(v),
                              'singleton_latest' if v.kind == 'Sg' else 'optional_latest')
        tops = [v for v in self.pool if not v.in_tick() and not v.name.startswith('in')]
        rng_order = list(tops)
        # prefer the most recently created collections (they carry the longest pipelines)
        rng_order.sort(key=lambda v: (not v.inp, -int(v.name[1:])))
        nout = min(len(rng_order), 1 + rng.below(3))
        outs = rng_order[:nout]
        self.outputs = outs
        return outs

    def use_move(self, v):
        self.pool.remove(v)
        return v.name


def gen_program(idx, seed):
    rng = Rng((seed * 1000003 + idx * 7919 + GEN_VERSION) & MASK)
    mode = 'safe' if rng.chance(1, 2) else 'tick'
    max_ops = 5 + rng.below(10)
    for attempt in range(50):
        p = Prog(idx, rng, mode, max_ops)
        p.add_input(0, rng.choose([I64, PAIR]))
        if rng.chance(1, 2):
            p.add_input(0, rng.choose([I64, PAIR]))
        steps = 0
        while steps < max_ops * 3 and len([o for o in p.ops if o != 'tee']) < max_ops:
            p.step()
            steps += 1
        outs = p.finish()
        if outs and len(set(p.ops)) >= 3 and any(v.inp for v in outs):
            return p
    raise RuntimeError('could not generate program %d' % idx)


# --------------------------------------------------------------------------------------------------
# rendering

def obs_fn(v):
    if v.kind == 'KSg':
        return 'obs_keyed_singleton_entries' if KB[v.bound]['value'] == BND else 'obs_keyed_singleton_snapshot'
    return {'S': 'obs_stream', 'KS': 'obs_keyed_stream', 'Sg': 'obs_singleton', 'Op': 'obs_optional'}[v.kind]


def observe_mode(v):
    """how the harness canonicalises what the observer delivers (the demand C28 makes for this type)"""
    if v.kind in ('S', 'KS'):
        if v.retry == ATLEAST:
            return 'set'
        if v.order == NOORD:
            return 'multiset'
        return 'sequence' if v.kind == 'S' else 'per_key_sequence'
    if v.kind == 'KSg' and KB[v.bound]['value'] == BND:
        return 'multiset'      # entries of a keyed singleton whose values never change: each entry once
    return 'last'



def render_flow(p):
    name = 'flow_%d' % p.idx
    params = ["p%d: &Process<'a, P%d>" % (i, i) for i in range(p.nprocs)]
    for (n, proc, t) in p.inputs:
        params.append("%s: Stream<%s, Process<'a, P%d>, Unbounded, TotalOrder, ExactlyOnce>" % (n, ty(t), proc))
    rets = ', '.join(v.type_str() for v in p.outputs)
    body = '\n'.join('    ' + l for l in p.lines)
    retv = ', '.join(v.name for v in p.outputs)
    return ("#[allow(unused_variables, clippy::all)]\npub fn %s<'a>(\n    %s,\n) -> (%s,) {\n%s\n    (%s,)\n}\n"
            % (name, ',\n    '.join(params), rets, body, retv))


def render_build(p):
    """one block of hv_gen_emb/gen_build.rs: builds the flow with the production code generator; the
    driver shim travels along as a string and is only written out if code generation succeeded."""
    name = 'flow_%d' % p.idx
    l = []
    l.append('run_flow(st, "%s", r####"%s"####, |stage| {' % (name, render_driver(p)))
    l.append('    let mut flow = hydro_lang::compile::builder::FlowBuilder::new();')
    for i in range(p.nprocs):
        l.append('    let p%d = flow.process::<hv_gen_flows::P%d>();' % (i, i))
    args = ['&p%d' % i for i in range(p.nprocs)]
    for (n, proc, t) in p.inputs:
        args.append('p%d.embedded_input("%s")' % (proc, n))
    outs = ', '.join('o%d' % i for i in range(len(p.outputs)))
    l.append('    let (%s,) = hv_gen_flows::generated::%s(%s);' % (outs, name, ', '.join(args)))
    for i, v in enumerate(p.outputs):
        l.append('    hv_gen_flows::%s(o%d).embedded_output("out%d");' % (obs_fn(v), i, i))
    l.append('    stage.set(1);')
    w = ''.join('.with_process(&p%d, "p%d")' % (i, i) for i in range(p.nprocs))
    l.append('    flow%s.generate_embedded("hv_gen_flows")' % w)
    l.append('});')
    return '\n'.join(l) + '\n'


def render_driver(p):
    """A shim that instantiates the generated Dfir(s) of one program and runs a tick plan."""
    name = 'flow_%d' % p.idx
    l = []
    l.append('pub fn run_%s(plan: &Plan) -> RunOut {' % name)
    for (n, proc, t) in p.inputs:
        l.append('    let %s: Feed<%s> = Feed::new();' % (n, ty(t)))
    for (ch, a, b) in p.channels:
        l.append('    let %s: Feed<Result<BytesMut, std::io::Error>> = Feed::new();' % ch)
    nout = len(p.outputs)
    l.append('    let outs: Vec<RefCell<Vec<(usize, String)>>> = (0..%d).map(|_| RefCell::new(vec![])).collect();' % nout)
    l.append('    let tick = Cell::new(0usize);')
    l.append('    let sent = Cell::new(0usize);')
    l.append('    let mut hung = false;')
    l.append('    {')
    for i in range(p.nprocs):
        my_outs = [(j, v) for j, v in enumerate(p.outputs) if v.loc[0] == i]
        my_inputs = sorted(n for (n, proc, t) in p.inputs if proc == i)
        net_out = sorted(ch for (ch, a, b) in p.channels if a == i)
        net_in = sorted(ch for (ch, a, b) in p.channels if b == i)
        args = ['%s.clone()' % n for n in my_inputs]
        if my_outs:
            fields = ', '.join('out%d: |s: String| outs[%d].borrow_mut().push((tick.get(), s))' % (j, j) for j, v in my_outs)
            l.append('        let mut o_p%d = emb::%s::p%d::EmbeddedOutputs { %s };' % (i, name, i, fields))
            args.append('&mut o_p%d' % i)
        if net_in:
            fields = ', '.join('%s: %s.clone()' % (ch, ch) for ch in net_in)
            l.append('        let ni_p%d = emb::%s::p%d::EmbeddedNetworkIn { %s };' % (i, name, i, fields))
            args.append('ni_p%d' % i)
        if net_out:
            fields = ', '.join('%s: |b: Bytes| { sent.set(sent.get() + 1); %s.push_all([Ok(BytesMut::from(&b[..]))]); }' % (ch, ch)
                               for ch in net_out)
            l.append('        let mut no_p%d = emb::%s::p%d::EmbeddedNetworkOut { %s };' % (i, name, i, fields))
            args.append('&mut no_p%d' % i)
        l.append('        let mut f_p%d = emb::%s::p%d(%s);' % (i, name, i, ', '.join(args)))
    l.append('        let mut idle = 0usize;')
    l.append('        loop {')
    l.append('            let t = tick.get();')
    l.append('            if t < plan.ticks {')
    for k, (n, proc, t) in enumerate(p.inputs):
        if t == I64:
            l.append('                %s.push_all(plan.items(%d, t).iter().map(|x| x.1));' % (n, k))
        else:
            l.append('                %s.push_all(plan.items(%d, t).iter().copied());' % (n, k))
    l.append('            }')
    l.append('            let sent_before = sent.get();')
    for i in range(p.nprocs):
        l.append('            f_p%d.run_tick_sync();' % i)
    pend = ' + '.join(['%s.pending_len()' % ch for (ch, a, b) in p.channels] or ['0'])
    l.append('            tick.set(t + 1);')
    l.append('            if t + 1 >= plan.ticks {')
    l.append('                if sent.get() == sent_before && (%s) == 0 { idle += 1; } else { idle = 0; }' % pend)
    l.append('                if idle >= plan.extra { break; }')
    l.append('                if t + 1 >= plan.ticks + plan.cap { hung = true; break; }')
    l.append('            }')
    l.append('        }')
    l.append('    }')
    l.append('    RunOut { outs: outs.into_iter().map(|c| c.into_inner()).collect(), ticks_run: tick.get(), hung }')
    l.append('}')
    return '\n'.join(l) + '\n'


def describe(p):
    flow_text = render_flow(p)
    norm = flow_text.replace('flow_%d' % p.idx, 'flow_X')
    return {
        'name': 'flow_%d' % p.idx,
        'idx': p.idx,
        'mode': p.mode,
        'safe': p.safe,
        'ops': p.ops,
        'distinct_ops': sorted(set(p.ops)),
        'nprocs': p.nprocs,
        'ticks': len(p.ticks),
        'channels': [list(c) for c in p.channels],
        'has_loop': p.has_loop,
        'max_defer': p.max_defer,
        'inputs': [{'name': n, 'proc': proc, 'elem': ty(t)} for (n, proc, t) in p.inputs],
        'outputs': [{'name': 'out%d' % i, 'proc': v.loc[0], 'kind': v.kind, 'type': v.type_str(),
                     'order': v.order if v.kind in ('S', 'KS') else None,
                     'retry': v.retry if v.kind in ('S', 'KS') else None,
                     'observe': observe_mode(v), 'slice_ops': p.slice_of(v)}
                    for i, v in enumerate(p.outputs)],
        'text_hash': hashlib.sha1(norm.encode()).hexdigest()[:16],
        'flow_text': flow_text,
        'build_text': render_build(p),
    }


FLOW_HEADER = """// @generated by hv_gen_flows/gen/gen.py -- do not edit (seed={seed} n={n} version={ver})
#![allow(unused_imports, unused_variables, clippy::all)]
use hydro_lang::live_collections::keyed_singleton::{{BoundedValue, MonotonicKeys, MonotonicValue}};
use hydro_lang::live_collections::singleton::Monotonic;
use hydro_lang::live_collections::stream::{{AtLeastOnce, ExactlyOnce, NoOrder, TotalOrder}};
use hydro_lang::prelude::*;

use crate::{{P0, P1, P2}};

"""


# --------------------------------------------------------------------------------------------------
# fixed hand-written corpus: minimal well-typed programs for defects the random programs ran into; they
# are part of every run so that these defects are reported (or matched as known findings) deterministically.

def _probe(idx, label, inputs, lines, outs, ops):
    p = Prog(idx, Rng(idx), 'safe', 0)
    for t in inputs:
        p.add_input(0, t)
    p.lines = list(lines)
    p.ops = list(ops)
    p.outputs = []
    for (name, var) in outs:
        var.name = name
        var.inp = True
        p.hist[name] = set(ops)
        p.outputs.append(var)
    d = describe(p)
    d['probe'] = label
    return d


def probe_descs():
    S = lambda t, b=UNB, o=TOTAL, r=EXACT: Var('S', (0, None), t=t, bound=b, order=o, retry=r)
    SG = lambda t, b=UNB: Var('Sg', (0, None), t=t, bound=b)
    KSG = lambda b: Var('KSg', (0, None), k=I64, v=I64, bound=b)
    red = 'q!(|a: &mut i64, x: i64| { *a = a.wrapping_add(x); })'
    return [
        _probe(9000, 'partition-one-side-dropped', [I64],
               ['let (a, _b) = in0.partition(q!(|x: &i64| *x > 0i64));'], [('a', S(I64))], ['partition', 'probe', 'corpus']),
        _probe(9001, 'keyed-reduce-on-top-level-bounded', [I64],
               ['let k = p0.source_iter(q!(vec![(1i64, 2i64), (1i64, 3i64)])).into_keyed().reduce(%s);' % red,
                'let o = in0.map(q!(|x: i64| x));'], [('o', S(I64)), ('k', KSG('Bounded'))],
               ['keyed_reduce_sum', 'source_iter', 'into_keyed', 'map']),
        _probe(9002, 'keyed-fold-on-top-level-bounded', [I64],
               ['let k = p0.source_iter(q!(vec![(1i64, 2i64), (1i64, 3i64)])).into_keyed().fold(q!(|| 0i64), %s);' % red,
                'let o = in0.map(q!(|x: i64| x));'], [('o', S(I64)), ('k', KSG('Bounded'))],
               ['keyed_fold_sum', 'source_iter', 'into_keyed', 'map']),
        _probe(9003, 'key_count-on-unbounded-keyed-singleton', [PAIR],
               ['let c = in0.into_keyed().reduce(q!(|a: &mut i64, x: i64| { *a = x; })).key_count();'],
               [('c', SG(USZ))], ['keyed_reduce_last', 'key_count', 'into_keyed']),
        _probe(9004, 'key_count-on-monotonic-value-keyed-singleton', [PAIR],
               ['let c = in0.into_keyed().value_counts().key_count();'],
               [('c', SG(USZ))], ['value_counts', 'key_count', 'into_keyed']),
        _probe(9005, 'into_singleton-on-monotonic-value-keyed-singleton', [PAIR],
               ['let c = in0.into_keyed().value_counts().into_singleton().map(q!(|m: std::collections::HashMap<i64, usize>| m.len()));'],
               [('c', SG(USZ))], ['value_counts', 'keyed_singleton_into_singleton', 'into_keyed', 'singleton_map']),
        _probe(9006, 'filter_not_in-unbounded-with-bounded', [I64],
               ['let o = in0.filter_not_in(p0.source_iter(q!(vec![1i64, 3i64])));'], [('o', S(I64))],
               ['filter_not_in', 'source_iter', 'probe']),
        _probe(9008, 'top-level-singleton-zip-optional', [I64],
               ['let z = p0.singleton(q!(1i64)).zip(p0.singleton(q!(2i64)).filter(q!(|x: &i64| *x > 0i64)));',
                'let o = in0.map(q!(|x: i64| x));'],
               [('o', S(I64)), ('z', Var('Op', (0, None), t=PAIR, bound=BND))],
               ['zip', 'singleton_source', 'singleton_filter', 'map']),
        _probe(9007, 'cross_product-bounded-left-unbounded-right-typed-bounded', [I64, I64],
               ["let fake: Stream<(i64, i64), Process<'a, P0>, Bounded, NoOrder, ExactlyOnce> = "
                "p0.source_iter(q!(vec![0i64])).cross_product(in1);",
                'let o = in0.cross_product(fake);'], [('o', S(T2(I64, PAIR)))],
               ['cross_product_bounded_left_unbounded_right', 'cross_product_bounded_right', 'source_iter']),
    ]


def generate(seed, n, probes=True):
    """n random programs + (in the first batch) the fixed corpus"""
    out = [describe(gen_program(i, seed)) for i in range(n)]
    for d in out:
        d['probe'] = None
    return (probe_descs() + out) if probes else out


def render_files(descs, seed, n):
    """descs: program descriptions (possibly a subset). Returns (generated.rs text, gen_build.rs text,
    gen_desc.json text, linemap) where linemap = [(first line, last line, name)] into generated.rs."""
    flows = FLOW_HEADER.format(seed=seed, n=n, ver=GEN_VERSION)
    linemap = []
    build = '// @generated by hv_gen_flows/gen/gen.py -- do not edit\n#[allow(unused_variables)]\nfn gen_blocks(st: &mut St) {\n'
    for d in descs:
        start = flows.count('\n') + 1
        flows += d['flow_text'] + '\n'
        linemap.append((start, flows.count('\n'), d['name']))
        build += d['build_text']
    build += '}\n'
    slim = [{k: v for k, v in d.items() if k not in ('flow_text', 'build_text')} for d in descs]
    for d in slim:
        d['gen'] = {'seed': seed, 'n': n, 'version': GEN_VERSION}
    return flows, build, json.dumps(slim, indent=1) + '\n', linemap


if __name__ == '__main__':
    seed = int(sys.argv[1]) if len(sys.argv) > 1 else 1
    n = int(sys.argv[2]) if len(sys.argv) > 2 else 5
    descs = generate(seed, n)
    flows, build, desc, _ = render_files(descs, seed, n)
    what = sys.argv[3] if len(sys.argv) > 3 else 'flows'
    print({'flows': flows, 'build': build, 'desc': desc}[what])
