//! Runs the production code generator (`generate_embedded`) for every flow of `hv_det_flows` and writes one
//! module per flow to $OUT_DIR/<name>.rs plus $OUT_DIR/all.rs declaring them. Inputs are named `a`, `b`
//! (sorted = positional), the single output is named `out`.
use hydro_lang::location::Location;

fn main() {
    println!("cargo::rerun-if-changed=build.rs");
    let out_dir = std::env::var("OUT_DIR").unwrap();
    let mut mods: Vec<String> = vec![];
    let mut failed: Vec<String> = vec![];
    let mut emit = |name: &str, code: std::thread::Result<syn::File>| match code {
        Ok(code) => {
            std::fs::write(format!("{out_dir}/{name}.rs"), prettyplease::unparse(&code)).unwrap();
            mods.push(name.to_string());
        }
        Err(_) => failed.push(name.to_string()),
    };

    macro_rules! g1 {
        ($($name:ident),* $(,)?) => {$(
            emit(stringify!($name), std::panic::catch_unwind(|| {
                let mut flow = hydro_lang::compile::builder::FlowBuilder::new();
                let process = flow.process::<()>();
                hv_det_flows::$name(process.embedded_input("a")).embedded_output("out");
                flow.with_process(&process, stringify!($name)).generate_embedded("hv_det_flows")
            }));
        )*};
    }
    macro_rules! g2 {
        ($($name:ident),* $(,)?) => {$(
            emit(stringify!($name), std::panic::catch_unwind(|| {
                let mut flow = hydro_lang::compile::builder::FlowBuilder::new();
                let process = flow.process::<()>();
                hv_det_flows::$name(process.embedded_input("a"), process.embedded_input("b"))
                    .embedded_output("out");
                flow.with_process(&process, stringify!($name)).generate_embedded("hv_det_flows")
            }));
        )*};
    }

    g1!(
        f_map, f_filter, f_flat_map, f_filter_map, f_inspect, f_enumerate, f_scan, f_limit, f_unique,
        f_chain_src, f_cross_singleton, f_bounded_count_cross, f_filter_not_in, f_bounded_fold_chain, f_bounded_reduce_chain, f_flat_unordered,
        f_tee_merge, f_partition_merge, f_fold, f_fold_comm, f_reduce, f_reduce_comm, f_count, f_max,
        f_min, f_first, f_last, f_collect_vec, f_sg_map, f_sg_filter, f_opt_unwrap_or, f_opt_map_or,
        f_threshold, f_join_half, f_anti_join, f_k_fold, f_k_reduce, f_k_entries_map, f_k_map_with_key,
        f_k_filter, f_k_flat_map, f_k_values, f_k_keys, f_k_first, f_k_value_counts, f_k_enumerate,
        f_k_scan, f_k_limit, f_k_fold_early_stop, f_k_get, f_k_unique, f_k_filter_key_not_in,
        f_ks_get_max_key, f_ks_key_count, f_ks_into_singleton, f_ks_unb_into_singleton,
        f_ks_unb_key_count, f_ks_map, f_ks_first_map_entries,
        w_max, w_min, w_first, w_last, w_count, w_value_counts, w_weaken_ordering, w_weaken_retries,
        w_k_weaken, w_make_noop, w_k_make_noop, w_ks_unb_into_singleton, w_ks_unb_key_count,
        t_max, t_min, t_first, t_last, t_count, t_is_empty, t_value_counts, t_into_singleton,
        t_get_max_key, t_key_count,
        m_count, m_fold_monotone, m_bounded_count, m_k_value_counts, m_k_fold_monotone, m_k_fold_keys,
        m_k_reduce_keys, m_k_first_map, m_k_first_entries, m_k_early_stop_map, m_ks_map_keys,
    );
    // one input, two outputs: `out` (judged) and `echo` (the unrelated unbounded input)
    macro_rules! g1e {
        ($($name:ident),* $(,)?) => {$(
            emit(stringify!($name), std::panic::catch_unwind(|| {
                let mut flow = hydro_lang::compile::builder::FlowBuilder::new();
                let process = flow.process::<()>();
                let (out, echo) = hv_det_flows::$name(process.embedded_input("a"));
                out.embedded_output("out");
                echo.embedded_output("echo");
                flow.with_process(&process, stringify!($name)).generate_embedded("hv_det_flows")
            }));
        )*};
    }
    g1!(e_ks_join_unb, e_bl_ur_join, e_bl_ur_cross, e_ul_br_cross);
    g1e!(e_bb_nested, e_bb_cross, e_bb_join, e_bb_repeat, e_bb_ks_join);
    g2!(f_merge, f_cross_product, f_join, f_join_count, f_kjoin, t_repeat_with_keys);

    assert!(failed.is_empty(), "code generation panicked for flows: {failed:?}");
    let mut all = String::new();
    for m in &mods {
        all.push_str(&format!(
            "#[allow(unused_imports, unused_qualifications, missing_docs, non_snake_case, unused_variables, unused_mut, dead_code)]\npub mod {m} {{ include!(concat!(env!(\"OUT_DIR\"), \"/{m}.rs\")); }}\n"
        ));
    }
    all.push_str(&format!("pub const N_FLOWS: usize = {};\n", mods.len()));
    std::fs::write(format!("{out_dir}/all.rs"), all).unwrap();
}
