//! The flow table: for every generated flow its runner (tick-partition driver), the kind of
//! observable, a plain-Rust reference of the final observable, and which properties use it how.
use std::cell::RefCell;
use std::collections::BTreeMap;

use hv_common::Feed;

use crate::canon::*;
use crate::emb;

pub type RunFn = fn(&Ticks) -> Frames;
/// Top-level flows: `reference(inputs)` = the final observable for the whole (flattened) input.
/// Tick-scoped flows (`Out::Frames`): `reference(chunks of one tick)` = that tick's frame observable.
pub type RefFn = fn(&[Vec<Item>]) -> V;

#[derive(Clone, Copy, Default, Debug)]
pub struct Weak {
    /// input typed `NoOrder`: every permutation is admissible
    pub perm: bool,
    /// input typed `AtLeastOnce`: adjacent duplication is admissible
    pub dup: bool,
    /// keyed, ordered within a key: every interleaving of different keys is admissible
    pub interleave: bool,
}

#[derive(Clone, Copy, PartialEq, Eq, Debug)]
pub enum Promise {
    None,
    /// `Singleton<_, _, Monotonic>`: samples never decrease
    MonoSingle,
    /// sample is `(monotone, bounded)`: second component never changes, first never decreases
    MonoAndConst,
    /// `MonotonicValue`: keys never disappear, values never decrease
    MapMonoValue,
    /// `MonotonicKeys` / `Unbounded` keyed singleton: keys never disappear
    MapKeys,
    /// `BoundedValue` (sampled as a map): keys never disappear, values never change
    MapBounded,
    /// `BoundedValue` observed through `entries()`: every key is emitted exactly once
    EntriesOnce,
}

pub struct Flow {
    pub name: &'static str,
    pub n_in: usize,
    /// input i carries meaningful keys
    pub pair: [bool; 2],
    pub out: Out,
    pub run: RunFn,
    pub reference: RefFn,
    pub c28: bool,
    pub c29: bool,
    /// C29: per-key results depend only on that key's subsequence (interleave + delete checks)
    pub key_local: bool,
    pub c32: bool,
    pub weak: [Weak; 2],
    /// C32: whole sample history must be invariant under permutations that keep chunk sizes
    pub hist_invariant: bool,
    pub promise: Promise,
}

impl Flow {
    fn c28(mut self) -> Self {
        self.c28 = true;
        self
    }
    fn c29(mut self) -> Self {
        self.c29 = true;
        self
    }
    fn key_local(mut self) -> Self {
        self.key_local = true;
        self
    }
    fn weak0(mut self, perm: bool, dup: bool, interleave: bool) -> Self {
        self.c32 = true;
        self.weak[0] = Weak { perm, dup, interleave };
        self
    }
    fn hist(mut self) -> Self {
        self.hist_invariant = true;
        self
    }
    fn promise(mut self, p: Promise) -> Self {
        self.promise = p;
        self
    }
    pub fn tick_scoped(&self) -> bool {
        matches!(self.out, Out::Frames(_))
    }
}

macro_rules! runner {
    ($name:ident; $($inp:ident : $idx:expr),+) => {{
        fn run(ticks: &crate::canon::Ticks) -> crate::canon::Frames {
            $(let $inp = Feed::new();)+
            let buf: RefCell<Vec<V>> = RefCell::new(vec![]);
            let mut frames = Vec::with_capacity(ticks.len());
            {
                let mut outputs = emb::$name::$name::EmbeddedOutputs {
                    out: |x| buf.borrow_mut().push(Canon::canon(&x)),
                };
                let mut flow = emb::$name::$name($($inp.clone(),)+ &mut outputs);
                for t in ticks {
                    $($inp.push_all(t[$idx].iter().map(|&i| FromItem::from_item(i)));)+
                    flow.run_tick_sync();
                    frames.push(std::mem::take(&mut *buf.borrow_mut()));
                }
            }
            frames
        }
        run as RunFn
    }};
}

macro_rules! runner_echo {
    ($name:ident) => {{
        fn run(ticks: &crate::canon::Ticks) -> crate::canon::Frames {
            let a = Feed::new();
            let buf: RefCell<Vec<V>> = RefCell::new(vec![]);
            let echoed: RefCell<Vec<i64>> = RefCell::new(vec![]);
            let mut frames = Vec::with_capacity(ticks.len());
            {
                let mut outputs = emb::$name::$name::EmbeddedOutputs {
                    out: |x| buf.borrow_mut().push(Canon::canon(&x)),
                    echo: |x: i64| echoed.borrow_mut().push(x),
                };
                let mut flow = emb::$name::$name(a.clone(), &mut outputs);
                for t in ticks {
                    a.push_all(t[0].iter().map(|&i| FromItem::from_item(i)));
                    flow.run_tick_sync();
                    frames.push(std::mem::take(&mut *buf.borrow_mut()));
                }
            }
            // the echo must be exactly the unrelated input (sanity of the harness wiring)
            let fed: Vec<i64> = ticks.iter().flat_map(|t| t[0].iter().map(|i| i.1)).collect();
            assert_eq!(*echoed.borrow(), fed, "echo output differs from the input");
            frames
        }
        run as RunFn
    }};
}

macro_rules! f1e {
    ($name:ident, $out:expr, $reference:expr) => {
        Flow {
            name: stringify!($name),
            n_in: 1,
            pair: [false, false],
            out: $out,
            run: runner_echo!($name),
            reference: $reference,
            c28: false,
            c29: false,
            key_local: false,
            c32: false,
            weak: [Weak::default(); 2],
            hist_invariant: false,
            promise: Promise::None,
        }
    };
}

macro_rules! f1 {
    ($name:ident, $pair:expr, $out:expr, $reference:expr) => {
        Flow {
            name: stringify!($name),
            n_in: 1,
            pair: [$pair, false],
            out: $out,
            run: runner!($name; a: 0),
            reference: $reference,
            c28: false,
            c29: false,
            key_local: false,
            c32: false,
            weak: [Weak::default(); 2],
            hist_invariant: false,
            promise: Promise::None,
        }
    };
}
macro_rules! f2 {
    ($name:ident, $pa:expr, $pb:expr, $out:expr, $reference:expr) => {
        Flow {
            name: stringify!($name),
            n_in: 2,
            pair: [$pa, $pb],
            out: $out,
            run: runner!($name; a: 0, b: 1),
            reference: $reference,
            c28: false,
            c29: false,
            key_local: false,
            c32: false,
            weak: [Weak::default(); 2],
            hist_invariant: false,
            promise: Promise::None,
        }
    };
}

// reference helpers ----------------------------------------------------------------------------

fn xs(ins: &[Vec<Item>]) -> Vec<i64> {
    ins[0].iter().map(|i| i.1).collect()
}
fn ys(ins: &[Vec<Item>]) -> Vec<i64> {
    ins[1].iter().map(|i| i.1).collect()
}
fn fold31(vs: impl IntoIterator<Item = i64>) -> i64 {
    vs.into_iter().fold(1i64, |acc, x| (acc * 31 + x) % 1_000_003)
}
fn reduce7(vs: &[i64]) -> Option<i64> {
    let mut it = vs.iter().copied();
    let first = it.next()?;
    Some(it.fold(first, |acc, x| (acc * 7 + x) % 1_000_003))
}
fn group(items: &[Item]) -> BTreeMap<i64, Vec<i64>> {
    let mut m: BTreeMap<i64, Vec<i64>> = BTreeMap::new();
    for &(k, v) in items {
        m.entry(k).or_default().push(v);
    }
    m
}
fn per_key(items: &[Item], f: impl Fn(i64, &[i64]) -> Option<V>) -> V {
    let mut m = BTreeMap::new();
    for (k, vs) in group(items) {
        if let Some(v) = f(k, &vs) {
            m.insert(k, v);
        }
    }
    map(m)
}
fn per_key_seq(items: &[Item], f: impl Fn(i64, &[i64]) -> Vec<V>) -> V {
    let mut out = vec![];
    for (k, vs) in group(items) {
        let r = f(k, &vs);
        if !r.is_empty() {
            out.push(V::L(vec![V::I(k), V::L(r)]));
        }
    }
    V::L(out)
}
fn scan3(vs: &[i64]) -> Vec<i64> {
    let mut acc = 0i64;
    vs.iter()
        .map(|x| {
            acc = acc * 3 + x;
            acc
        })
        .collect()
}
fn early_stop(vs: &[i64]) -> Option<i64> {
    let mut acc = 0i64;
    for &x in vs {
        acc = acc * 3 + x;
        if x % 2 == 0 {
            return Some(acc);
        }
    }
    None
}
fn uniq<T: Clone + PartialEq>(v: &[T]) -> Vec<T> {
    let mut out: Vec<T> = vec![];
    for x in v {
        if !out.contains(x) {
            out.push(x.clone());
        }
    }
    out
}
fn join_bag(a: &[Item], b: &[Item]) -> Vec<V> {
    let mut out = vec![];
    for &(ka, va) in a {
        for &(kb, vb) in b {
            if ka == kb {
                out.push(V::L(vec![V::I(ka), vp(va, vb)]));
            }
        }
    }
    out
}
const BUILD: [(i64, i64); 3] = [(0, 70), (1, 71), (1, 72)];

pub fn table() -> Vec<Flow> {
    use Out::*;
    let mut t: Vec<Flow> = vec![
        // ---- stateless / ordered ------------------------------------------------------------
        f1!(f_map, false, Seq, |i| seq(xs(i).into_iter().map(|x| x * 3 + 1))).c28().c29(),
        f1!(f_filter, false, Seq, |i| seq(xs(i).into_iter().filter(|x| x % 2 == 0))).c28().c29(),
        f1!(f_flat_map, false, Seq, |i| seq(xs(i).into_iter().flat_map(|x| [x, x + 10]))).c28().c29(),
        f1!(f_filter_map, false, Seq, |i| seq(xs(i).into_iter().filter(|x| *x > 1).map(|x| x * 2)))
            .c28()
            .c29(),
        f1!(f_inspect, false, Seq, |i| seq(xs(i).into_iter().map(|x| x - 1))).c28().c29(),
        f1!(f_enumerate, false, Seq, |i| vl(xs(i)
            .into_iter()
            .enumerate()
            .map(|(n, x)| vp(n as i64, x))
            .collect()))
        .c28()
        .c29(),
        f1!(f_scan, false, Seq, |i| seq(scan3(&xs(i)))).c28().c29(),
        f1!(f_limit, false, Seq, |i| seq(xs(i).into_iter().take(3))).c28().c29(),
        f1!(f_unique, false, Seq, |i| seq(uniq(&xs(i)))).c28().c29(),
        f1!(f_chain_src, false, Seq, |i| seq([100, 101].into_iter().chain(xs(i)))).c28().c29(),
        f1!(f_cross_singleton, false, Seq, |i| vl(xs(i).into_iter().map(|x| vp(x, 7)).collect()))
            .c28()
            .c29(),
        f1!(f_bounded_count_cross, false, Seq, |i| vl(xs(i).into_iter().map(|x| vp(x, 3)).collect()))
            .c28()
            .c29(),
        f1!(f_filter_not_in, false, Seq, |i| seq(xs(i).into_iter().filter(|x| *x != 1 && *x != 3)))
            .c28()
            .c29(),
        f1!(f_bounded_fold_chain, false, Seq, |i| seq([3].into_iter().chain(xs(i)))).c28().c29(),
        f1!(f_bounded_reduce_chain, false, Seq, |i| seq([18].into_iter().chain(xs(i)))).c28().c29(),
        f1!(f_flat_unordered, false, Bag, |i| bag(xs(i).into_iter().flat_map(|x| [vi(x), vi(-x)]).collect()))
            .c28(),
        f1!(f_tee_merge, false, Bag, |i| bag(xs(i).into_iter().flat_map(|x| [vi(x + 100), vi(x)]).collect()))
            .c28(),
        f1!(f_partition_merge, false, Bag, |i| bag(xs(i)
            .into_iter()
            .map(|x| if x % 2 == 0 { vi(x * 10) } else { vi(x) })
            .collect()))
        .c28(),
        // ---- aggregates ---------------------------------------------------------------------
        f1!(f_fold, false, Last, |i| vi(fold31(xs(i)))).c28(),
        f1!(f_fold_comm, false, Last, |i| vi(xs(i).iter().sum())).c28(),
        f1!(f_reduce, false, Last, |i| opt(reduce7(&xs(i)).map(vi))).c28(),
        f1!(f_reduce_comm, false, Last, |i| opt(if xs(i).is_empty() { None } else { Some(vi(xs(i).iter().sum())) }))
            .c28(),
        f1!(f_count, false, Last, |i| vi(xs(i).len() as i64)).c28(),
        f1!(f_max, false, Last, |i| opt(xs(i).into_iter().max().map(vi))).c28(),
        f1!(f_min, false, Last, |i| opt(xs(i).into_iter().min().map(vi))).c28(),
        f1!(f_first, false, Last, |i| opt(xs(i).first().copied().map(vi))).c28(),
        f1!(f_last, false, Last, |i| opt(xs(i).last().copied().map(vi))).c28(),
        f1!(f_collect_vec, false, Last, |i| seq(xs(i))).c28(),
        f1!(f_sg_map, false, Last, |i| vi(xs(i).len() as i64 * 2 + 1)).c28(),
        f1!(f_sg_filter, false, Last, |i| {
            let n = xs(i).len() as i64;
            opt(if n % 2 == 0 { Some(vi(n)) } else { None })
        })
        .c28(),
        f1!(f_opt_unwrap_or, false, Last, |i| vi(xs(i).into_iter().max().unwrap_or(-1))).c28(),
        f1!(f_opt_map_or, false, Last, |i| opt(xs(i).first().map(|x| vi(x + 1000)))).c28(),
        f1!(f_threshold, false, Seq, |i| seq(if xs(i).len() >= 3 { vec![3] } else { vec![] }))
            .c28()
            .c29(),
        // ---- two inputs ---------------------------------------------------------------------
        f2!(f_merge, false, false, Bag, |i| bag(xs(i)
            .into_iter()
            .map(vi)
            .chain(ys(i).into_iter().map(|y| vi(y + 50)))
            .collect()))
        .c28(),
        f2!(f_cross_product, false, false, Bag, |i| {
            let mut out = vec![];
            for x in xs(i) {
                for y in ys(i) {
                    out.push(vp(x, y));
                }
            }
            bag(out)
        })
        .c28(),
        f2!(f_join, true, true, Bag, |i| bag(join_bag(&i[0], &i[1]))).c28(),
        f2!(f_join_count, true, true, Last, |i| vi(join_bag(&i[0], &i[1]).len() as i64)).c28(),
        f2!(f_kjoin, true, true, Bag, |i| bag(join_bag(&i[0], &i[1]))).c28(),
        // ---- pair input, un-keyed -----------------------------------------------------------
        f1!(f_join_half, true, Seq, |i| {
            let mut out = vec![];
            for &(k, v) in &i[0] {
                for &(kb, w) in &BUILD {
                    if k == kb {
                        out.push(V::L(vec![V::I(k), vp(v, w)]));
                    }
                }
            }
            vl(out)
        })
        .c28()
        .c29(),
        f1!(f_anti_join, true, Seq, |i| vl(i[0]
            .iter()
            .filter(|(k, _)| *k != 1 && *k != 5)
            .map(|&(k, v)| vp(k, v))
            .collect()))
        .c28()
        .c29(),
        // ---- joins with bounded operands ------------------------------------------------------
        f1!(e_ks_join_unb, true, Keyed, |i| per_key_seq(&i[0], |k, vs| {
            let ksv = match k {
                0 => 10,
                1 => 20,
                _ => return vec![],
            };
            vs.iter().map(|v| vp(ksv, *v)).collect()
        }))
        .c28()
        .c29()
        .key_local(),
        f1!(e_bl_ur_join, true, Bag, |i| bag(join_bag(&BUILD, &i[0]))).c28(),
        f1!(e_bl_ur_cross, false, Bag, |i| bag(xs(i).into_iter().flat_map(|x| [vp(10, x), vp(20, x)]).collect()))
            .c28(),
        f1!(e_ul_br_cross, false, Seq, |i| vl(xs(i).into_iter().flat_map(|x| [vp(x, 10), vp(x, 20)]).collect()))
            .c28()
            .c29(),
        f1e!(e_bb_nested, Seq, |_| vl([1, 2].into_iter().flat_map(|l| [10, 20, 30].map(|r| vp(l, r))).collect()))
            .c28()
            .c29(),
        f1e!(e_bb_cross, Seq, |_| vl([1, 2].into_iter().flat_map(|l| [10, 20, 30].map(|r| vp(l, r))).collect()))
            .c28()
            .c29(),
        f1e!(e_bb_join, Seq, |_| vl(join_bag(&[(0, 1), (1, 2), (1, 3)], &BUILD))).c28().c29(),
        f1e!(e_bb_repeat, Keyed, |_| keyed([(1, vi(7)), (1, vi(8)), (2, vi(7)), (2, vi(8))])).c28().c29(),
        f1e!(e_bb_ks_join, Keyed, |_| keyed([(1, vp(10, 100)), (2, vp(20, 200)), (1, vp(10, 101))]))
            .c28()
            .c29(),
        // ---- keyed --------------------------------------------------------------------------
        f1!(f_k_fold, true, LastSorted, |i| per_key(&i[0], |_, vs| Some(vi(fold31(vs.iter().copied())))))
            .c28(),
        f1!(f_k_reduce, true, LastSorted, |i| per_key(&i[0], |_, vs| reduce7(vs).map(vi))).c28(),
        f1!(f_k_entries_map, true, Keyed, |i| per_key_seq(&i[0], |_, vs| vs.iter().map(|v| vi(v + 1)).collect()))
            .c28()
            .c29()
            .key_local(),
        f1!(f_k_map_with_key, true, Keyed, |i| per_key_seq(&i[0], |k, vs| vs
            .iter()
            .map(|v| vi(k * 100 + v))
            .collect()))
        .c28()
        .c29()
        .key_local(),
        f1!(f_k_filter, true, Keyed, |i| per_key_seq(&i[0], |_, vs| vs
            .iter()
            .filter(|v| *v % 2 == 1)
            .map(|v| vi(*v))
            .collect()))
        .c28()
        .c29()
        .key_local(),
        f1!(f_k_flat_map, true, Keyed, |i| per_key_seq(&i[0], |_, vs| vs
            .iter()
            .flat_map(|v| [vi(*v), vi(v + 10)])
            .collect()))
        .c28()
        .c29()
        .key_local(),
        f1!(f_k_values, true, Bag, |i| bag(xs(i).into_iter().map(vi).collect())).c28(),
        f1!(f_k_keys, true, Bag, |i| bag(group(&i[0]).keys().map(|k| vi(*k)).collect())).c28(),
        f1!(f_k_first, true, Bag, |i| bag(group(&i[0]).iter().map(|(k, vs)| vp(*k, vs[0])).collect())).c28(),
        f1!(f_k_value_counts, true, LastSorted, |i| per_key(&i[0], |_, vs| Some(vi(vs.len() as i64)))).c28(),
        f1!(f_k_enumerate, true, Keyed, |i| per_key_seq(&i[0], |_, vs| vs
            .iter()
            .enumerate()
            .map(|(n, v)| vp(n as i64, *v))
            .collect()))
        .c28()
        .c29()
        .key_local(),
        f1!(f_k_scan, true, Keyed, |i| per_key_seq(&i[0], |_, vs| scan3(vs).into_iter().map(vi).collect()))
            .c28()
            .c29()
            .key_local(),
        f1!(f_k_limit, true, Keyed, |i| per_key_seq(&i[0], |_, vs| vs.iter().take(2).map(|v| vi(*v)).collect()))
            .c28()
            .c29()
            .key_local(),
        f1!(f_k_fold_early_stop, true, Bag, |i| bag(group(&i[0])
            .iter()
            .filter_map(|(k, vs)| early_stop(vs).map(|a| vp(*k, a)))
            .collect()))
        .c28(),
        f1!(f_k_get, true, Seq, |i| seq(i[0].iter().filter(|(k, _)| *k == 1).map(|(_, v)| *v)))
            .c28()
            .c29()
            .key_local(),
        f1!(f_k_unique, true, Bag, |i| bag(uniq(&i[0]).into_iter().map(|(k, v)| vp(k, v)).collect())).c28(),
        f1!(f_k_filter_key_not_in, true, Keyed, |i| per_key_seq(&i[0], |k, vs| if k == 0 || k == 9 {
            vec![]
        } else {
            vs.iter().map(|v| vi(*v)).collect()
        }))
        .c28()
        .c29()
        .key_local(),
        // ---- keyed-singleton accessors ------------------------------------------------------
        f1!(f_ks_get_max_key, true, Last, |i| opt(group(&i[0]).iter().next_back().map(|(k, vs)| vp(*k, vs[0]))))
            .c28()
            .weak0(false, false, true),
        f1!(f_ks_key_count, true, Last, |i| vi(group(&i[0]).len() as i64)).c28().weak0(false, false, true),
        f1!(f_ks_into_singleton, true, Last, |i| per_key(&i[0], |_, vs| Some(vi(vs[0]))))
            .c28()
            .weak0(false, false, true),
        f1!(f_ks_unb_into_singleton, true, Last, |i| per_key(&i[0], |_, vs| Some(vi(fold31(vs.iter().copied())))))
            .c28()
            .weak0(false, false, true),
        f1!(f_ks_unb_key_count, true, Last, |i| vi(group(&i[0]).len() as i64)).c28().weak0(false, false, true),
        f1!(f_ks_map, true, LastSorted, |i| per_key(&i[0], |_, vs| Some(vi(vs.len() as i64 * 2)))).c28(),
        f1!(f_ks_first_map_entries, true, Bag, |i| bag(group(&i[0])
            .iter()
            .map(|(k, vs)| vp(*k, vs[0] + 5))
            .collect()))
        .c28(),
        // ---- C32, top level -----------------------------------------------------------------
        f1!(w_max, false, Last, |i| opt(xs(i).into_iter().max().map(vi))).c28().weak0(true, true, false),
        f1!(w_min, false, Last, |i| opt(xs(i).into_iter().min().map(vi))).c28().weak0(true, true, false),
        f1!(w_first, false, Last, |i| opt(xs(i).first().copied().map(vi))).c28().weak0(false, true, false),
        f1!(w_last, false, Last, |i| opt(xs(i).last().copied().map(vi))).c28().weak0(false, true, false),
        f1!(w_count, false, Last, |i| vi(xs(i).len() as i64)).c28().weak0(true, false, false).hist(),
        f1!(w_value_counts, true, LastSorted, |i| per_key(&i[0], |_, vs| Some(vi(vs.len() as i64))))
            .c28()
            .weak0(true, false, false),
        f1!(w_weaken_ordering, false, Bag, |i| bag(xs(i).into_iter().map(vi).collect()))
            .c28()
            .weak0(true, false, false),
        // weaken_retries on an exactly-once input: nothing may be lost or invented
        f1!(w_weaken_retries, false, Bag, |i| bag(xs(i).into_iter().map(vi).collect()))
            .c28()
            .weak0(false, false, false),
        f1!(w_k_weaken, true, Bag, |i| bag(i[0].iter().map(|&(k, v)| vp(k, v)).collect()))
            .c28()
            .weak0(true, false, false),
        f1!(w_make_noop, false, Seq, |i| seq(xs(i))).c28().c29(),
        f1!(w_k_make_noop, true, Keyed, |i| per_key_seq(&i[0], |_, vs| vs.iter().map(|v| vi(*v)).collect()))
            .c28()
            .c29()
            .key_local(),
        f1!(w_ks_unb_into_singleton, true, Last, |i| per_key(&i[0], |_, vs| vs.iter().copied().max().map(vi)))
            .c28()
            .weak0(true, true, false),
        f1!(w_ks_unb_key_count, true, Last, |i| vi(group(&i[0]).len() as i64))
            .c28()
            .weak0(true, false, false),
        // ---- C32, tick scoped (reference is per tick) ----------------------------------------
        f1!(t_max, false, Frames(Fk::Seq), |i| seq(xs(i).into_iter().max())).weak0(true, true, false),
        f1!(t_min, false, Frames(Fk::Seq), |i| seq(xs(i).into_iter().min())).weak0(true, true, false),
        f1!(t_first, false, Frames(Fk::Seq), |i| seq(xs(i).first().copied())).weak0(false, true, false),
        f1!(t_last, false, Frames(Fk::Seq), |i| seq(xs(i).last().copied())).weak0(false, true, false),
        f1!(t_count, false, Frames(Fk::Seq), |i| seq([xs(i).len() as i64])).weak0(true, false, false),
        f1!(t_is_empty, false, Frames(Fk::Seq), |i| seq([xs(i).is_empty() as i64])).weak0(true, true, false),
        f1!(t_value_counts, true, Frames(Fk::SortInner), |i| vl(vec![per_key(&i[0], |_, vs| Some(vi(
            vs.len() as i64
        )))]))
        .weak0(true, false, false),
        f1!(t_into_singleton, true, Frames(Fk::Seq), |i| vl(vec![per_key(&i[0], |_, vs| Some(vi(vs
            .iter()
            .sum())))]))
        .weak0(true, false, false),
        f1!(t_get_max_key, true, Frames(Fk::Seq), |i| vl(group(&i[0])
            .iter()
            .next_back()
            .map(|(k, vs)| vp(*k, vs.iter().sum()))
            .into_iter()
            .collect()))
        .weak0(true, false, false),
        f1!(t_key_count, true, Frames(Fk::Seq), |i| seq([group(&i[0]).len() as i64])).weak0(true, false, false),
        f2!(t_repeat_with_keys, true, false, Frames(Fk::Keyed), |i| {
            let vals = ys(i);
            per_key_seq(&i[0], |_, _| vals.iter().map(|v| vi(*v)).collect())
        })
        .weak0(true, false, false),
        // ---- C33 ----------------------------------------------------------------------------
        f1!(m_count, false, Last, |i| vi(xs(i).len() as i64)).c28().promise(Promise::MonoSingle),
        f1!(m_fold_monotone, false, Last, |i| vi(xs(i).into_iter().max().unwrap_or(i64::MIN)))
            .c28()
            .promise(Promise::MonoSingle),
        f1!(m_bounded_count, false, Last, |i| vp(xs(i).len() as i64, 3)).c28().promise(Promise::MonoAndConst),
        f1!(m_k_value_counts, true, LastSorted, |i| per_key(&i[0], |_, vs| Some(vi(vs.len() as i64))))
            .c28()
            .promise(Promise::MapMonoValue),
        f1!(m_k_fold_monotone, true, LastSorted, |i| per_key(&i[0], |_, vs| vs.iter().copied().max().map(vi)))
            .c28()
            .promise(Promise::MapMonoValue),
        f1!(m_k_fold_keys, true, LastSorted, |i| per_key(&i[0], |_, vs| Some(vi(vs
            .iter()
            .fold(0i64, |acc, x| x - acc)))))
        .c28()
        .promise(Promise::MapKeys),
        f1!(m_k_reduce_keys, true, LastSorted, |i| per_key(&i[0], |_, vs| {
            let mut it = vs.iter().copied();
            let f = it.next()?;
            Some(vi(it.fold(f, |acc, x| x - acc)))
        }))
        .c28()
        .promise(Promise::MapKeys),
        f1!(m_k_first_map, true, Last, |i| per_key(&i[0], |_, vs| Some(vi(vs[0]))))
            .c28()
            .promise(Promise::MapBounded),
        f1!(m_k_first_entries, true, Bag, |i| bag(group(&i[0]).iter().map(|(k, vs)| vp(*k, vs[0])).collect()))
            .c28()
            .promise(Promise::EntriesOnce),
        f1!(m_k_early_stop_map, true, Last, |i| per_key(&i[0], |_, vs| early_stop(vs).map(vi)))
            .c28()
            .promise(Promise::MapBounded),
        f1!(m_ks_map_keys, true, LastSorted, |i| per_key(&i[0], |_, vs| Some(vi(10 - vs.len() as i64))))
            .c28()
            .promise(Promise::MapKeys),
    ];
    // second input of t_repeat_with_keys is ordered / exactly-once: not weakened
    for f in t.iter_mut() {
        if f.name == "t_repeat_with_keys" {
            f.weak[1] = Weak::default();
        }
    }
    t
}
