//! Embedded-mode driver for C28 / C29 / C32 / C33: runs the `Dfir`s produced by the production code
//! generator tick by tick, feeding the inputs according to a tick partition chosen by the harness,
//! and judges the observables (see `canon.rs`) against metamorphic and reference oracles.
pub mod emb {
    include!(concat!(env!("OUT_DIR"), "/all.rs"));
}
mod canon;
mod flows;

use std::collections::{BTreeMap, HashSet};

use canon::*;
use flows::{Flow, Promise};
use hv_common::permutations;
use vcommon::{Args, Reporter, Rng, Tier, Value, catch, hash_of, json};

/// Empty ticks run after the last chunk so that everything in flight reaches the output
/// (2 + the deepest deferral in the corpus: `threshold_greater_or_equal` state and
/// `into_singleton().latest()` each defer by one tick).
const EXTRA_TICKS: usize = 4;

// ---------------------------------------------------------------------------------------------
// partitions

/// sizes[t][input] = number of items of `input` delivered in tick t.
type Sizes = Vec<Vec<usize>>;

fn count_partitions(lens: &[usize], cap: u64) -> u64 {
    // number of sequences of non-zero vectors summing to `lens` (saturating at cap + 1)
    fn go(rem: &mut Vec<usize>, memo: &mut BTreeMap<Vec<usize>, u64>, cap: u64) -> u64 {
        if rem.iter().all(|&r| r == 0) {
            return 1;
        }
        if let Some(&c) = memo.get(rem) {
            return c;
        }
        let mut total = 0u64;
        let r0 = rem[0];
        let r1 = if rem.len() > 1 { rem[1] } else { 0 };
        for k0 in 0..=r0 {
            for k1 in 0..=r1 {
                if k0 + k1 == 0 {
                    continue;
                }
                rem[0] -= k0;
                if rem.len() > 1 {
                    rem[1] -= k1;
                }
                total = (total + go(rem, memo, cap)).min(cap + 1);
                rem[0] += k0;
                if rem.len() > 1 {
                    rem[1] += k1;
                }
            }
        }
        memo.insert(rem.clone(), total);
        total
    }
    go(&mut lens.to_vec(), &mut BTreeMap::new(), cap)
}

fn all_partitions(lens: &[usize]) -> Vec<Sizes> {
    fn go(rem: &mut Vec<usize>, cur: &mut Sizes, out: &mut Vec<Sizes>) {
        if rem.iter().all(|&r| r == 0) {
            out.push(cur.clone());
            return;
        }
        let r0 = rem[0];
        let r1 = if rem.len() > 1 { rem[1] } else { 0 };
        for k0 in 0..=r0 {
            for k1 in 0..=r1 {
                if k0 + k1 == 0 {
                    continue;
                }
                let step = if rem.len() > 1 { vec![k0, k1] } else { vec![k0] };
                rem[0] -= k0;
                if rem.len() > 1 {
                    rem[1] -= k1;
                }
                cur.push(step);
                go(rem, cur, out);
                cur.pop();
                rem[0] += k0;
                if rem.len() > 1 {
                    rem[1] += k1;
                }
            }
        }
    }
    let mut out = vec![];
    go(&mut lens.to_vec(), &mut vec![], &mut out);
    out
}

/// A random partition: each input is cut independently, then the chunk sequences are merged into
/// ticks (a tick takes the next chunk of a random non-empty subset of the inputs that still have one).
fn random_partition(rng: &mut Rng, lens: &[usize], cut_num: u32, cut_den: u32) -> Sizes {
    let mut chunks: Vec<Vec<usize>> = lens
        .iter()
        .map(|&n| {
            let mut c = vec![];
            let mut cur = 0;
            for i in 0..n {
                cur += 1;
                if i + 1 == n || rng.chance(cut_num, cut_den) {
                    c.push(cur);
                    cur = 0;
                }
            }
            c.reverse(); // pop from the back = next chunk
            c
        })
        .collect();
    let mut out = vec![];
    while chunks.iter().any(|c| !c.is_empty()) {
        let avail: Vec<usize> = (0..lens.len()).filter(|&i| !chunks[i].is_empty()).collect();
        let mut step = vec![0; lens.len()];
        let mut took = false;
        for &i in &avail {
            if rng.chance(1, 2) {
                step[i] = chunks[i].pop().unwrap();
                took = true;
            }
        }
        if !took {
            let i = *rng.choose(&avail);
            step[i] = chunks[i].pop().unwrap();
        }
        out.push(step);
    }
    out
}

/// All partitions if there are at most `cap`, else `cap` random ones plus the two extremes.
fn partitions(rng: &mut Rng, lens: &[usize], cap: usize) -> (Vec<Sizes>, bool) {
    if count_partitions(lens, cap as u64) <= cap as u64 {
        (all_partitions(lens), true)
    } else {
        let mut seen = HashSet::new();
        let mut out = vec![];
        let one: Sizes = vec![lens.to_vec()];
        let mut single: Sizes = vec![];
        for (i, &n) in lens.iter().enumerate() {
            for _ in 0..n {
                let mut s = vec![0; lens.len()];
                s[i] = 1;
                single.push(s);
            }
        }
        for p in [one, single] {
            if seen.insert(p.clone()) {
                out.push(p);
            }
        }
        let mut tries = 0;
        while out.len() < cap && tries < cap * 20 {
            tries += 1;
            let p = random_partition(rng, lens, 1, 2);
            if seen.insert(p.clone()) {
                out.push(p);
            }
        }
        (out, false)
    }
}

fn make_ticks(inputs: &[Vec<Item>], sizes: &Sizes, gaps: &[usize]) -> Ticks {
    let mut at = vec![0usize; inputs.len()];
    let mut ticks: Ticks = vec![];
    for (t, step) in sizes.iter().enumerate() {
        for _ in 0..gaps.get(t).copied().unwrap_or(0) {
            ticks.push(vec![vec![]; inputs.len()]);
        }
        let mut tick = vec![];
        for (i, &k) in step.iter().enumerate() {
            tick.push(inputs[i][at[i]..at[i] + k].to_vec());
            at[i] += k;
        }
        ticks.push(tick);
    }
    for _ in 0..EXTRA_TICKS {
        ticks.push(vec![vec![]; inputs.len()]);
    }
    ticks
}

fn one_tick(inputs: &[Vec<Item>]) -> Ticks {
    make_ticks(inputs, &vec![inputs.iter().map(|i| i.len()).collect()], &[])
}

fn flatten(ticks: &Ticks, n_in: usize) -> Vec<Vec<Item>> {
    let mut ins = vec![vec![]; n_in];
    for t in ticks {
        for (i, c) in t.iter().enumerate() {
            ins[i].extend(c.iter().copied());
        }
    }
    ins
}

fn nonempty_ticks(ticks: &Ticks) -> usize {
    ticks.iter().filter(|t| t.iter().any(|c| !c.is_empty())).count()
}

// ---------------------------------------------------------------------------------------------
// running and judging

struct Run {
    frames: Frames,
    obs: V,
}

fn run_flow(f: &Flow, ticks: &Ticks) -> Result<Run, String> {
    let frames = catch(|| (f.run)(ticks))?;
    let obs = observe(f.out, &frames);
    Ok(Run { frames, obs })
}

/// The reference observable for a whole run.
fn reference(f: &Flow, ticks: &Ticks) -> V {
    if f.tick_scoped() {
        V::L(ticks.iter().map(|t| (f.reference)(t)).collect())
    } else {
        (f.reference)(&flatten(ticks, f.n_in))
    }
}

fn case_json(prop: &str, f: &Flow, check: &str, ticks: &Ticks, base: &Ticks) -> Value {
    json!({
        "engine": "hydro/hv_det_emb", "prop": prop, "flow": f.name, "check": check,
        "ticks": ticks_json(ticks), "base_ticks": ticks_json(base),
        "chunks": ticks.iter().map(|t| t.iter().map(|c| c.len()).collect::<Vec<_>>()).collect::<Vec<_>>(),
    })
}

struct Ctx<'a> {
    rep: &'a mut Reporter,
    prop: &'a str,
    histories: HashSet<u64>,
}

impl Ctx<'_> {
    /// Run `ticks`; a panic is a violation (every flow in the corpus promises an answer).
    fn run(&mut self, f: &Flow, ticks: &Ticks, base: &Ticks) -> Option<Run> {
        self.rep.count(&format!("runs.{}", f.name));
        match run_flow(f, ticks) {
            Ok(r) => {
                self.histories.insert(hash_of(&(f.name, &r.frames)));
                if nonempty_ticks(ticks) >= 2 {
                    self.rep.nontrivial(hash_of(&(f.name, ticks)));
                }
                Some(r)
            }
            Err(msg) => {
                self.rep.eval();
                self.rep.violation(
                    &format!("{}|{}|panic", self.prop, f.name),
                    &format!("flow panicked: {msg}"),
                    case_json(self.prop, f, "panic", ticks, base),
                );
                None
            }
        }
    }

    fn expect_eq(&mut self, f: &Flow, kind: &str, what: &str, got: &V, want: &V, ticks: &Ticks, base: &Ticks) -> bool {
        self.rep.eval();
        if got != want {
            self.rep.violation(
                &format!("{}|{}|{}", self.prop, f.name, kind),
                &format!("{what}: got {} want {}", got.json(), want.json()),
                case_json(self.prop, f, kind, ticks, base),
            );
            false
        } else {
            true
        }
    }

    fn sample(&mut self, f: &Flow, ticks: &Ticks, obs: &V) {
        let name = f.name;
        self.rep.sample(|| json!({"flow": name, "ticks": ticks_json(ticks), "observable": obs.json()}));
    }
}

// ---------------------------------------------------------------------------------------------
// input generation

fn gen_input(rng: &mut Rng, n: usize, pair: bool, keys: i64, vals: i64) -> Vec<Item> {
    (0..n)
        .map(|_| (if pair { rng.range(0, keys - 1) } else { 0 }, rng.range(0, vals - 1)))
        .collect()
}

fn gen_inputs(rng: &mut Rng, f: &Flow, total: usize, keys: i64, vals: i64) -> Vec<Vec<Item>> {
    if f.n_in == 1 {
        vec![gen_input(rng, total, f.pair[0], keys, vals)]
    } else {
        let a = rng.below(total + 1);
        vec![gen_input(rng, a, f.pair[0], keys, vals), gen_input(rng, total - a, f.pair[1], keys, vals)]
    }
}

// ---------------------------------------------------------------------------------------------
// C28

fn c28(args: &Args, rep: &mut Reporter, table: &[Flow]) {
    let rng = args.rng();
    let small_cases = args.budget(500, 5000, 1);
    let large_cases = args.budget(60, 500, 1);
    let large_parts = args.budget(40, 100, 2);
    let mut ctx = Ctx { rep, prop: "C28", histories: HashSet::new() };
    let mut exhaustive_sets = 0u64;
    for f in table.iter().filter(|f| f.c28) {
        let mut frng = rng.fork(hash_of(f.name));
        // small inputs: every partition (capped at 2000 per input case)
        for case in 0..small_cases {
            let total = if case == 0 { 6 } else { 1 + frng.below(6) };
            let inputs = gen_inputs(&mut frng, f, total, 3, 5);
            let base_ticks = one_tick(&inputs);
            let Some(base) = ctx.run(f, &base_ticks, &base_ticks) else { continue };
            let want = reference(f, &base_ticks);
            ctx.expect_eq(f, "reference-mismatch", "one-tick run differs from the plain-Rust reference", &base.obs, &want, &base_ticks, &base_ticks);
            let lens: Vec<usize> = inputs.iter().map(|i| i.len()).collect();
            let (parts, all) = partitions(&mut frng, &lens, 2000);
            if all {
                exhaustive_sets += 1;
            }
            for (pi, sizes) in parts.iter().enumerate() {
                // every 5th partition additionally gets random empty ticks between the chunks
                let gaps: Vec<usize> =
                    if pi % 5 == 4 { sizes.iter().map(|_| frng.below(3)).collect() } else { vec![] };
                let ticks = make_ticks(&inputs, sizes, &gaps);
                ctx.rep.count(&format!("partitions.{}", f.name));
                let Some(r) = ctx.run(f, &ticks, &base_ticks) else { continue };
                ctx.expect_eq(f, "partition-dependent", "final observable differs from the one-tick run", &r.obs, &base.obs, &ticks, &base_ticks);
                if pi == parts.len() / 2 {
                    ctx.sample(f, &ticks, &r.obs);
                }
            }
        }
        // 30-item inputs: random partitions
        for _ in 0..large_cases {
            let inputs: Vec<Vec<Item>> =
                (0..f.n_in).map(|i| gen_input(&mut frng, 30, f.pair[i], 4, 8)).collect();
            let base_ticks = one_tick(&inputs);
            let Some(base) = ctx.run(f, &base_ticks, &base_ticks) else { continue };
            let want = reference(f, &base_ticks);
            ctx.expect_eq(f, "reference-mismatch", "one-tick run differs from the plain-Rust reference", &base.obs, &want, &base_ticks, &base_ticks);
            let lens: Vec<usize> = inputs.iter().map(|i| i.len()).collect();
            for pi in 0..large_parts {
                let sizes = random_partition(&mut frng, &lens, 1, 2 + (pi as u32 % 6));
                let gaps: Vec<usize> = if pi % 3 == 2 { sizes.iter().map(|_| frng.below(2)).collect() } else { vec![] };
                let ticks = make_ticks(&inputs, &sizes, &gaps);
                ctx.rep.count(&format!("partitions.{}", f.name));
                ctx.rep.count("large_input_runs");
                let Some(r) = ctx.run(f, &ticks, &base_ticks) else { continue };
                ctx.expect_eq(f, "partition-dependent", "final observable differs from the one-tick run", &r.obs, &base.obs, &ticks, &base_ticks);
            }
        }
        ctx.rep.count("flows");
    }
    let histories = ctx.histories.len();
    rep.extra("distinct_observable_histories", json!(histories));
    rep.extra("exhaustively_partitioned_input_cases", json!(exhaustive_sets));
    let n_flows = table.iter().filter(|f| f.c28).count() as u64;
    rep.require(rep.counter("flows") == n_flows && n_flows >= 30, "every C28 corpus flow (>= 30) was run");
    for f in table.iter().filter(|f| f.c28) {
        let need = if args.tier == Tier::Miri { 1 } else { 60 };
        rep.require(
            rep.counter(&format!("partitions.{}", f.name)) >= need,
            &format!("flow {} was run under at least {need} partitions", f.name),
        );
    }
    rep.require(histories as u64 >= 4 * n_flows, "partitions produced distinct per-tick histories");
}

// ---------------------------------------------------------------------------------------------
// C29

/// All (or `cap` random) interleavings of the items that keep every key's items in order.
fn interleavings(rng: &mut Rng, items: &[Item], cap: usize) -> (Vec<Vec<Item>>, bool) {
    let mut groups: BTreeMap<i64, Vec<Item>> = BTreeMap::new();
    for &it in items {
        groups.entry(it.0).or_default().push(it);
    }
    let groups: Vec<Vec<Item>> = groups.into_values().collect();
    // multinomial count (saturating)
    let mut count: u64 = 1;
    let mut placed = 0u64;
    for g in &groups {
        for j in 1..=g.len() as u64 {
            placed += 1;
            count = (count * placed / j).min(1_000_000);
        }
    }
    if count as usize <= cap {
        fn go(groups: &[Vec<Item>], at: &mut Vec<usize>, cur: &mut Vec<Item>, n: usize, out: &mut Vec<Vec<Item>>) {
            if cur.len() == n {
                out.push(cur.clone());
                return;
            }
            for g in 0..groups.len() {
                if at[g] < groups[g].len() {
                    cur.push(groups[g][at[g]]);
                    at[g] += 1;
                    go(groups, at, cur, n, out);
                    at[g] -= 1;
                    cur.pop();
                }
            }
        }
        let mut out = vec![];
        go(&groups, &mut vec![0; groups.len()], &mut vec![], items.len(), &mut out);
        (out, true)
    } else {
        let mut seen = HashSet::new();
        let mut out = vec![];
        let mut tries = 0;
        while out.len() < cap && tries < cap * 20 {
            tries += 1;
            let mut at = vec![0; groups.len()];
            let mut cur = vec![];
            while cur.len() < items.len() {
                let avail: Vec<usize> = (0..groups.len()).filter(|&g| at[g] < groups[g].len()).collect();
                let g = *rng.choose(&avail);
                cur.push(groups[g][at[g]]);
                at[g] += 1;
            }
            if seen.insert(cur.clone()) {
                out.push(cur);
            }
        }
        (out, false)
    }
}

/// key -> per-key observable, for `Out::Keyed` observables; for other kinds the whole observable
/// under the pseudo-key of the flow's fixed key of interest.
fn per_key_obs(f: &Flow, obs: &V) -> BTreeMap<i64, V> {
    let mut m = BTreeMap::new();
    if f.out == Out::Keyed {
        for e in obs.list() {
            if let [V::I(k), v] = e.list() {
                m.insert(*k, v.clone());
            }
        }
    }
    m
}

fn c29(args: &Args, rep: &mut Reporter, table: &[Flow]) {
    let rng = args.rng();
    let cases = args.budget(600, 6000, 1);
    let il_cases = args.budget(100, 1000, 1);
    let large_cases = args.budget(60, 500, 1);
    let mut ctx = Ctx { rep, prop: "C29", histories: HashSet::new() };
    for f in table.iter().filter(|f| f.c29) {
        let mut frng = rng.fork(hash_of(f.name) ^ 29);
        // (a) reference equality under every partition
        for case in 0..cases + large_cases {
            let large = case >= cases;
            // anti_join's reference is only pinned down for inputs without duplicate rows
            let distinct = f.name == "f_anti_join";
            let mut inputs = if large {
                (0..f.n_in).map(|i| gen_input(&mut frng, 30, f.pair[i], 4, 8)).collect()
            } else {
                let total = if case == 0 { 6 } else { 1 + frng.below(6) };
                gen_inputs(&mut frng, f, total, 3, 5)
            };
            if distinct {
                for i in inputs.iter_mut() {
                    let mut seen = HashSet::new();
                    i.retain(|it| seen.insert(*it));
                }
            }
            let base_ticks = one_tick(&inputs);
            let want = reference(f, &base_ticks);
            let lens: Vec<usize> = inputs.iter().map(|i| i.len()).collect();
            let parts: Vec<Sizes> = if large {
                (0..args.budget(40, 100, 2)).map(|pi| random_partition(&mut frng, &lens, 1, 2 + (pi as u32 % 6))).collect()
            } else {
                partitions(&mut frng, &lens, 2000).0
            };
            for (pi, sizes) in parts.iter().enumerate() {
                let gaps: Vec<usize> = if pi % 5 == 4 { sizes.iter().map(|_| frng.below(3)).collect() } else { vec![] };
                let ticks = make_ticks(&inputs, sizes, &gaps);
                ctx.rep.count(&format!("partitions.{}", f.name));
                let Some(r) = ctx.run(f, &ticks, &base_ticks) else { continue };
                ctx.expect_eq(f, "order-reference-mismatch", "output sequence differs from the plain-Rust reference", &r.obs, &want, &ticks, &base_ticks);
                if pi == parts.len() / 2 {
                    ctx.sample(f, &ticks, &r.obs);
                }
            }
        }
        // (b) keyed flows: invariance under cross-key interleavings, (c) locality (delete other keys)
        if f.key_local {
            for case in 0..il_cases {
                let n = if case == 0 { 6 } else { 3 + frng.below(4) };
                let inputs = vec![gen_input(&mut frng, n, true, 3, 5)];
                let base_ticks = one_tick(&inputs);
                let Some(base) = ctx.run(f, &base_ticks, &base_ticks) else { continue };
                let (ils, _) = interleavings(&mut frng, &inputs[0], 90);
                for il in &ils {
                    ctx.rep.count("interleavings");
                    let il_inputs = vec![il.clone()];
                    let (parts, _) = partitions(&mut frng, &[il.len()], 32);
                    for sizes in &parts {
                        let ticks = make_ticks(&il_inputs, sizes, &[]);
                        ctx.rep.count(&format!("partitions.{}", f.name));
                        let Some(r) = ctx.run(f, &ticks, &base_ticks) else { continue };
                        ctx.expect_eq(f, "interleaving-dependent", "per-key result changed under a cross-key interleaving", &r.obs, &base.obs, &ticks, &base_ticks);
                    }
                }
                // locality: a key's result is unchanged when every other key is deleted
                let keys: Vec<i64> = uniq_keys(&inputs[0]);
                for &k in &keys {
                    let only: Vec<Vec<Item>> = vec![inputs[0].iter().copied().filter(|it| it.0 == k).collect()];
                    let (parts, _) = partitions(&mut frng, &[only[0].len()], 32);
                    for sizes in &parts {
                        let ticks = make_ticks(&only, sizes, &[]);
                        ctx.rep.count("deletions");
                        let Some(r) = ctx.run(f, &ticks, &base_ticks) else { continue };
                        let (got, want) = if f.out == Out::Keyed {
                            (
                                per_key_obs(f, &r.obs).get(&k).cloned().unwrap_or(V::N),
                                per_key_obs(f, &base.obs).get(&k).cloned().unwrap_or(V::N),
                            )
                        } else if k == 1 {
                            // f_k_get looks up key 1: its whole output is that key's result
                            (r.obs.clone(), base.obs.clone())
                        } else {
                            continue;
                        };
                        ctx.expect_eq(f, "not-key-local", &format!("result of key {k} changed when the other keys were deleted"), &got, &want, &ticks, &base_ticks);
                    }
                }
            }
        }
        ctx.rep.count("flows");
    }
    let histories = ctx.histories.len();
    rep.extra("distinct_observable_histories", json!(histories));
    let n_flows = table.iter().filter(|f| f.c29).count() as u64;
    rep.require(rep.counter("flows") == n_flows && n_flows >= 20, "every ordered/keyed corpus flow (>= 20) was run");
    if args.tier != Tier::Miri {
        rep.require(rep.counter("interleavings") >= 100, "at least 100 cross-key interleavings were run");
        rep.require(rep.counter("deletions") >= 50, "at least 50 key-deletion runs");
    }
}

fn uniq_keys(items: &[Item]) -> Vec<i64> {
    let mut ks: Vec<i64> = items.iter().map(|i| i.0).collect();
    ks.sort();
    ks.dedup();
    ks
}

// ---------------------------------------------------------------------------------------------
// C32

/// Apply an adjacent-duplication mask: item i appears twice iff bit i is set.
fn dup_items(items: &[Item], mask: u32) -> Vec<Item> {
    let mut out = vec![];
    for (i, &it) in items.iter().enumerate() {
        out.push(it);
        if mask >> i & 1 == 1 {
            out.push(it);
        }
    }
    out
}

/// Admissible reorderings of one input under its `Weak` typing.
fn reorderings(rng: &mut Rng, w: flows::Weak, items: &[Item], cap: usize) -> Vec<Vec<Item>> {
    if w.perm {
        let mut seen = HashSet::new();
        let mut out = vec![];
        if items.len() <= 5 {
            for p in permutations(items.len()) {
                let v: Vec<Item> = p.iter().map(|&i| items[i]).collect();
                if seen.insert(v.clone()) {
                    out.push(v);
                }
            }
        } else {
            out.push(items.to_vec());
            for _ in 0..cap {
                let mut v = items.to_vec();
                rng.shuffle(&mut v);
                if seen.insert(v.clone()) {
                    out.push(v);
                }
            }
        }
        if out.len() > cap {
            let first = out.remove(0);
            rng.shuffle(&mut out);
            out.truncate(cap - 1);
            out.insert(0, first);
        }
        out
    } else if w.interleave {
        interleavings(rng, items, cap).0
    } else {
        vec![items.to_vec()]
    }
}

fn c32(args: &Args, rep: &mut Reporter, table: &[Flow]) {
    let rng = args.rng();
    let cases = args.budget(200, 2000, 1);
    let part_cap = args.budget(16, 64, 2);
    let mut ctx = Ctx { rep, prop: "C32", histories: HashSet::new() };
    for f in table.iter().filter(|f| f.c32) {
        let mut frng = rng.fork(hash_of(f.name) ^ 32);
        let w = f.weak[0];
        for case in 0..cases {
            // sizes: permutations up to 5 items; with duplication too, up to 4
            let n = if w.perm && w.dup {
                if case == 0 { 4 } else { 1 + frng.below(4) }
            } else if w.interleave {
                if case == 0 { 6 } else { 2 + frng.below(5) }
            } else if case == 0 {
                5
            } else {
                1 + frng.below(5)
            };
            let mut inputs = vec![gen_input(&mut frng, n, f.pair[0], 3, 5)];
            if f.pair[0] && case % 2 == 1 {
                // scattered key domain: hash-iteration order of the keys is no longer their numeric order
                const SCATTER: [i64; 3] = [1_000_003, -7, 40];
                for it in inputs[0].iter_mut() {
                    it.0 = SCATTER[it.0 as usize];
                }
            }
            if f.n_in == 2 {
                let nb = 1 + frng.below(3);
                inputs.push(gen_input(&mut frng, nb, f.pair[1], 3, 5));
            }
            if f.tick_scoped() {
                c32_tick_scoped(&mut ctx, &mut frng, f, &inputs, part_cap);
            } else {
                c32_top_level(&mut ctx, &mut frng, f, &inputs, part_cap);
            }
        }
        ctx.rep.count("flows");
    }
    let histories = ctx.histories.len();
    rep.extra("distinct_observable_histories", json!(histories));
    let n_flows = table.iter().filter(|f| f.c32).count() as u64;
    rep.require(rep.counter("flows") == n_flows && n_flows >= 25, "every trusted-assumption corpus flow (>= 25) was run");
    if args.tier != Tier::Miri {
        rep.require(rep.counter("permutations") >= 2000, "at least 2000 permuted input orders were run");
        rep.require(rep.counter("duplications") >= 500, "at least 500 duplication patterns were run");
        rep.require(rep.counter("interleavings") >= 100, "at least 100 key interleavings were run");
    }
}

fn c32_top_level(ctx: &mut Ctx, rng: &mut Rng, f: &Flow, inputs: &[Vec<Item>], part_cap: usize) {
    let w = f.weak[0];
    let base_ticks = one_tick(inputs);
    let Some(base) = ctx.run(f, &base_ticks, &base_ticks) else { return };
    let want = reference(f, &base_ticks);
    ctx.expect_eq(f, "reference-mismatch", "one-tick run on the plain input differs from the reference", &base.obs, &want, &base_ticks, &base_ticks);
    let orders = reorderings(rng, w, &inputs[0], 120);
    let n = inputs[0].len();
    let masks: Vec<u32> = if w.dup { (0..(1u32 << n)).collect() } else { vec![0] };
    let combos = orders.len() * masks.len();
    // keep the total number of runs per input case around 2000
    let per_combo = (2000 / combos.max(1)).clamp(3, part_cap.max(3));
    for order in &orders {
        if w.perm {
            ctx.rep.count("permutations");
        }
        if w.interleave {
            ctx.rep.count("interleavings");
        }
        for &mask in &masks {
            if mask != 0 {
                ctx.rep.count("duplications");
            }
            let fed = vec![dup_items(order, mask)];
            let (parts, _) = partitions(rng, &[fed[0].len()], per_combo);
            for sizes in &parts {
                let ticks = make_ticks(&fed, sizes, &[]);
                ctx.rep.count(&format!("partitions.{}", f.name));
                let Some(r) = ctx.run(f, &ticks, &base_ticks) else { continue };
                ctx.expect_eq(f, "order-or-retry-dependent", "final observable changed under an admissible reordering/duplication of the input", &r.obs, &base.obs, &ticks, &base_ticks);
                if f.hist_invariant && mask == 0 {
                    // same chunk sizes on the identity order => identical sample history
                    let id_ticks = make_ticks(inputs, sizes, &[]);
                    if let Some(idr) = ctx.run(f, &id_ticks, &base_ticks) {
                        let got = V::L(r.frames.iter().map(|fr| V::L(fr.clone())).collect());
                        let want = V::L(idr.frames.iter().map(|fr| V::L(fr.clone())).collect());
                        ctx.expect_eq(f, "intermediate-order-dependent", "sample history changed under a permutation with the same chunk sizes", &got, &want, &ticks, &id_ticks);
                    }
                }
            }
        }
    }
    ctx.sample(f, &base_ticks, &base.obs);
}

fn c32_tick_scoped(ctx: &mut Ctx, rng: &mut Rng, f: &Flow, inputs: &[Vec<Item>], part_cap: usize) {
    let w = f.weak[0];
    let lens: Vec<usize> = inputs.iter().map(|i| i.len()).collect();
    let (parts, _) = partitions(rng, &lens, part_cap.max(16));
    for sizes in &parts {
        let base_ticks = make_ticks(inputs, sizes, &[]);
        let Some(base) = ctx.run(f, &base_ticks, &base_ticks) else { continue };
        let want = reference(f, &base_ticks);
        ctx.expect_eq(f, "reference-mismatch", "per-tick outputs differ from the per-tick reference", &base.obs, &want, &base_ticks, &base_ticks);
        // variants: reorder / duplicate inside each chunk of input 0 (other inputs unchanged)
        let variants = 40;
        for v in 0..variants {
            let mut ticks = base_ticks.clone();
            let mut changed = false;
            for t in ticks.iter_mut() {
                let chunk = t[0].clone();
                if chunk.is_empty() {
                    continue;
                }
                let mut c = chunk.clone();
                if w.perm {
                    if v < 24 && chunk.len() <= 4 {
                        // systematic: v-th permutation (mod count)
                        let perms = permutations(chunk.len());
                        c = perms[v % perms.len()].iter().map(|&i| chunk[i]).collect();
                    } else {
                        rng.shuffle(&mut c);
                    }
                }
                if w.dup {
                    let mask = if v < 16 { (v as u32) & ((1 << c.len()) - 1) } else { rng.below(1 << c.len()) as u32 };
                    c = dup_items(&c, mask);
                }
                if c != chunk {
                    changed = true;
                }
                t[0] = c;
            }
            if !changed {
                continue;
            }
            if w.perm {
                ctx.rep.count("permutations");
            }
            if w.dup {
                ctx.rep.count("duplications");
            }
            ctx.rep.count(&format!("partitions.{}", f.name));
            let Some(r) = ctx.run(f, &ticks, &base_ticks) else { continue };
            ctx.expect_eq(f, "order-or-retry-dependent", "per-tick outputs changed under an admissible reordering/duplication inside the batches", &r.obs, &base.obs, &ticks, &base_ticks);
        }
    }
    let bt = one_tick(inputs);
    if let Some(b) = ctx.run(f, &bt, &bt) {
        ctx.sample(f, &bt, &b.obs);
    }
}

// ---------------------------------------------------------------------------------------------
// C33

fn as_map(v: &V) -> BTreeMap<V, V> {
    let mut m = BTreeMap::new();
    for e in v.list() {
        if let [k, val] = e.list() {
            m.insert(k.clone(), val.clone());
        }
    }
    m
}

/// Check the type's promise over the sample sequence; returns (kind, description) of the first breach.
fn check_promise(p: Promise, out: Out, frames: &Frames) -> Option<(&'static str, String)> {
    let s = samples(out, frames);
    match p {
        Promise::None => None,
        Promise::MonoSingle => s.windows(2).find(|w| w[1] < w[0]).map(|w| {
            ("monotone-value-decreased", format!("sample went from {} to {}", w[0].json(), w[1].json()))
        }),
        Promise::MonoAndConst => s.windows(2).find_map(|w| {
            let (a, b) = (w[0].list(), w[1].list());
            if b[0] < a[0] {
                Some(("monotone-value-decreased", format!("count went from {} to {}", a[0].json(), b[0].json())))
            } else if b[1] != a[1] {
                Some(("bounded-value-changed", format!("bounded singleton went from {} to {}", a[1].json(), b[1].json())))
            } else {
                None
            }
        }),
        Promise::MapMonoValue | Promise::MapKeys | Promise::MapBounded => s.windows(2).find_map(|w| {
            let (a, b) = (as_map(&w[0]), as_map(&w[1]));
            for (k, va) in &a {
                match b.get(k) {
                    None => return Some(("key-disappeared", format!("key {} present in {} but not in the next sample {}", k.json(), w[0].json(), w[1].json()))),
                    Some(vb) => {
                        if p == Promise::MapMonoValue && vb < va {
                            return Some(("monotone-value-decreased", format!("value of key {} went from {} to {}", k.json(), va.json(), vb.json())));
                        }
                        if p == Promise::MapBounded && vb != va {
                            return Some(("bounded-value-changed", format!("value of key {} went from {} to {}", k.json(), va.json(), vb.json())));
                        }
                    }
                }
            }
            None
        }),
        Promise::EntriesOnce => {
            let mut seen: BTreeMap<V, V> = BTreeMap::new();
            for e in &s {
                if let [k, v] = e.list() {
                    if let Some(prev) = seen.insert(k.clone(), v.clone()) {
                        return Some(if &prev == v {
                            ("bounded-entry-repeated", format!("entry for key {} emitted twice", k.json()))
                        } else {
                            ("bounded-value-changed", format!("key {} emitted with {} and later {}", k.json(), prev.json(), v.json()))
                        });
                    }
                }
            }
            None
        }
    }
}

fn c33_judge(ctx: &mut Ctx, f: &Flow, ticks: &Ticks) -> Option<Run> {
    let r = ctx.run(f, ticks, ticks)?;
    ctx.rep.eval();
    if let Some((kind, what)) = check_promise(f.promise, f.out, &r.frames) {
        ctx.rep.violation(
            &format!("C33|{}|{}", f.name, kind),
            &what,
            case_json("C33", f, kind, ticks, ticks),
        );
    }
    Some(r)
}

fn c33(args: &Args, rep: &mut Reporter, table: &[Flow]) {
    let rng = args.rng();
    let cases = args.budget(40000, 400000, 3);
    let mut ctx = Ctx { rep, prop: "C33", histories: HashSet::new() };
    for f in table.iter().filter(|f| f.promise != Promise::None) {
        let mut frng = rng.fork(hash_of(f.name) ^ 33);
        for case in 0..cases {
            let n = if case % 4 == 0 { 1 + frng.below(6) } else { 8 + frng.below(23) };
            let keys = 2 + frng.below(4) as i64;
            let inputs = vec![gen_input(&mut frng, n, f.pair[0], keys, 9)];
            let den = 2 + frng.below(5) as u32;
            let sizes = random_partition(&mut frng, &[n], 1, den);
            let gaps: Vec<usize> = sizes.iter().map(|_| if frng.chance(1, 4) { 1 + frng.below(2) } else { 0 }).collect();
            let ticks = make_ticks(&inputs, &sizes, &gaps);
            ctx.rep.count(&format!("partitions.{}", f.name));
            let Some(r) = c33_judge(&mut ctx, f, &ticks) else { continue };
            let s = samples(f.out, &r.frames);
            let mut distinct = s.clone();
            distinct.dedup();
            if distinct.len() >= 3 {
                ctx.rep.count(&format!("changing_histories.{}", f.name));
            }
            // the final sample also has to be the right one (otherwise "monotone" could be vacuous)
            let want = reference(f, &ticks);
            ctx.expect_eq(f, "reference-mismatch", "final sample differs from the plain-Rust reference", &r.obs, &want, &ticks, &ticks);
            if case == 1 {
                let name = f.name;
                ctx.rep.sample(|| json!({"flow": name, "ticks": ticks_json(&ticks), "samples": s.iter().map(|v| v.json()).collect::<Vec<_>>()}));
            }
        }
        ctx.rep.count("flows");
    }
    let histories = ctx.histories.len();
    rep.extra("distinct_observable_histories", json!(histories));
    let n_flows = table.iter().filter(|f| f.promise != Promise::None).count() as u64;
    rep.require(rep.counter("flows") == n_flows && n_flows >= 10, "every monotone/bounded corpus flow (>= 10) was run");
    if args.tier != Tier::Miri {
        for f in table.iter().filter(|f| f.promise != Promise::None) {
            rep.require(
                rep.counter(&format!("changing_histories.{}", f.name)) >= 50,
                &format!("flow {}: at least 50 runs whose sample sequence took >= 3 distinct values", f.name),
            );
        }
    }
}

// ---------------------------------------------------------------------------------------------
// replay

fn replay(rep: &mut Reporter, prop: &str, table: &[Flow], case: &Value) {
    let name = case["flow"].as_str().unwrap_or("");
    let Some(f) = table.iter().find(|f| f.name == name) else {
        eprintln!("replay: unknown flow {name}");
        std::process::exit(3);
    };
    let (Some(ticks), Some(base_ticks)) = (ticks_from_json(&case["ticks"]), ticks_from_json(&case["base_ticks"])) else {
        eprintln!("replay: malformed ticks");
        std::process::exit(3);
    };
    let check = case["check"].as_str().unwrap_or("").to_string();
    let mut ctx = Ctx { rep, prop, histories: HashSet::new() };
    let Some(r) = ctx.run(f, &ticks, &base_ticks) else { return };
    eprintln!("replay {name}: frames {:?}", r.frames.iter().map(|fr| fr.iter().map(|v| v.json().to_string()).collect::<Vec<_>>()).collect::<Vec<_>>());
    match check.as_str() {
        "reference-mismatch" | "order-reference-mismatch" => {
            let want = reference(f, if check == "reference-mismatch" && !f.tick_scoped() { &base_ticks } else { &ticks });
            ctx.expect_eq(f, &check, "observable differs from the plain-Rust reference", &r.obs, &want, &ticks, &base_ticks);
        }
        "intermediate-order-dependent" => {
            if let Some(b) = ctx.run(f, &base_ticks, &base_ticks) {
                let got = V::L(r.frames.iter().map(|fr| V::L(fr.clone())).collect());
                let want = V::L(b.frames.iter().map(|fr| V::L(fr.clone())).collect());
                ctx.expect_eq(f, &check, "sample history differs", &got, &want, &ticks, &base_ticks);
            }
        }
        "not-key-local" => {
            if let Some(b) = ctx.run(f, &base_ticks, &base_ticks) {
                let k = flatten(&ticks, f.n_in)[0].first().map(|i| i.0).unwrap_or(0);
                let (got, want) = if f.out == Out::Keyed {
                    (per_key_obs(f, &r.obs).get(&k).cloned().unwrap_or(V::N), per_key_obs(f, &b.obs).get(&k).cloned().unwrap_or(V::N))
                } else {
                    (r.obs.clone(), b.obs.clone())
                };
                ctx.expect_eq(f, &check, "per-key result differs", &got, &want, &ticks, &base_ticks);
            }
        }
        "panic" => {}
        k if prop == "C33" && f.promise != Promise::None && k != "reference-mismatch" => {
            ctx.rep.eval();
            if let Some((kind, what)) = check_promise(f.promise, f.out, &r.frames) {
                ctx.rep.violation(&format!("C33|{}|{}", f.name, kind), &what, case_json("C33", f, kind, &ticks, &ticks));
            }
        }
        _ => {
            if let Some(b) = ctx.run(f, &base_ticks, &base_ticks) {
                ctx.expect_eq(f, &check, "observable differs from the base run", &r.obs, &b.obs, &ticks, &base_ticks);
            }
        }
    }
}

fn main() {
    let args = Args::parse();
    if args.prop == "NONE" {
        return;
    }
    let table = flows::table();
    assert_eq!(table.len(), emb::N_FLOWS, "flow table and generated modules out of sync");
    let mut rep = Reporter::new(&args.prop, args.seed);
    if let Some(case) = args.replay_case() {
        replay(&mut rep, &args.prop.clone(), &table, &case);
        rep.finish("replay", false);
        return;
    }
    match args.prop.as_str() {
        "C28" => {
            c28(&args, &mut rep, &table);
            rep.finish(
                "Corpus of safe top-level Hydro flows compiled by generate_embedded(); per flow, random inputs of <= 6 items in total are run under EVERY tick partition (all sequences of non-empty per-input chunk vectors, <= 2000 per input case, else 2000 random ones; every 5th with extra empty ticks) and 30-item inputs under random partitions; the final observable (sequence / multiset / last sample / final map) must equal the one-tick run, which must equal a plain-Rust reference. Non-trivial = a (flow, input, partition) run in which at least two ticks received a non-empty chunk.",
                true,
            );
        }
        "C29" => {
            c29(&args, &mut rep, &table);
            rep.finish(
                "Corpus flows typed TotalOrder or keyed: under every tick partition of random small inputs (and random partitions of 30-item inputs) the output sequence (per key for keyed streams) must equal a plain-Rust iterator reference; keyed flows additionally run under all cross-key interleavings (<= 90 per input) x all partitions and with all other keys deleted, per-key sequences must not change. Non-trivial = run with >= 2 non-empty ticks.",
                true,
            );
        }
        "C32" => {
            c32(&args, &mut rep, &table);
            rep.finish(
                "One corpus flow per assume_ordering_trusted/assume_retries_trusted call site, input weakened to the weakest type the operator accepts. NoOrder inputs: every permutation of <= 5 items; AtLeastOnce inputs: every adjacent-duplication mask; keyed-singleton accessors: every cross-key interleaving; each crossed with tick partitions (top level: partitions of the transformed input, final observable compared with the plain one-tick run and the reference; tick-scoped: reorder/duplicate inside each batch of a fixed partition, all per-tick outputs compared). Non-trivial = run with >= 2 non-empty ticks.",
                true,
            );
        }
        "C33" => {
            c33(&args, &mut rep, &table);
            rep.finish(
                "Corpus flows producing Monotonic singletons, MonotonicValue / MonotonicKeys / BoundedValue keyed singletons and a Bounded top-level singleton, sampled every tick under random inputs (1-30 items, 2-5 keys) and random tick partitions with empty ticks; the sample sequence must satisfy exactly the type's promise (keys persist; monotone values never decrease; bounded values never change; bounded entries emitted once) and end in the reference value. Non-trivial = run with >= 2 non-empty ticks.",
                false,
            );
        }
        p => {
            eprintln!("hv_det_emb does not serve property {p}");
            std::process::exit(3);
        }
    }
}
