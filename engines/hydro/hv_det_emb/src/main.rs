//! Embedded-mode driver: runs the generated `Dfir`s tick by tick, feeding inputs according to a
//! tick partition chosen by the harness, and judges the outputs.
pub mod emb {
    include!(concat!(env!("OUT_DIR"), "/all.rs"));
}

use hv_common::Feed;

fn main() {
    let args = vcommon::Args::parse();
    if args.prop == "NONE" {
        return;
    }
    // Example (replace): drive `double` with the partition [1,2] | [] | [3].
    let feed = Feed::new();
    let mut out = vec![];
    {
        let mut outputs = emb::double::double::EmbeddedOutputs { output: |x: i64| out.push(x) };
        let mut flow = emb::double::double(feed.clone(), &mut outputs);
        for chunk in [vec![1, 2], vec![], vec![3]] {
            feed.push_all(chunk);
            flow.run_tick_sync();
        }
    }
    eprintln!("not implemented yet; example output {out:?}");
    std::process::exit(3);
}
