//! Canonical value tree for outputs of arbitrary flow element types, plus the observables built
//! from per-tick output frames.
use std::collections::{BTreeMap, HashMap};

use vcommon::{Value, json};

/// Harness-level input item: `(key, value)`; `i64`-typed inputs use only the value.
pub type Item = (i64, i64);
/// ticks[t][input] = the chunk queued for that input before tick t runs.
pub type Ticks = Vec<Vec<Vec<Item>>>;
/// frames[t] = what the flow's output emitted during tick t.
pub type Frames = Vec<Vec<V>>;

#[derive(Clone, PartialEq, Eq, PartialOrd, Ord, Hash, Debug)]
pub enum V {
    /// "no sample was ever produced"
    N,
    I(i64),
    L(Vec<V>),
}

impl V {
    pub fn json(&self) -> Value {
        match self {
            V::N => Value::Null,
            V::I(i) => json!(i),
            V::L(l) => Value::Array(l.iter().map(|v| v.json()).collect()),
        }
    }
    pub fn list(&self) -> &[V] {
        match self {
            V::L(l) => l,
            _ => &[],
        }
    }
    pub fn sorted(self) -> V {
        match self {
            V::L(mut l) => {
                l.sort();
                V::L(l)
            }
            v => v,
        }
    }
}

pub trait Canon {
    fn canon(&self) -> V;
}
impl Canon for i64 {
    fn canon(&self) -> V {
        V::I(*self)
    }
}
impl Canon for usize {
    fn canon(&self) -> V {
        V::I(*self as i64)
    }
}
impl Canon for bool {
    fn canon(&self) -> V {
        V::I(*self as i64)
    }
}
impl Canon for () {
    fn canon(&self) -> V {
        V::L(vec![])
    }
}
impl<A: Canon, B: Canon> Canon for (A, B) {
    fn canon(&self) -> V {
        V::L(vec![self.0.canon(), self.1.canon()])
    }
}
impl<A: Canon, B: Canon, C: Canon> Canon for (A, B, C) {
    fn canon(&self) -> V {
        V::L(vec![self.0.canon(), self.1.canon(), self.2.canon()])
    }
}
impl<T: Canon> Canon for Option<T> {
    fn canon(&self) -> V {
        match self {
            None => V::L(vec![]),
            Some(x) => V::L(vec![x.canon()]),
        }
    }
}
impl<T: Canon> Canon for Vec<T> {
    fn canon(&self) -> V {
        V::L(self.iter().map(|x| x.canon()).collect())
    }
}
impl<K: Canon, T: Canon> Canon for HashMap<K, T> {
    fn canon(&self) -> V {
        let mut l: Vec<V> = self.iter().map(|(k, v)| V::L(vec![k.canon(), v.canon()])).collect();
        l.sort();
        V::L(l)
    }
}

pub trait FromItem {
    fn from_item(i: Item) -> Self;
}
impl FromItem for i64 {
    fn from_item(i: Item) -> i64 {
        i.1
    }
}
impl FromItem for (i64, i64) {
    fn from_item(i: Item) -> (i64, i64) {
        i
    }
}

// helpers for writing references --------------------------------------------------------------

pub fn vi(x: i64) -> V {
    V::I(x)
}
pub fn vp(a: i64, b: i64) -> V {
    V::L(vec![V::I(a), V::I(b)])
}
pub fn vl(xs: Vec<V>) -> V {
    V::L(xs)
}
pub fn seq(xs: impl IntoIterator<Item = i64>) -> V {
    V::L(xs.into_iter().map(V::I).collect())
}
pub fn bag(xs: Vec<V>) -> V {
    V::L(xs).sorted()
}
pub fn opt(x: Option<V>) -> V {
    V::L(x.into_iter().collect())
}
/// Group `(key, value)` pairs by key keeping per-key order: `[[k, [v...]], ...]` sorted by key.
pub fn keyed(pairs: impl IntoIterator<Item = (i64, V)>) -> V {
    let mut m: BTreeMap<i64, Vec<V>> = BTreeMap::new();
    for (k, v) in pairs {
        m.entry(k).or_default().push(v);
    }
    V::L(m.into_iter().map(|(k, vs)| V::L(vec![V::I(k), V::L(vs)])).collect())
}
/// `[[k, v], ...]` sorted by key.
pub fn map(m: BTreeMap<i64, V>) -> V {
    V::L(m.into_iter().map(|(k, v)| V::L(vec![V::I(k), v])).collect())
}

// observables ----------------------------------------------------------------------------------

#[derive(Clone, Copy, PartialEq, Eq, Debug)]
#[allow(dead_code)]
pub enum Fk {
    Seq,
    Bag,
    /// every item of the frame is a list whose order is not meaningful
    SortInner,
    Keyed,
}

#[derive(Clone, Copy, PartialEq, Eq, Debug)]
pub enum Out {
    /// totally ordered stream: concatenation of all frames
    Seq,
    /// unordered stream: multiset of all frames
    Bag,
    /// keyed stream with per-key order: items are `[k, v]`
    Keyed,
    /// singleton / optional sampled every tick: the last sample
    Last,
    /// keyed singleton snapshot (`Vec<(K, V)>`) sampled every tick: the last sample, sorted
    LastSorted,
    /// tick-scoped flow: the per-tick outputs are the observable
    Frames(Fk),
}

fn frame_obs(fk: Fk, frame: &[V]) -> V {
    match fk {
        Fk::Seq => V::L(frame.to_vec()),
        Fk::Bag => V::L(frame.to_vec()).sorted(),
        Fk::SortInner => V::L(frame.iter().map(|v| v.clone().sorted()).collect()),
        Fk::Keyed => keyed_of(frame),
    }
}

fn keyed_of(items: &[V]) -> V {
    keyed(items.iter().map(|it| {
        let l = it.list();
        let k = match l.first() {
            Some(V::I(k)) => *k,
            _ => i64::MIN,
        };
        (k, l.get(1).cloned().unwrap_or(V::N))
    }))
}

pub fn observe(out: Out, frames: &Frames) -> V {
    let flat = || -> Vec<V> { frames.iter().flatten().cloned().collect() };
    match out {
        Out::Seq => V::L(flat()),
        Out::Bag => V::L(flat()).sorted(),
        Out::Keyed => keyed_of(&flat()),
        Out::Last => flat().pop().unwrap_or(V::N),
        Out::LastSorted => flat().pop().map(|v| v.sorted()).unwrap_or(V::N),
        Out::Frames(fk) => V::L(frames.iter().map(|f| frame_obs(fk, f)).collect()),
    }
}

/// The sequence of samples (for C33), each canonicalised like the final observable.
pub fn samples(out: Out, frames: &Frames) -> Vec<V> {
    frames
        .iter()
        .flatten()
        .map(|v| if out == Out::LastSorted { v.clone().sorted() } else { v.clone() })
        .collect()
}

pub fn ticks_json(t: &Ticks) -> Value {
    json!(t)
}

pub fn ticks_from_json(v: &Value) -> Option<Ticks> {
    let mut out = vec![];
    for tick in v.as_array()? {
        let mut per_in = vec![];
        for chunk in tick.as_array()? {
            let mut items = vec![];
            for it in chunk.as_array()? {
                let a = it.as_array()?;
                items.push((a.first()?.as_i64()?, a.get(1)?.as_i64()?));
            }
            per_in.push(items);
        }
        out.push(per_in);
    }
    Some(out)
}
