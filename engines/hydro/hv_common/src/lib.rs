//! Helpers shared by the embedded-mode drivers: a harness-fed input stream (the "tick partition"
//! mechanism) and enumerators for compositions / permutations.

use std::cell::RefCell;
use std::collections::VecDeque;
use std::pin::Pin;
use std::rc::Rc;
use std::task::{Context, Poll};

pub use vcommon;

/// A stream fed by the harness. It yields whatever is queued and then reports `Pending` (it never
/// ends), so one `run_tick_sync()` consumes exactly the chunk the harness queued for that tick.
pub struct Feed<T>(pub Rc<RefCell<VecDeque<T>>>);

impl<T> Feed<T> {
    pub fn new() -> Feed<T> {
        Feed(Rc::new(RefCell::new(VecDeque::new())))
    }
    pub fn push_all(&self, xs: impl IntoIterator<Item = T>) {
        self.0.borrow_mut().extend(xs);
    }
    pub fn pending_len(&self) -> usize {
        self.0.borrow().len()
    }
}
impl<T> Default for Feed<T> {
    fn default() -> Self {
        Self::new()
    }
}
impl<T> Clone for Feed<T> {
    fn clone(&self) -> Self {
        Feed(self.0.clone())
    }
}
impl<T> futures::Stream for Feed<T> {
    type Item = T;
    fn poll_next(self: Pin<&mut Self>, _cx: &mut Context<'_>) -> Poll<Option<T>> {
        match self.0.borrow_mut().pop_front() {
            Some(x) => Poll::Ready(Some(x)),
            None => Poll::Pending,
        }
    }
}
impl<T> Unpin for Feed<T> {}

/// All compositions of `n` (ordered tuples of positive integers summing to n): 2^(n-1) of them
/// (one, the empty composition, for n = 0).
pub fn compositions(n: usize) -> Vec<Vec<usize>> {
    if n == 0 {
        return vec![vec![]];
    }
    let mut out = vec![];
    for mask in 0u32..(1 << (n - 1)) {
        let mut parts = vec![];
        let mut cur = 1;
        for i in 0..n - 1 {
            if mask >> i & 1 == 1 {
                parts.push(cur);
                cur = 1;
            } else {
                cur += 1;
            }
        }
        parts.push(cur);
        out.push(parts);
    }
    out
}

/// Split `items` into per-tick chunks according to a composition, optionally inserting empty ticks
/// (`gaps[i]` empty ticks before chunk i).
pub fn chunks_of<T: Clone>(items: &[T], comp: &[usize]) -> Vec<Vec<T>> {
    let mut out = vec![];
    let mut at = 0;
    for &k in comp {
        out.push(items[at..at + k].to_vec());
        at += k;
    }
    out
}

/// A random split of `items` into `ticks` chunks (chunks may be empty).
pub fn random_chunks<T: Clone>(rng: &mut vcommon::Rng, items: &[T], ticks: usize) -> Vec<Vec<T>> {
    let mut cuts: Vec<usize> = (0..ticks.saturating_sub(1)).map(|_| rng.below(items.len() + 1)).collect();
    cuts.sort();
    let mut out = vec![];
    let mut at = 0;
    for c in cuts {
        out.push(items[at..c].to_vec());
        at = c;
    }
    out.push(items[at..].to_vec());
    out
}

/// All permutations of 0..n (n <= 8).
pub fn permutations(n: usize) -> Vec<Vec<usize>> {
    fn go(cur: &mut Vec<usize>, used: &mut Vec<bool>, n: usize, out: &mut Vec<Vec<usize>>) {
        if cur.len() == n {
            out.push(cur.clone());
            return;
        }
        for i in 0..n {
            if !used[i] {
                used[i] = true;
                cur.push(i);
                go(cur, used, n, out);
                cur.pop();
                used[i] = false;
            }
        }
    }
    let mut out = vec![];
    go(&mut vec![], &mut vec![false; n], n, &mut out);
    out
}

/// Sorted copy (multiset canonical form).
pub fn sorted<T: Ord + Clone>(xs: &[T]) -> Vec<T> {
    let mut v = xs.to_vec();
    v.sort();
    v
}
