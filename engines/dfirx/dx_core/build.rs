//! Generates `$OUT_DIR/programs_<k>.rs` (k = 0..8) from VERIF_GEN_SEED / VERIF_GEN_N with the
//! generator in `src/gen.rs`; the shard binaries `include!` them, so the programs are compiled
//! by rustc with the real `dfir_syntax!` proc-macro.

#[path = "src/fns.rs"]
#[allow(dead_code)]
mod fns;
#[path = "src/ast.rs"]
#[allow(dead_code)]
mod ast;
#[path = "src/pgen.rs"]
#[allow(dead_code)]
mod pgen;
#[path = "src/emit.rs"]
#[allow(dead_code)]
mod emit;

pub const SHARDS: usize = 8;

fn main() {
    println!("cargo::rerun-if-env-changed=VERIF_GEN_SEED");
    println!("cargo::rerun-if-env-changed=VERIF_GEN_N");
    println!("cargo::rerun-if-env-changed=VERIF_GEN_SKIP");
    for f in ["build.rs", "src/fns.rs", "src/ast.rs", "src/pgen.rs", "src/emit.rs"] {
        println!("cargo::rerun-if-changed={f}");
    }
    let seed: u64 = std::env::var("VERIF_GEN_SEED").ok().and_then(|s| s.parse().ok()).unwrap_or(1);
    let n: usize = std::env::var("VERIF_GEN_N").ok().and_then(|s| s.parse().ok()).unwrap_or(16);
    let out = std::path::PathBuf::from(std::env::var("OUT_DIR").unwrap());
    // Programs that did not compile in a previous attempt (see vlib/drv_dxcore.py); they are left
    // out of the tables and listed in the evidence.
    let skip: Vec<usize> = std::env::var("VERIF_GEN_SKIP")
        .unwrap_or_default()
        .split(',')
        .filter_map(|x| x.trim().parse().ok())
        .collect();
    let progs = pgen::generate(seed, n);
    let leftover = pgen::LEFTOVER.with(|l| l.borrow().clone());
    if !leftover.is_empty() {
        println!("cargo::warning=dx_core generator could not place: {}", leftover.join(", "));
    }
    for k in 0..SHARDS {
        let mut s = String::new();
        s += &format!("pub const GEN_SEED: u64 = {seed};\npub const GEN_N: usize = {n};\npub const SHARD: usize = {k};\n\n");
        let mut table = String::new();
        let mut map = String::new();
        for p in progs.iter().filter(|p| p.id % SHARDS == k && !skip.contains(&p.id)) {
            let first = s.lines().count() + 1;
            s += &emit::rust_fn(p);
            s += "\n";
            map += &format!("{} {} {}\n", first, s.lines().count(), p.id);
            table += &format!("    ({}, prog_{} as dx_core::ProgFn),\n", p.id, p.id);
        }
        s += &format!("pub static PROGRAMS: &[(usize, dx_core::ProgFn)] = &[\n{table}];\n");
        let path = out.join(format!("programs_{k}.rs"));
        let old = std::fs::read_to_string(&path).unwrap_or_default();
        if old != s {
            std::fs::write(&path, s).unwrap();
        }
        std::fs::write(out.join(format!("programs_{k}.map")), map).unwrap();
    }
}
