//! Seeded, coverage-driven program generator. Compiled into `build.rs` (to emit the programs) and
//! into the library (the runner regenerates the identical ASTs from the same seed).

use vcommon::Rng;

use crate::ast::*;
use crate::fns;

/// Upper bound used for per-tick size estimates of replaying ('static) state.
const T_EST: usize = 10;
/// No edge may be estimated to carry more items per tick than this.
const SIZE_CAP: usize = 4000;
pub const SRC_ITEMS_MAX: usize = 6;

/// The operator x persistence catalogue the run has to cover (parameters are placeholders).
pub fn catalogue() -> Vec<Op> {
    let mut c = vec![
        Op::Map(0),
        Op::Filter(0),
        Op::FilterMap(0),
        Op::FlatMap(0),
        Op::Flatten(0),
        Op::Inspect(0),
        Op::Identity,
        Op::Handoff,
        Op::Persist,
        Op::MultisetDelta,
        Op::Sort,
        Op::SortByKey(0),
        Op::DeferTick,
        Op::DeferTickLazy,
        Op::ZipLongest(P::Tick),
        Op::Chain,
        Op::ChainFirstN(3),
        Op::DeferSignal,
        Op::Union,
        Op::Partition { n: 2, f: 0, named: false },
        Op::Partition { n: 3, f: 0, named: true },
        Op::DemuxEnum(0),
        Op::Unzip,
        Op::RefSingleton(0),
        Op::RefHandoff(0),
    ];
    for p in [P::Tick, P::Static] {
        c.extend([
            Op::Enumerate(p),
            Op::Unique(p),
            Op::Fold(p, 0),
            Op::FoldNoReplay(p, 0),
            Op::Reduce(p, 0),
            Op::ReduceNoReplay(p, 0),
            Op::FoldKeyed(p, 0),
            Op::ReduceKeyed(p, 0),
            Op::Scan(p, 0),
            Op::LatticeFold(p, Lat::Max),
            Op::LatticeFold(p, Lat::Set),
            Op::LatticeReduce(p, Lat::Max),
            Op::LatticeReduce(p, Lat::Set),
            Op::CrossSingleton(p),
            Op::State(p, Lat::Max),
            Op::State(p, Lat::Set),
            Op::StateBy(p),
        ]);
        for q in [P::Tick, P::Static] {
            c.extend([
                Op::Join(p, q),
                Op::JoinMultiset(p, q),
                Op::JoinFused(p, q, Agg::Reduce(0), Agg::Fold(0)),
                Op::JoinFusedLhs(p, q, Agg::Reduce(0)),
                Op::JoinFusedRhs(p, q, Agg::Fold(0)),
                Op::JoinMultisetHalf(p, q, 0),
                Op::AntiJoin(p, q, 0),
                Op::Difference(p, q),
                Op::CrossJoin(p, q),
                Op::CrossJoinMultiset(p, q),
                Op::Zip(p, q),
            ]);
        }
    }
    c
}

/// Catalogue key incl. lattice kind / partition mode, used for the to-do list and the evidence.
pub fn cover_key(op: &Op) -> String {
    match op {
        Op::LatticeFold(_, l) | Op::LatticeReduce(_, l) | Op::State(_, l) => format!("{}[{:?}]", op.cat_key(), l),
        Op::Partition { named, .. } => format!("partition[{}]", if *named { "named" } else { "indexed" }),
        Op::RefSingleton(_) => "#singleton-ref".to_string(),
        Op::RefHandoff(_) => "#handoff-ref".to_string(),
        _ => op.cat_key(),
    }
}

fn rand_agg(r: &mut Rng) -> Agg {
    let f = r.below(fns::N_KFOLD as usize) as u8;
    match r.below(3) {
        0 => Agg::Reduce(f),
        1 => Agg::Fold(f),
        _ => Agg::FoldFrom(f),
    }
}

/// Fill in random closure parameters (keeping the persistence / kind of the template).
fn randomize(op: &Op, r: &mut Rng) -> Op {
    let b = |r: &mut Rng, n: u8| r.below(n as usize) as u8;
    match op {
        Op::Map(_) => Op::Map(b(r, fns::N_MAPF)),
        Op::Filter(_) => Op::Filter(b(r, fns::N_PRED)),
        Op::FilterMap(_) => Op::FilterMap(b(r, fns::N_PRED)),
        Op::FlatMap(_) => Op::FlatMap(b(r, fns::N_FLAT)),
        Op::Flatten(_) => Op::Flatten(b(r, fns::N_FLAT)),
        Op::SortByKey(_) => Op::SortByKey(b(r, 3)),
        Op::Fold(p, _) => Op::Fold(*p, b(r, fns::N_FOLD)),
        Op::FoldNoReplay(p, _) => Op::FoldNoReplay(*p, b(r, fns::N_FOLD)),
        Op::Reduce(p, _) => Op::Reduce(*p, b(r, fns::N_FOLD)),
        Op::ReduceNoReplay(p, _) => Op::ReduceNoReplay(*p, b(r, fns::N_FOLD)),
        Op::FoldKeyed(p, _) => Op::FoldKeyed(*p, b(r, fns::N_KFOLD)),
        Op::ReduceKeyed(p, _) => Op::ReduceKeyed(*p, b(r, fns::N_KFOLD)),
        Op::Scan(P::Tick, _) => Op::Scan(P::Tick, b(r, fns::N_SCAN)),
        // 'static scans only with monotone closures (see SEMANTIC_DECISIONS)
        Op::Scan(P::Static, _) => Op::Scan(P::Static, b(r, 2)),
        Op::JoinFused(p, q, ..) => Op::JoinFused(*p, *q, rand_agg(r), rand_agg(r)),
        Op::JoinFusedLhs(p, q, _) => Op::JoinFusedLhs(*p, *q, rand_agg(r)),
        Op::JoinFusedRhs(p, q, _) => Op::JoinFusedRhs(*p, *q, rand_agg(r)),
        Op::JoinMultisetHalf(p, q, _) => Op::JoinMultisetHalf(*p, *q, b(r, 2)),
        Op::AntiJoin(p, q, _) => Op::AntiJoin(*p, *q, b(r, 2)),
        Op::ChainFirstN(_) => Op::ChainFirstN(1 + r.below(6)),
        Op::Partition { named, .. } => {
            Op::Partition { n: if *named { 2 + r.below(2) } else { 2 + r.below(2) }, f: b(r, 3), named: *named }
        }
        Op::DemuxEnum(_) => Op::DemuxEnum(b(r, 3)),
        Op::RefSingleton(_) => Op::RefSingleton(b(r, 2)),
        Op::RefHandoff(_) => Op::RefHandoff(b(r, 2)),
        o => o.clone(),
    }
}

/// Rough upper estimate of the items an output carries per tick late in a history.
fn est(op: &Op, ins: &[usize]) -> usize {
    let i0 = ins.first().copied().unwrap_or(0);
    let i1 = ins.get(1).copied().unwrap_or(0);
    let stat = |p: &P, n: usize| if *p == P::Static { n * T_EST } else { n };
    let dom = (fns::KMOD * fns::VMOD) as usize;
    match op {
        Op::Source(_) => SRC_ITEMS_MAX,
        Op::FlatMap(_) | Op::Flatten(_) => i0 * 3,
        Op::Persist => i0 * T_EST,
        Op::FoldVec(p) => stat(p, i0),
        Op::Fold(..) | Op::FoldNoReplay(..) | Op::Reduce(..) | Op::ReduceNoReplay(..) => 1,
        Op::LatticeFold(_, Lat::Max) | Op::LatticeReduce(_, Lat::Max) => 1,
        Op::LatticeFold(_, Lat::Set) | Op::LatticeReduce(_, Lat::Set) => dom,
        Op::FoldKeyed(..) | Op::ReduceKeyed(..) => fns::KMOD as usize,
        Op::Unique(_) => i0.min(dom),
        Op::Join(p, q) => (stat(p, i0).min(dom) * stat(q, i1).min(dom)).div_ceil(2),
        Op::JoinMultiset(p, q) | Op::JoinMultisetHalf(p, q, _) => (stat(p, i0) * stat(q, i1)).div_ceil(2),
        Op::JoinFused(..) => fns::KMOD as usize,
        Op::JoinFusedLhs(_, q, _) => stat(q, i1),
        Op::JoinFusedRhs(_, q, _) => stat(q, i0),
        Op::AntiJoin(p, ..) | Op::Difference(p, _) => stat(p, i0),
        Op::CrossJoin(p, q) => stat(p, i0).min(dom) * stat(q, i1).min(dom),
        Op::CrossJoinMultiset(p, q) => stat(p, i0) * stat(q, i1),
        Op::Zip(p, q) => stat(p, i0).max(stat(q, i1)),
        Op::ZipLongest(_) => i0.max(i1),
        Op::Chain => i0 + i1,
        Op::ChainFirstN(n) => *n,
        Op::DeferSignal => i0 * T_EST,
        Op::Union => ins.iter().sum(),
        Op::State(_, Lat::Set) | Op::StateBy(_) => dom.max(i0),
        Op::Sink(..) | Op::Null => 0,
        _ => i0,
    }
}

struct B<'r> {
    r: &'r mut Rng,
    nodes: Vec<Node>,
    cons: Vec<Vec<usize>>,
    size: Vec<Vec<usize>>,
    nsrc: usize,
    nsinks: usize,
    checks: Vec<Check>,
    /// per node: inside the root-level loop block; `loop_mode`: new nodes go inside
    in_loop: Vec<bool>,
    loop_mode: bool,
}

impl<'r> B<'r> {
    fn new(r: &'r mut Rng, nsrc: usize) -> Self {
        let mut b = B {
            r,
            nodes: vec![],
            cons: vec![],
            size: vec![],
            nsrc,
            nsinks: 0,
            checks: vec![],
            in_loop: vec![],
            loop_mode: false,
        };
        for k in 0..nsrc {
            b.add(Op::Source(k), vec![]);
        }
        b
    }
    fn snapshot(&self) -> Program {
        Program {
            id: 0,
            mode: Mode::Ops,
            nsrc: self.nsrc,
            nsinks: self.nsinks,
            nodes: self.nodes.clone(),
            checks: vec![],
            depth: 0,
            in_loop: self.in_loop.clone(),
        }
    }
    /// Is the stream produced by a `handoff()` (possibly through unary unions, which the compiler
    /// eliminates)? Two adjacent handoffs are rejected by `dfir_syntax!`.
    fn hoff_like(&self, mut e: Edge) -> bool {
        loop {
            if e.0 >= self.nodes.len() {
                return false;
            }
            let nd = &self.nodes[e.0];
            match nd.op {
                Op::Handoff => return true,
                Op::Union if nd.ins.len() == 1 => e = nd.ins[0],
                _ => return false,
            }
        }
    }
    /// `e -> handoff()` (with an `identity()` in between if `e` already is a handoff).
    fn handoff(&mut self, e: Edge) -> Edge {
        let e = if self.hoff_like(e) { (self.add_raw(Op::Identity, vec![e]), 0) } else { e };
        (self.add_raw(Op::Handoff, vec![e]), 0)
    }
    fn add(&mut self, op: Op, mut ins: Vec<Edge>) -> usize {
        match &op {
            // `multiset_delta()` on the push side does not type-check (E0282 inside the
            // macro-generated closure), so it is always put at the head of its own subgraph.
            Op::MultisetDelta => {
                ins[0] = self.handoff(ins[0]);
                // nobody else may read that handoff (a tee would put multiset_delta on the push side)
                self.cons[ins[0].0][0] = 99;
            }
            Op::Handoff if self.hoff_like(ins[0]) => ins[0] = (self.add_raw(Op::Identity, vec![ins[0]]), 0),
            Op::RefHandoff(_) | Op::RefSingleton(_) if ins[1].0 < self.nodes.len() && self.hoff_like(ins[1]) => {
                ins[1] = (self.add_raw(Op::Identity, vec![ins[1]]), 0)
            }
            _ => {}
        }
        // Operators that may stop reading an input early (iterator-style short circuit): what an
        // un-pulled upstream stateful operator then does is not documented, so their inputs are
        // materialised by a `handoff()` (the upstream subgraph always runs to completion).
        let short: &[usize] = match &op {
            Op::ChainFirstN(_) | Op::CrossSingleton(_) => &[0, 1],
            Op::Scan(_, f) if f % fns::N_SCAN != 0 => &[0],
            _ => &[],
        };
        for &k in short {
            if !self.hoff_like(ins[k]) {
                ins[k] = self.handoff(ins[k]);
            }
        }
        self.add_raw(op, ins)
    }
    fn add_raw(&mut self, op: Op, ins: Vec<Edge>) -> usize {
        let sizes: Vec<usize> = ins.iter().map(|&(j, p)| self.size.get(j).map_or(SRC_ITEMS_MAX, |s| s[p])).collect();
        for &(j, p) in &ins {
            if j < self.cons.len() {
                self.cons[j][p] += 1;
            }
        }
        let e = est(&op, &sizes).max(1);
        self.cons.push(vec![0; op.n_out()]);
        self.size.push(vec![e; op.n_out()]);
        self.in_loop.push(self.loop_mode);
        self.nodes.push(Node { op, ins });
        self.nodes.len() - 1
    }
    fn would_fit(&self, op: &Op, ins: &[Edge]) -> bool {
        let sizes: Vec<usize> = ins.iter().map(|&(j, p)| self.size[j][p]).collect();
        est(op, &sizes) <= SIZE_CAP
    }
    fn sink(&mut self, e: Edge) -> usize {
        let k = self.nsinks;
        self.nsinks += 1;
        self.add(Op::Sink(k, None), vec![e]);
        k
    }
    fn ordered(&self, e: Edge) -> bool {
        self.snapshot().ordered()[e.0][e.1]
    }
    /// Make the edge order-determined (insert `sort()` if it is not).
    fn ensure_ordered(&mut self, e: Edge) -> Edge {
        if self.ordered(e) { e } else { (self.add(Op::Sort, vec![e]), 0) }
    }
    fn all_edges(&self) -> Vec<Edge> {
        let mut v = vec![];
        for (i, n) in self.nodes.iter().enumerate() {
            for p in 0..n.op.n_out() {
                if self.cons[i][p] < 3 && self.size[i][p] <= SIZE_CAP {
                    v.push((i, p));
                }
            }
        }
        v
    }
    fn open_edges(&self) -> Vec<Edge> {
        self.all_edges().into_iter().filter(|&(i, p)| self.cons[i][p] == 0).collect()
    }
    fn pick(&mut self, prefer_open: bool) -> Edge {
        let open = self.open_edges();
        if !open.is_empty() && (prefer_open || self.r.chance(2, 3)) {
            return *self.r.choose(&open);
        }
        let all = self.all_edges();
        if all.is_empty() {
            // everything is saturated: fall back to a source
            return (self.r.below(self.nsrc), 0);
        }
        *self.r.choose(&all)
    }
    /// A stream estimated to carry at most what a source carries.
    fn pick_small(&mut self) -> Edge {
        let v: Vec<Edge> = self.all_edges().into_iter().filter(|&(i, p)| self.size[i][p] <= SRC_ITEMS_MAX).collect();
        if v.is_empty() { (self.r.below(self.nsrc), 0) } else { *self.r.choose(&v) }
    }
    /// An edge that already has a consumer (so the new consumer hangs off a tee: push side).
    fn pick_teed(&mut self) -> Edge {
        let v: Vec<Edge> = self.all_edges().into_iter().filter(|&(i, p)| self.cons[i][p] >= 1).collect();
        if v.is_empty() {
            let e = self.pick(true);
            self.sink(e);
            e
        } else {
            *self.r.choose(&v)
        }
    }

    /// Add `op` (already randomised) choosing inputs; `push`: Some(true) = try to realise it on the
    /// push side, Some(false) = pull side. Returns the node index, or None if it did not fit.
    fn place(&mut self, op: Op, push: Option<bool>) -> Option<usize> {
        let n_in = match op.n_in() {
            Some(n) => n,
            None => 2 + self.r.below(2),
        };
        let mut ins: Vec<Edge> = vec![];
        let mut attempt = 0;
        loop {
        ins.clear();
        for k in 0..n_in {
            let mut e = if attempt > 0 {
                // the first choice was estimated too large: feed it from small streams
                self.pick_small()
            } else if k == 0 && push == Some(true) {
                self.pick_teed()
            } else {
                let want_open = push == Some(false) || self.r.chance(1, 2);
                self.pick(want_open)
            };
            // special producers
            match (&op, k) {
                (Op::RefSingleton(_), 1) => {
                    // exactly one item per tick: a replaying fold
                    let p = if self.r.chance(1, 2) { P::Tick } else { P::Static };
                    let f = *self.r.choose(&[0u8, 2, 3]);
                    e = (self.add(Op::Fold(p, f), vec![e]), 0);
                }
                (Op::CrossSingleton(_), 1) if self.r.chance(1, 2) => {
                    let f = *self.r.choose(&[0u8, 2]);
                    e = (self.add(Op::Reduce(P::Tick, f), vec![e]), 0);
                }
                _ => {}
            }
            // binary operators: prefer two different streams (a self-zip never has excess, a
            // self-difference is always empty)
            if k == 1 && e == ins[0] && !matches!(op, Op::RefSingleton(_)) {
                for _ in 0..4 {
                    let e2 = if attempt > 0 { self.pick_small() } else { self.pick(false) };
                    if e2 != ins[0] {
                        e = e2;
                        break;
                    }
                }
            }
            if op.needs_ordered(k) {
                e = self.ensure_ordered(e);
            }
            ins.push(e);
        }
        if self.would_fit(&op, &ins) {
            break;
        }
        attempt += 1;
        if attempt >= 3 {
            return None;
        }
        }
        // a non-lazy deferral of a replaying stream would keep `run_available` ticking forever
        let op = if op == Op::DeferTick && !self.snapshot().quiet()[ins[0].0][ins[0].1] { Op::DeferTickLazy } else { op };
        let i = self.add(op, ins);
        if self.cons[i].iter().any(|c| *c >= 3) {
            return Some(i);
        }
        match push {
            Some(true) => {
                // keep the operator at the end of a push chain
                for p in 0..self.nodes[i].op.n_out() {
                    if self.r.chance(2, 3) {
                        self.sink((i, p));
                    }
                }
            }
            Some(false) => {
                if self.nodes[i].op.n_out() == 1 && self.r.chance(2, 3) {
                    // a union partner makes the operator a pull-side node; the partner is a plain
                    // filtered source so that a deviation behind the union is still attributable
                    let src = (self.r.below(self.nsrc), 0);
                    let fp = self.r.below(fns::N_PRED as usize) as u8;
                    let other = (self.add(Op::Filter(fp), vec![src]), 0);
                    if self.would_fit(&Op::Union, &[(i, 0), other]) {
                        self.add(Op::Union, vec![(i, 0), other]);
                    }
                }
            }
            None => {}
        }
        Some(i)
    }

    /// Close every unconsumed output: the first few get their own sink, the rest are unioned.
    fn close(&mut self, max_sinks: usize) {
        let mut open = self.open_edges();
        // also outputs too large to be picked
        for (i, n) in self.nodes.iter().enumerate() {
            for p in 0..n.op.n_out() {
                if self.cons[i][p] == 0 && !open.contains(&(i, p)) {
                    open.push((i, p));
                }
            }
        }
        // every open output gets its own sink: an operator hidden behind a merging union could
        // not be named in a violation signature
        let _ = max_sinks;
        for e in open {
            self.sink(e);
        }
    }

    fn finish(mut self, id: usize, mode: Mode, depth: usize) -> Program {
        self.close(4);
        let p = Program {
            id,
            mode,
            nsrc: self.nsrc,
            nsinks: self.nsinks,
            nodes: self.nodes,
            checks: self.checks,
            depth,
            in_loop: self.in_loop,
        };
        p.topo();
        p
    }
}

pub struct Todo {
    /// (template, push hint)
    pub items: Vec<(Op, Option<bool>)>,
    /// how many of the leading "one instance of every catalogue entry" items are still unplaced
    pub first_pass_left: usize,
}

impl Todo {
    fn new(r: &mut Rng) -> Todo {
        // first one instance of every catalogue entry (random side for unary operators), then the
        // other side of the unary ones
        let mut first = vec![];
        let mut second = vec![];
        for op in catalogue() {
            let unary = op.n_in() == Some(1) && op.n_out() == 1 && !matches!(op, Op::Handoff | Op::MultisetDelta);
            if unary {
                let push = r.chance(1, 2);
                first.push((op.clone(), Some(push)));
                second.push((op, Some(!push)));
            } else {
                first.push((op, None));
            }
        }
        r.shuffle(&mut first);
        r.shuffle(&mut second);
        let n_first = first.len();
        first.extend(second);
        Todo { items: first, first_pass_left: n_first }
    }
    /// Put an item that could not be placed back (at the end of the first-pass region).
    fn requeue(&mut self, op: Op, hint: Option<bool>) {
        let at = self.first_pass_left.min(self.items.len());
        self.items.insert(at, (op, hint));
        self.first_pass_left += 1;
    }
    fn take(&mut self, r: &mut Rng, allow: impl Fn(&Op) -> bool) -> (Op, Option<bool>) {
        if let Some(pos) = self.items.iter().position(|(o, _)| allow(o)) {
            if pos < self.first_pass_left {
                self.first_pass_left -= 1;
            }
            return self.items.remove(pos);
        }
        // everything covered: random catalogue entry
        let c: Vec<Op> = catalogue().into_iter().filter(|o| allow(o)).collect();
        (r.choose(&c).clone(), if r.chance(1, 2) { Some(r.chance(1, 2)) } else { None })
    }
}

fn not_defer(o: &Op) -> bool {
    !o.is_defer()
}

/// `left`: Ops-mode programs still to come (incl. this one); the remaining first-pass to-do items
/// are spread over them so that every run covers the whole catalogue.
fn gen_ops(r: &mut Rng, todo: &mut Todo, id: usize, left: usize) -> Program {
    let nsrc = 1 + r.below(3);
    let need = todo.first_pass_left.div_ceil(left.max(1));
    let n_ops = (5 + r.below(5)).max(need + 1).min(14);
    let mut b = B::new(r, nsrc);
    let mut placed = 0;
    let mut tries = 0;
    while placed < n_ops && tries < 40 {
        tries += 1;
        let (tpl, hint) = todo.take(b.r, not_defer);
        let op = randomize(&tpl, b.r);
        let op = match op {
            Op::Inspect(_) => {
                let k = b.nsinks;
                b.nsinks += 1;
                Op::Inspect(k)
            }
            o => o,
        };
        if b.place(op, hint).is_some() {
            placed += 1;
        } else {
            // did not fit (size): put it back for a later program
            todo.requeue(tpl, hint);
        }
    }
    b.finish(id, Mode::Ops, 0)
}

/// One feeder hop between a same-tick source and a blocking input.
fn hop(b: &mut B, e: Edge) -> Edge {
    let fm = b.r.below(fns::N_MAPF as usize) as u8;
    let fp = b.r.below(fns::N_PRED as usize) as u8;
    let s = (b.r.below(b.nsrc), 0);
    match b.r.below(9) {
        0 => (b.add(Op::Map(fm), vec![e]), 0),
        1 => (b.add(Op::Identity, vec![e]), 0),
        2 | 3 => (b.add(Op::Handoff, vec![e]), 0),
        4 => {
            // tee: one arm observed, the other continues
            b.sink_or_null(e);
            (b.add(Op::Identity, vec![e]), 0)
        }
        5 => {
            // union with a second (filtered) copy of a source
            let f = (b.add(Op::Filter(fp), vec![s]), 0);
            (b.add(Op::Union, vec![e, f]), 0)
        }
        6 => (b.add(Op::Union, vec![e]), 0),
        7 => (b.add(Op::Sort, vec![e]), 0),
        _ => (b.add(Op::FoldVec(P::Tick), vec![e]), 0),
    }
}

impl<'r> B<'r> {
    fn sink_or_null(&mut self, e: Edge) {
        if self.nsinks < 2 && self.r.chance(1, 2) {
            self.sink(e);
        } else {
            self.add(Op::Null, vec![e]);
        }
    }
}

fn rp(r: &mut Rng) -> P {
    if r.chance(1, 2) { P::Tick } else { P::Static }
}

/// Number of deep-feeder target kinds (see `deep_target`).
const DEEP_KINDS: usize = 12;

/// `c` = running number of the deep-feeder program: target kinds and feeder depths rotate with it so
/// that every run covers all kinds and depths.
fn gen_deep(r: &mut Rng, todo: &mut Todo, id: usize, c: usize) -> Program {
    let nsrc = 1 + r.below(2);
    let mut b = B::new(r, nsrc);
    let depth = 1 + (c % 6);
    deep_target(&mut b, todo, (2 * c) % DEEP_KINDS, depth, true);
    let depth2 = 1 + b.r.below(6);
    deep_target(&mut b, todo, (2 * c + 1) % DEEP_KINDS, depth2, false);
    // downstream: 0..2 more operators from the to-do list
    for _ in 0..b.r.below(3) {
        let (tpl, hint) = todo.take(b.r, |o| not_defer(o) && !matches!(o, Op::Inspect(_)));
        let op = randomize(&tpl, b.r);
        if b.place(op, hint).is_none() {
            todo.requeue(tpl, hint);
        }
    }
    b.finish(id, Mode::Deep, depth)
}

fn deep_target(b: &mut B, todo: &mut Todo, kind: usize, depth: usize, probes: bool) {
    let nsrc = b.nsrc;
    // feeder for the blocking input
    let mut e: Edge = (0, 0);
    for _ in 0..depth {
        e = hop(b, e);
    }
    // the other input: same source (same-tick relation) or the other one, 0..2 hops
    let mut other: Edge = if b.r.chance(2, 3) { (0, 0) } else { (b.r.below(nsrc), 0) };
    for _ in 0..b.r.below(3) {
        other = hop(b, other);
    }
    let probes = probes || b.r.chance(1, 2);
    let _out: Edge = match kind {
        0 => {
            let (pp, pn, f) = (rp(b.r), rp(b.r), b.r.below(2) as u8);
            let n = b.add(Op::AntiJoin(pp, pn, f), vec![other, e]);
            if probes {
                let ns = b.sink(e);
                let os = b.sink((n, 0));
                b.checks.push(Check::NegExcluded {
                    node: n,
                    neg_sink: ns,
                    out_sink: os,
                    neg_static: pn == P::Static,
                    by_key: Some(f),
                });
            }
            (n, 0)
        }
        1 => {
            let (pp, pn) = (rp(b.r), rp(b.r));
            let n = b.add(Op::Difference(pp, pn), vec![other, e]);
            if probes {
                let ns = b.sink(e);
                let os = b.sink((n, 0));
                b.checks.push(Check::NegExcluded {
                    node: n,
                    neg_sink: ns,
                    out_sink: os,
                    neg_static: pn == P::Static,
                    by_key: None,
                });
            }
            (n, 0)
        }
        2 => {
            let p = rp(b.r);
            let n = b.add(Op::Fold(p, 3), vec![e]);
            if probes {
                let is = b.sink(e);
                let os = b.sink((n, 0));
                b.checks.push(Check::Counted { node: n, in_sink: is, out_sink: os, is_static: p == P::Static });
            }
            (n, 0)
        }
        3 => {
            let n = b.add(Op::Sort, vec![e]);
            if probes {
                let is = b.sink(e);
                let os = b.sink((n, 0));
                b.checks.push(Check::Sorted { node: n, in_sink: is, out_sink: os });
            }
            (n, 0)
        }
        4 => {
            let f = b.r.below(2) as u8;
            let (fp, ff) = (rp(b.r), *b.r.choose(&[0u8, 2, 3]));
            let prod = (b.add(Op::Fold(fp, ff), vec![e]), 0);
            (b.add(Op::RefSingleton(f), vec![other, prod]), 0)
        }
        5 => {
            let f = b.r.below(2) as u8;
            (b.add(Op::RefHandoff(f), vec![other, e]), 0)
        }
        6 => {
            let p = rp(b.r);
            let f = *b.r.choose(&[0u8, 2]);
            let single = (b.add(Op::Reduce(P::Tick, f), vec![e]), 0);
            (b.add(Op::CrossSingleton(p), vec![other, single]), 0)
        }
        7 => {
            let (pb, pp) = (rp(b.r), rp(b.r));
            (b.add(Op::JoinMultisetHalf(pb, pp, 0), vec![e, other]), 0)
        }
        8 => (b.add(Op::DeferSignal, vec![other, e]), 0),
        9 => (b.add(Op::Persist, vec![e]), 0),
        _ => {
            // any accumulator / blocking unary from the to-do list
            let (tpl, _) = todo.take(b.r, |o| {
                matches!(
                    o,
                    Op::Fold(..)
                        | Op::FoldNoReplay(..)
                        | Op::Reduce(..)
                        | Op::ReduceNoReplay(..)
                        | Op::FoldKeyed(..)
                        | Op::ReduceKeyed(..)
                        | Op::LatticeFold(..)
                        | Op::LatticeReduce(..)
                        | Op::SortByKey(_)
                        | Op::MultisetDelta
                        | Op::Unique(_)
                )
            });
            let op = randomize(&tpl, b.r);
            let e2 = if op.needs_ordered(0) { b.ensure_ordered(e) } else { e };
            (b.add(op, vec![e2]), 0)
        }
    };

}

fn gen_defer(r: &mut Rng, todo: &mut Todo, id: usize, c: usize) -> Program {
    let nsrc = 1 + r.below(2);
    let mut b = B::new(r, nsrc);
    let mut e: Edge = (0, 0);
    if b.r.chance(1, 3) {
        let fm = b.r.below(fns::N_MAPF as usize) as u8;
        e = (b.add(Op::Map(fm), vec![e]), 0);
    }
    // optional decaying cycle: u = union(e, defer(decay(u)))
    if c % 2 == 0 {
        let base = b.nodes.len();
        let n_def = 1 + b.r.below(2);
        // indices: base = union, base+1 = decay, base+2.. = deferrals
        let last_defer = base + 1 + n_def;
        b.add(Op::Union, vec![e, (last_defer, 0)]);
        b.add(Op::Decay, vec![(base, 0)]);
        let mut prev = base + 1;
        for _ in 0..n_def {
            let op = if b.r.chance(1, 3) { Op::DeferTickLazy } else { Op::DeferTick };
            prev = b.add(op, vec![(prev, 0)]);
        }
        assert_eq!(prev, last_defer);
        // `add` could not count the forward reference
        b.cons[last_defer][0] += 1;
        e = (base, 0);
    }
    // straight chain of d deferrals with probes at both ends
    let d = 1 + (c / 2) % 4;
    let entry = e;
    let mut cur = e;
    for _ in 0..d {
        let op = if b.r.chance(1, 3) { Op::DeferTickLazy } else { Op::DeferTick };
        cur = (b.add(op, vec![cur]), 0);
    }
    let es = b.sink(entry);
    let xs = b.sink(cur);
    b.checks.push(Check::Deferred { entry_sink: es, exit_sink: xs, d });
    // stateful consumers ('tick and 'static) of deferred and direct data
    let n_ops = 1 + b.r.below(4);
    let mut placed = 0;
    let mut tries = 0;
    while placed < n_ops && tries < 20 {
        tries += 1;
        let (tpl, hint) = todo.take(b.r, |o| {
            !matches!(o, Op::Inspect(_))
                && (o.is_defer()
                    || !o.persistence().is_empty()
                    || matches!(o, Op::MultisetDelta | Op::DeferSignal | Op::Union | Op::Sort))
        });
        let op = randomize(&tpl, b.r);
        if b.place(op, hint).is_some() {
            placed += 1;
        } else {
            todo.requeue(tpl, hint);
        }
    }
    b.close(5);
    // wake-up sink: turn one sink on a quiet edge into a waker
    if c % 3 != 2 {
        let snap = b.snapshot();
        let q = snap.quiet();
        let cands: Vec<usize> = (0..b.nodes.len())
            .filter(|&i| match &b.nodes[i].op {
                Op::Sink(_, None) => {
                    let (j, p) = b.nodes[i].ins[0];
                    q[j][p]
                }
                _ => false,
            })
            .collect();
        if !cands.is_empty() {
            let i = *b.r.choose(&cands);
            if let Op::Sink(k, None) = b.nodes[i].op.clone() {
                let wf = b.r.below(2) as u8;
                b.nodes[i].op = Op::Sink(k, Some(wf));
            }
        }
    }
    b.finish(id, Mode::Defer, d)
}

/// C24 shape with a root-level `loop { }` block: sources enter through `batch()`, inside the block a
/// decaying cycle through deferrals (the counter dies out) and a straight deferral chain with probes;
/// everything downstream stays inside the block. `lc` = running number of the loop program.
fn gen_defer_loop(r: &mut Rng, id: usize, lc: usize) -> Program {
    let nsrc = 1 + r.below(2);
    let mut b = B::new(r, nsrc);
    let mut src: Edge = (0, 0);
    if b.r.chance(1, 2) {
        let fm = b.r.below(fns::N_MAPF as usize) as u8;
        src = (b.add(Op::Map(fm), vec![src]), 0);
    }
    b.loop_mode = true;
    let bt = (b.add(Op::Batch, vec![src]), 0);
    // decaying cycle: u = union(batch, defer(...defer(decay(u))))
    let cycle_lazy = lc % 2 == 1;
    let base = b.nodes.len();
    let n_def = 1 + (lc / 2) % 2;
    let last_defer = base + 1 + n_def;
    b.add(Op::Union, vec![bt, (last_defer, 0)]);
    b.add(Op::Decay, vec![(base, 0)]);
    let mut prev = base + 1;
    for k in 0..n_def {
        // a lazy cycle has all its deferrals lazy (negative case); otherwise at most the first is lazy
        let lazy = cycle_lazy || (k == 0 && n_def == 2 && b.r.chance(1, 3));
        prev = b.add(if lazy { Op::DeferTickLazy } else { Op::DeferTick }, vec![(prev, 0)]);
    }
    assert_eq!(prev, last_defer);
    b.cons[last_defer][0] += 1;
    // With a lazy cycle the eager chain hangs off the batch entry, so that it drains while the cycle
    // still holds (lazy-only) data: `run_available` must then stop.
    let e: Edge = if cycle_lazy { bt } else { (base, 0) };
    // straight chain of d deferrals with probes at both ends
    let d = 1 + (lc / 2) % 3;
    let lazy_at = if (lc / 4) % 2 == 1 { Some(b.r.below(d)) } else { None };
    let mut cur = e;
    for k in 0..d {
        let op = if lazy_at == Some(k) { Op::DeferTickLazy } else { Op::DeferTick };
        cur = (b.add(op, vec![cur]), 0);
    }
    let es = b.sink(e);
    let xs = b.sink(cur);
    if cycle_lazy {
        b.sink((base, 0));
    }
    if lazy_at.is_none() {
        // inside a root-level loop a lazy deferral waits for the block to fire again, so the tick
        // arithmetic exit[t + d] == entry[t] is only documented for all-eager chains
        b.checks.push(Check::Deferred { entry_sink: es, exit_sink: xs, d });
    }
    // a few stateless consumers inside the block
    let fm = b.r.below(fns::N_MAPF as usize) as u8;
    let m = (b.add(Op::Map(fm), vec![cur]), 0);
    if nsrc == 2 {
        let bt2 = (b.add(Op::Batch, vec![(1, 0)]), 0);
        let u = (b.add(Op::Union, vec![m, bt2]), 0);
        let fp = b.r.below(fns::N_PRED as usize) as u8;
        b.add(Op::Filter(fp), vec![u]);
    }
    b.finish(id, Mode::Defer, d)
}

/// How the `n` programs of a run are split over the three modes.
pub fn mode_of(i: usize) -> Mode {
    // rotate so that every shard (i % 8) gets programs of every mode
    match (i + i / 8) % 4 {
        0 | 1 => Mode::Ops,
        2 => Mode::Deep,
        _ => Mode::Defer,
    }
}

pub fn generate(seed: u64, n: usize) -> Vec<Program> {
    let mut r = Rng::new(seed ^ 0xD0F1_4C0D_E5EED);
    let mut todo = Todo::new(&mut r);
    let mut out = vec![];
    let (mut n_deep, mut n_defer) = (0, 0);
    let mut ops_left = (0..n).filter(|i| mode_of(*i) == Mode::Ops).count();
    for id in 0..n {
        let mut pr = r.fork(id as u64 + 1);
        let p = match mode_of(id) {
            Mode::Ops => {
                ops_left -= 1;
                gen_ops(&mut pr, &mut todo, id, ops_left + 1)
            }
            Mode::Deep => {
                n_deep += 1;
                gen_deep(&mut pr, &mut todo, id, n_deep - 1)
            }
            Mode::Defer => {
                n_defer += 1;
                let c = n_defer - 1;
                // every third deferral program uses a root-level loop block
                if c % 3 == 1 { gen_defer_loop(&mut pr, id, c / 3) } else { gen_defer(&mut pr, &mut todo, id, c) }
            }
        };
        out.push(p);
    }
    LEFTOVER.with(|l| *l.borrow_mut() = todo.items.iter().take(todo.first_pass_left).map(|(o, _)| cover_key(o)).collect());
    out
}

thread_local! {
    /// Catalogue entries the last `generate` call could not place (reported by build.rs).
    pub static LEFTOVER: std::cell::RefCell<Vec<String>> = const { std::cell::RefCell::new(Vec::new()) };
}
