//! Pure user-level functions shared by the generated programs (called from the closures passed to
//! the DFIR operators) and by the reference interpreter. They are *user code* from the point of view
//! of the code under test; sharing them guarantees both sides apply identical closures.
//!
//! All items are `(i64, i64)`: keys in `0..KMOD`, values in `0..VMOD`.

pub type It = (i64, i64);

pub const KMOD: i64 = 4;
pub const VMOD: i64 = 11;

#[inline]
pub fn nm(k: i64, v: i64) -> It {
    (k.rem_euclid(KMOD), v.rem_euclid(VMOD))
}

// ---------------------------------------------------------------------------------------------
// stateless element functions

pub const N_MAPF: u8 = 6;
pub fn mapf(f: u8, x: It) -> It {
    let (k, v) = x;
    match f % N_MAPF {
        0 => nm(k, v + 1),
        1 => nm(v, k),
        2 => nm(k + v, v),
        3 => nm(k, v * 2 + k),
        4 => nm(0, v),
        _ => nm(k + 1, v / 2),
    }
}

pub const N_PRED: u8 = 4;
pub fn pred(f: u8, x: &It) -> bool {
    let (k, v) = *x;
    match f % N_PRED {
        0 => v % 2 == 0,
        1 => k != 0,
        2 => v > 2,
        _ => (k + v) % 3 != 0,
    }
}

pub fn filter_mapf(f: u8, x: It) -> Option<It> {
    if pred(f, &x) { Some(mapf(f.wrapping_add(1), x)) } else { None }
}

pub const N_FLAT: u8 = 3;
pub fn flatf(f: u8, x: It) -> Vec<It> {
    let (k, v) = x;
    match f % N_FLAT {
        0 => vec![x, nm(k + 1, v + 3)],
        1 => (0..(v % 3)).map(|i| nm(k, v + i)).collect(),
        _ => {
            if k == 0 {
                vec![]
            } else {
                vec![nm(k, v), nm(k, v), nm(0, k)]
            }
        }
    }
}

/// Strictly decaying map used inside `defer_tick` cycles (together with `decay_keep`), so every
/// cycle dies out after at most VMOD rounds.
pub fn decay(x: It) -> It {
    (x.0, x.1 - 1)
}
pub fn decay_keep(x: &It) -> bool {
    x.1 > 0
}

// ---------------------------------------------------------------------------------------------
// accumulators over items

pub const N_FOLD: u8 = 4;
/// fold/reduce step. 0 = sum (commutative), 1 = order-sensitive polynomial, 2 = max (commutative),
/// 3 = count (commutative).
pub fn foldf(f: u8, acc: &mut It, x: It) {
    *acc = match f % N_FOLD {
        0 => nm(acc.0 + x.0, acc.1 + x.1),
        1 => nm(acc.0 * 3 + x.0 + 1, acc.1 * 2 + x.1 + 1),
        2 => (acc.0.max(x.0), acc.1.max(x.1)),
        _ => nm(acc.0, acc.1 + 1),
    };
}
pub fn fold_commutative(f: u8) -> bool {
    f % N_FOLD != 1
}
/// As a *reduce* (the first item is the accumulator) counting also depends on which item is first.
pub fn reduce_commutative(f: u8) -> bool {
    matches!(f % N_FOLD, 0 | 2)
}
pub fn fold_init(f: u8) -> It {
    match f % N_FOLD {
        0 => (0, 0),
        1 => (1, 2),
        2 => (0, 0),
        _ => (0, 0),
    }
}

pub const N_KFOLD: u8 = 4;
/// keyed fold/reduce step over values. 1 is order-sensitive.
pub fn kfoldf(f: u8, acc: &mut i64, v: i64) {
    *acc = match f % N_KFOLD {
        0 => (*acc + v).rem_euclid(VMOD),
        1 => (*acc * 2 + v + 1).rem_euclid(VMOD),
        2 => (*acc).max(v),
        _ => (*acc + 1).rem_euclid(VMOD),
    };
}
pub fn kfold_commutative(f: u8) -> bool {
    f % N_KFOLD != 1
}
pub fn kreduce_commutative(f: u8) -> bool {
    matches!(f % N_KFOLD, 0 | 2)
}
pub fn kfold_init(f: u8) -> i64 {
    match f % N_KFOLD {
        1 => 3,
        _ => 0,
    }
}
/// `FoldFrom` initialiser (accumulator derived from the first value).
pub fn kfold_from(f: u8, v: i64) -> i64 {
    match f % N_KFOLD {
        0 => (v + 3).rem_euclid(VMOD),
        1 => (v * 2 + 1).rem_euclid(VMOD),
        2 => v,
        _ => 1,
    }
}

pub const N_SCAN: u8 = 3;
/// scan step. 0 = running sum; 1 = running (unbounded, non-decreasing) sum that yields `None`
/// once it exceeds a threshold (monotone: once `None`, always `None`); 2 = `None` on value 0
/// (data dependent, only used with `'tick`).
pub fn scanf(f: u8, acc: &mut It, x: It) -> Option<It> {
    match f % N_SCAN {
        0 => {
            *acc = nm(acc.0 + x.0, acc.1 + x.1);
            Some(*acc)
        }
        1 => {
            acc.1 = acc.1.saturating_add(x.1.abs());
            acc.0 = x.0;
            if acc.1 > 9 { None } else { Some(nm(acc.0, acc.1)) }
        }
        _ => {
            if x.1 == 0 {
                None
            } else {
                *acc = nm(acc.0 + 1, acc.1 * 2 + x.1);
                Some(*acc)
            }
        }
    }
}

// ---------------------------------------------------------------------------------------------
// sort keys

/// `sort_by_key` sorts by a *field reference* (0: key field, 1: value field, 2: whole item) with an
/// unstable sort, so for the non-injective keys 0/1 the harness projects the output to the sort key
/// (ties become equal items and the documented result is a fixed sequence).
pub fn sort_proj(f: u8, x: It) -> It {
    match f % 3 {
        0 => (x.0, 0),
        1 => (0, x.1),
        _ => x,
    }
}

// ---------------------------------------------------------------------------------------------
// normalisers after shape-changing operators

pub fn norm_enum(i: usize, x: It) -> It {
    nm(x.0 + i as i64, x.1 + 2 * i as i64)
}
pub fn norm2(a: It, b: It) -> It {
    nm(a.0 + 3 * b.0, a.1 * 5 + b.1 * 3 + a.0 + 1)
}
pub fn norm_left(a: It) -> It {
    nm(a.0, a.1 + 7)
}
pub fn norm_right(b: It) -> It {
    nm(b.0 + 1, b.1 + 9)
}
pub fn norm_join(k: i64, a: i64, b: i64) -> It {
    nm(k, a * 5 + b * 3 + 1)
}
/// join_multiset_half output `(k, (probe_v, build_v))`; variant 1 drops the build value so the
/// output sequence depends on the probe order only.
pub fn norm_half(variant: u8, k: i64, probe_v: i64, build_v: i64) -> It {
    match variant % 2 {
        0 => nm(k, probe_v * 5 + build_v * 3 + 2),
        _ => nm(k, probe_v),
    }
}
/// Key extractor for the negative side of anti_join.
pub fn negkey(f: u8, x: It) -> i64 {
    match f % 2 {
        0 => x.0,
        _ => x.1.rem_euclid(KMOD),
    }
}
pub fn to_pair(x: It) -> (It, It) {
    (nm(x.0, x.1 + 1), nm(x.1, x.0))
}
pub fn partf(f: u8, x: &It, n: usize) -> usize {
    let (k, v) = *x;
    (match f % 3 {
        0 => k,
        1 => v,
        _ => k + v,
    })
    .rem_euclid(n as i64) as usize
}

/// Which demux output (0 = A, 1 = B, 2 = C) an item goes to, and the item as seen after the
/// harness's normalising map on that output.
pub fn dm_route(f: u8, x: It) -> (usize, It) {
    match partf(f, &x, 3) {
        0 => (0, nm(x.0, x.1 + 1)),
        1 => (1, nm(x.0 + 1, x.1)),
        _ => (2, x),
    }
}

// ---------------------------------------------------------------------------------------------
// reference readers

/// `map` closure reading a `#singleton` of type `&It`.
pub fn ref_single(f: u8, x: It, s: &It) -> It {
    match f % 2 {
        0 => nm(x.0 + s.0, x.1 + s.1),
        _ => nm(x.0, x.1 * 2 + s.1 + s.0),
    }
}
/// `map` closure reading a `#handoff` of type `&Vec<It>` (order-insensitive on the vector).
pub fn ref_vec(f: u8, x: It, h: &[It]) -> It {
    match f % 2 {
        0 => nm(x.0, x.1 + h.len() as i64),
        _ => nm(x.0, x.1 + 2 * h.iter().filter(|y| y.0 == x.0).count() as i64 + h.iter().map(|y| y.1).sum::<i64>()),
    }
}

/// Sink predicate: fire `context.waker()` (an external wake-up) when it holds.
pub fn wake_pred(f: u8, x: &It) -> bool {
    match f % 2 {
        0 => x.1 % 4 == 3,
        _ => x.0 == 2 && x.1 % 2 == 1,
    }
}
