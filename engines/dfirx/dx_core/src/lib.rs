//! dx_core: execution-level monitors for DFIR (C21 operator semantics, C23 blocking inputs,
//! C24 ticks and deferral). See `/verif/DESIGN.md` §3 and `CONVENTIONS-ENGINES.md`.

pub mod ast;
pub mod emit;
pub mod fns;
pub mod fnsx;
pub mod pgen;
pub mod monitor;
pub mod refint;
pub mod run;

pub const SHARDS: usize = 8;

/// A compiled generated program: builds a fresh dataflow, drives it with the history, returns
/// what it did.
pub type ProgFn = fn(&run::History) -> run::Trace;
