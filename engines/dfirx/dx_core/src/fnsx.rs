//! Helper items for generated programs that need `dfir_rs` types (kept out of `fns.rs`, which is
//! also compiled into the build script).

use crate::fns::{It, partf};

#[derive(Clone, Debug, PartialEq, Eq, dfir_rs::util::demux_enum::DemuxEnum)]
pub enum Dm {
    A(i64, i64),
    B { k: i64, v: i64 },
    C(It),
}
pub fn to_dm(f: u8, x: It) -> Dm {
    match partf(f, &x, 3) {
        0 => Dm::A(x.0, x.1),
        1 => Dm::B { k: x.0, v: x.1 },
        _ => Dm::C(x),
    }
}

pub fn norm_eob(e: dfir_rs::itertools::EitherOrBoth<It, It>) -> It {
    use dfir_rs::itertools::EitherOrBoth::*;
    match e {
        Both(a, b) => crate::fns::norm2(a, b),
        Left(a) => crate::fns::norm_left(a),
        Right(b) => crate::fns::norm_right(b),
    }
}
