//! The monitor proper: histories, comparison with the reference interpreter, direct invariants,
//! reporting. One binary per shard of generated programs; `vlib/drv_dxcore.py` merges the shards.

use std::collections::{BTreeMap, HashMap};

use vcommon::{Args, Reporter, Rng, Tier, hash_of, json};

use crate::ProgFn;
use crate::ast::*;
use crate::fns::{self, It};
use crate::pgen;
use crate::refint::{self, RefOut};
use crate::run::{History, Step, Trace};

const CAP_PER_AVAIL: u64 = 64;

// ---------------------------------------------------------------------------------------------
// histories

fn rand_item(r: &mut Rng) -> It {
    // small key/value domains so joins, uniques and anti-joins are non-trivial
    let k = if r.chance(3, 4) { r.below(3) } else { 3 } as i64;
    let v = r.below(5) as i64;
    (k, v)
}

fn rand_batch(r: &mut Rng) -> Vec<It> {
    let n = match r.below(8) {
        0 | 1 => 0,
        2..=5 => 1 + r.below(3),
        _ => 4 + r.below(3),
    };
    (0..n).map(|_| rand_item(r)).collect()
}

fn flush_steps(p: &Program) -> usize {
    2 + p.max_defer_chain()
}

/// `avail_mode`: 0 = run_tick_sync only, 1 = run_available_sync only, 2 = mixed.
fn finish_history(p: &Program, mut ticks: Vec<Vec<Vec<It>>>, avail_mode: u8, r: &mut Rng) -> Vec<Step> {
    for _ in 0..flush_steps(p) {
        ticks.push(vec![vec![]; p.nsrc]);
    }
    ticks
        .into_iter()
        .map(|inputs| Step {
            inputs,
            avail: match avail_mode {
                0 => false,
                1 => true,
                _ => r.chance(1, 2),
            },
        })
        .collect()
}

/// The small sub-space enumerated completely for every program: 2 ticks, per source and tick
/// one of `batches` (nsrc = 1: <= 2 items over a 2-letter alphabet; nsrc = 2: <= 1 item over 2
/// letters; nsrc = 3: <= 1 item over 1 letter).
fn exhaustive_ticks(nsrc: usize) -> Vec<Vec<Vec<Vec<It>>>> {
    let a: It = (0, 1);
    let b: It = (1, 2);
    let batches: Vec<Vec<It>> = match nsrc {
        1 => vec![vec![], vec![a], vec![b], vec![a, a], vec![a, b], vec![b, a], vec![b, b]],
        2 => vec![vec![], vec![a], vec![b]],
        _ => vec![vec![], vec![a]],
    };
    // all assignments of a batch to (tick, source)
    let slots = 2 * nsrc;
    let mut out = vec![];
    let mut idx = vec![0usize; slots];
    loop {
        let mut ticks = vec![];
        for t in 0..2 {
            ticks.push((0..nsrc).map(|s| batches[idx[t * nsrc + s]].clone()).collect::<Vec<_>>());
        }
        out.push(ticks);
        let mut k = 0;
        loop {
            if k == slots {
                return out;
            }
            idx[k] += 1;
            if idx[k] < batches.len() {
                break;
            }
            idx[k] = 0;
            k += 1;
        }
    }
}

fn histories(p: &Program, prop: &str, count: usize, r: &mut Rng) -> (Vec<Vec<Step>>, usize) {
    let mut hs = vec![];
    let c24 = prop == "C24";
    let ex = exhaustive_ticks(p.nsrc);
    let n_ex = ex.len();
    for ticks in ex {
        let mode = if c24 { 1 } else { 0 };
        hs.push(finish_history(p, ticks, mode, r));
    }
    while hs.len() < count.max(n_ex) {
        let t = 1 + r.below(6);
        let ticks: Vec<Vec<Vec<It>>> = (0..t).map(|_| (0..p.nsrc).map(|_| rand_batch(r)).collect()).collect();
        let mode = if c24 { r.below(3) as u8 } else { 0 };
        hs.push(finish_history(p, ticks, mode, r));
    }
    (hs, n_ex)
}

// ---------------------------------------------------------------------------------------------
// comparison helpers

fn by_tick(v: &[(u64, It)], nticks: u64) -> Vec<Vec<It>> {
    let mut out = vec![vec![]; nticks as usize + 1];
    for (t, x) in v {
        let t = (*t).min(nticks) as usize;
        out[t].push(*x);
    }
    out
}

fn sorted(mut v: Vec<It>) -> Vec<It> {
    v.sort();
    v
}

fn is_submultiset(a: &[It], b: &[It]) -> bool {
    let mut m: HashMap<It, i64> = HashMap::new();
    for x in b {
        *m.entry(*x).or_default() += 1;
    }
    for x in a {
        let c = m.entry(*x).or_default();
        *c -= 1;
        if *c < 0 {
            return false;
        }
    }
    true
}

/// Is everything upstream of `e` a plain chain of map/filter/identity/inspect from a source?
fn trivial_chain(p: &Program, mut e: Edge) -> bool {
    for _ in 0..64 {
        let nd = &p.nodes[e.0];
        match nd.op {
            Op::Source(_) => return true,
            Op::Map(_) | Op::Identity | Op::Filter(_) | Op::Inspect(_) => e = nd.ins[0],
            _ => return false,
        }
    }
    false
}

/// The nearest operator upstream of `e` that is not a trivial pass-through: the site named in a
/// violation signature. A union with exactly one non-trivial input is looked through.
fn site_of(p: &Program, mut e: Edge) -> String {
    for _ in 0..64 {
        let nd = &p.nodes[e.0];
        match nd.op {
            Op::Map(_) | Op::Identity | Op::Filter(_) | Op::Inspect(_) | Op::Source(_) if !nd.ins.is_empty() => {
                e = nd.ins[0]
            }
            Op::Union => {
                let nontrivial: Vec<Edge> = nd.ins.iter().copied().filter(|&i| !trivial_chain(p, i)).collect();
                if nontrivial.len() == 1 {
                    e = nontrivial[0];
                } else {
                    return pgen::cover_key(&nd.op);
                }
            }
            _ => return pgen::cover_key(&nd.op),
        }
    }
    "?".to_string()
}

fn sink_nodes(p: &Program) -> Vec<Option<usize>> {
    let mut v = vec![None; p.nsinks];
    for (i, nd) in p.nodes.iter().enumerate() {
        match nd.op {
            Op::Sink(k, _) | Op::Inspect(k) => v[k] = Some(i),
            _ => {}
        }
    }
    v
}

struct Diff {
    sink: usize,
    tick: usize,
    kind: &'static str,
    real: Vec<It>,
    reference: Vec<It>,
}

/// Compare the per-tick sink outputs: as sequences where the documented order is fixed,
/// otherwise as multisets. Returns, for every deviating sink (in evaluation order), its first
/// deviating tick.
fn compare(p: &Program, rf: &RefOut, tr: &Trace) -> Vec<Diff> {
    let mut diffs = vec![];
    let ord = p.ordered();
    let sn = sink_nodes(p);
    let nt = rf.total_ticks;
    // sinks in topological order of their nodes
    let topo = p.topo();
    let mut sink_order: Vec<usize> = (0..p.nsinks).collect();
    sink_order.sort_by_key(|k| sn[*k].map(|n| topo.iter().position(|x| *x == n).unwrap()).unwrap_or(usize::MAX));
    for k in sink_order {
        let Some(node) = sn[k] else { continue };
        let e = p.nodes[node].ins[0];
        let is_ordered = ord[e.0][e.1];
        let real = by_tick(tr.sinks.get(k).map(|v| v.as_slice()).unwrap_or(&[]), nt);
        let refr = by_tick(&rf.sinks[k], nt);
        for t in 0..real.len() {
            let same = if is_ordered { real[t] == refr[t] } else { sorted(real[t].clone()) == sorted(refr[t].clone()) };
            if same {
                continue;
            }
            let all_real: Vec<It> = sorted(real.iter().flatten().copied().collect());
            let all_ref: Vec<It> = sorted(refr.iter().flatten().copied().collect());
            let kind = if sorted(real[t].clone()) == sorted(refr[t].clone()) {
                "wrong-order"
            } else if all_real == all_ref {
                "wrong-tick"
            } else if is_submultiset(&real[t], &refr[t]) {
                "missing-items"
            } else if is_submultiset(&refr[t], &real[t]) {
                "extra-items"
            } else {
                "different-items"
            };
            diffs.push(Diff { sink: k, tick: t, kind, real: real[t].clone(), reference: refr[t].clone() });
            break;
        }
    }
    diffs
}

fn panic_class(msg: &str) -> String {
    let s: String = msg.chars().filter(|c| !c.is_ascii_digit()).take(60).collect();
    s.trim().to_string()
}

// ---------------------------------------------------------------------------------------------
// replay descriptors

fn case_json(prop: &str, gen_seed: u64, gen_n: usize, p: &Program, steps: &[Step], extra: vcommon::Value) -> vcommon::Value {
    json!({
        "engine": "dx_core", "prop": prop, "gen_seed": gen_seed, "gen_n": gen_n,
        "program": p.id, "mode": p.mode.s(),
        "history": steps.iter().map(|s| json!({"inputs": s.inputs, "avail": s.avail})).collect::<Vec<_>>(),
        "program_text": crate::emit::dfir_text(p),
        "detail": extra,
    })
}

fn steps_from_json(v: &vcommon::Value) -> Vec<Step> {
    v["history"]
        .as_array()
        .expect("history")
        .iter()
        .map(|s| Step {
            avail: s["avail"].as_bool().unwrap_or(false),
            inputs: s["inputs"]
                .as_array()
                .unwrap()
                .iter()
                .map(|src| {
                    src.as_array()
                        .unwrap()
                        .iter()
                        .map(|it| (it[0].as_i64().unwrap(), it[1].as_i64().unwrap()))
                        .collect()
                })
                .collect(),
        })
        .collect()
}

// ---------------------------------------------------------------------------------------------
// judging one (program, history)

struct Ctx<'a> {
    prop: &'a str,
    gen_seed: u64,
    gen_n: usize,
}

fn judge(cx: &Ctx, rep: &mut Reporter, p: &Program, f: ProgFn, steps: &[Step], describe: bool) -> Trace {
    let prop = cx.prop;
    let rf = refint::interpret(p, steps, CAP_PER_AVAIL);
    let h = History { steps: steps.to_vec(), tick_cap: rf.total_ticks + 2, describe };
    let tr = f(&h);
    let case = |extra: vcommon::Value| case_json(prop, cx.gen_seed, cx.gen_n, p, steps, extra);

    if std::env::var("DX_DUMP").ok().and_then(|v| v.parse::<usize>().ok()) == Some(p.id) {
        eprintln!("--- program {}\n{}steps: {:?}\nref ticks {} real steps {:?}\nref sinks: {:?}\nreal sinks: {:?}\npanic: {:?}",
            p.id, crate::emit::dfir_text(p), steps, rf.total_ticks, tr.steps, rf.sinks, tr.sinks, tr.panic);
    }

    // --- panics
    rep.eval();
    if let Some(msg) = &tr.panic {
        if msg.contains("tick cap exceeded") {
            rep.violation(
                &format!("{prop}|run_available_sync|does-not-stop"),
                &format!("program {} started more than {} ticks (reference: {}) and was cut off", p.id, h.tick_cap, rf.total_ticks),
                case(json!({"reference_ticks": rf.total_ticks})),
            );
        } else {
            rep.violation(
                &format!("{prop}|program|panic|{}", panic_class(msg)),
                &format!("program {} panicked: {}", p.id, msg),
                case(json!({"panic": msg})),
            );
        }
        return tr;
    }

    // --- tick counter (all properties observe it; only C24 owns the verdict on scheduling)
    let mut ticks_ok = true;
    if prop == "C24" {
        for (i, (so, (rb, ra))) in tr.steps.iter().zip(rf.steps.iter()).enumerate() {
            rep.eval();
            let ran = so.tick_after - so.tick_before;
            let want = ra - rb;
            if let Some(started) = so.ticks_started {
                rep.eval();
                if started != ran {
                    ticks_ok = false;
                    rep.violation(
                        "C24|current_tick|counter-differs-from-executed-ticks",
                        &format!("program {} step {i}: {} ticks were started but current_tick advanced by {}", p.id, started, ran),
                        case(json!({"step": i, "ticks_started": started, "counter_delta": ran})),
                    );
                }
            }
            if ran != want {
                ticks_ok = false;
                let (site, kind) = if !steps[i].avail {
                    ("run_tick_sync", "counter-not-plus-one")
                } else if ran < want {
                    ("run_available_sync", "stopped-with-pending-work")
                } else {
                    ("run_available_sync", "extra-tick")
                };
                rep.violation(
                    &format!("C24|{site}|{kind}"),
                    &format!("program {} step {i} (avail={}): ran {} tick(s), documented contract gives {}", p.id, steps[i].avail, ran, want),
                    case(json!({"step": i, "ran": ran, "reference": want})),
                );
                break;
            }
        }
        if rf.multi_tick_avail {
            rep.count("c24_avail_multi_tick");
        }
        if rf.lazy_held {
            rep.count("c24_lazy_held_at_stop");
        }
        if rf.wake_fired {
            rep.count("c24_wake_fired");
        }
        if rf.loop_defer_multi {
            rep.count("c24_loop_defer_avail_multi_tick");
        }
        if rf.loop_lazy_held {
            rep.count("c24_loop_lazy_held_at_stop");
        }
    }

    // --- reference equality of every sink
    // (skipped when the executed ticks already deviate: per-tick outputs are then misaligned and
    // would only repeat the scheduling violation under many operator names)
    rep.eval();
    for d in if ticks_ok { compare(p, &rf, &tr) } else { vec![] } {
        let node = sink_nodes(p)[d.sink].unwrap();
        let site = site_of(p, p.nodes[node].ins[0]);
        rep.violation(
            &format!("{prop}|{site}|{}", d.kind),
            &format!(
                "program {} sink {} tick {}: real {:?} vs documented {:?} (nearest operator upstream: {site})",
                p.id, d.sink, d.tick, d.real, d.reference
            ),
            case(json!({"sink": d.sink, "tick": d.tick, "real": d.real, "reference": d.reference, "kind": d.kind})),
        );
    }

    // --- direct invariants (independent of the interpreter)
    let nt = rf.total_ticks;
    let sink = |k: usize| by_tick(tr.sinks.get(k).map(|v| v.as_slice()).unwrap_or(&[]), nt);
    for c in &p.checks {
        match c {
            Check::NegExcluded { node, neg_sink, out_sink, neg_static, by_key } if prop == "C23" => {
                rep.eval();
                let neg = sink(*neg_sink);
                let out = sink(*out_sink);
                let mut negs: Vec<It> = vec![];
                for t in 0..out.len() {
                    if !*neg_static {
                        negs.clear();
                    }
                    negs.extend(neg[t].iter().copied());
                    let bad = out[t].iter().find(|x| match by_key {
                        Some(f) => negs.iter().any(|n| fns::negkey(*f, *n) == x.0),
                        None => negs.contains(x),
                    });
                    if let Some(x) = bad {
                        rep.violation(
                            &format!("C23|{}|output-contradicted-by-negative-input", pgen::cover_key(&p.nodes[*node].op)),
                            &format!("program {} tick {t}: {:?} was emitted although the negative side of its lifetime contains a match (neg this tick: {:?})", p.id, x, neg[t]),
                            case(json!({"tick": t, "item": x, "neg": neg[t]})),
                        );
                        break;
                    }
                }
                rep.count("c23_direct_neg_checks");
            }
            Check::Sorted { in_sink, out_sink, .. } if prop == "C23" => {
                rep.eval();
                let (i, o) = (sink(*in_sink), sink(*out_sink));
                for t in 0..o.len() {
                    if sorted(i[t].clone()) != o[t] {
                        rep.violation(
                            "C23|sort|not-the-sorted-tick-input",
                            &format!("program {} tick {t}: sort emitted {:?} for input {:?}", p.id, o[t], i[t]),
                            case(json!({"tick": t, "in": i[t], "out": o[t]})),
                        );
                        break;
                    }
                }
                rep.count("c23_direct_sort_checks");
            }
            Check::Counted { in_sink, out_sink, is_static, .. } if prop == "C23" => {
                rep.eval();
                let (i, o) = (sink(*in_sink), sink(*out_sink));
                let mut total = 0i64;
                for t in 0..(nt as usize) {
                    total = if *is_static { total + i[t].len() as i64 } else { i[t].len() as i64 };
                    let want = vec![fns::nm(0, total)];
                    if o[t] != want {
                        rep.violation(
                            "C23|fold|count-misses-same-tick-items",
                            &format!("program {} tick {t}: counting fold emitted {:?}, its input carried {} item(s) (expected {:?})", p.id, o[t], i[t].len(), want),
                            case(json!({"tick": t, "in": i[t], "out": o[t]})),
                        );
                        break;
                    }
                }
                rep.count("c23_direct_count_checks");
            }
            Check::Deferred { entry_sink, exit_sink, d } if prop == "C24" && ticks_ok => {
                rep.eval();
                let (en, ex) = (sink(*entry_sink), sink(*exit_sink));
                let n = nt as usize;
                'outer: for t in 0..n {
                    let want: Vec<It> = if t >= *d { sorted(en[t - *d].clone()) } else { vec![] };
                    let got = sorted(ex[t].clone());
                    if got != want {
                        // classify: did the items show up at another tick?
                        let kind = if t >= *d && !en[t - *d].is_empty() && t + 1 < n && is_submultiset(&en[t - *d], &ex[t + 1]) {
                            "delivered-late"
                        } else if !got.is_empty() && t + 1 > *d && t + 1 - *d < n && is_submultiset(&got, &en[t + 1 - *d]) {
                            "delivered-early"
                        } else {
                            "lost-or-duplicated"
                        };
                        rep.violation(
                            &format!("C24|defer_tick|{kind}"),
                            &format!("program {} chain of {d} deferral(s): tick {t} delivered {:?}, documented {:?}", p.id, got, want),
                            case(json!({"tick": t, "d": d, "got": got, "want": want})),
                        );
                        break 'outer;
                    }
                }
                rep.count("c24_direct_defer_checks");
            }
            _ => {}
        }
    }

    // --- non-triviality
    let ref_items: usize = rf.sinks.iter().map(|s| s.len()).sum();
    if rf.nonempty_ticks >= 2 && ref_items > 0 {
        rep.nontrivial(hash_of(&(p, steps)));
        rep.sample(|| {
            json!({"program": p.id, "mode": p.mode.s(), "ops": p.nodes.iter().map(|n| pgen::cover_key(&n.op)).collect::<Vec<_>>(),
                   "ticks": rf.total_ticks, "reference_items": ref_items,
                   "first_step_inputs": steps.first().map(|s| s.inputs.clone())})
        });
    }
    tr
}

// ---------------------------------------------------------------------------------------------

pub fn main(gen_seed: u64, gen_n: usize, shard: usize, programs: &[(usize, ProgFn)]) {
    let args = Args::parse();
    if let Some(pos) = args.rest.iter().position(|a| a == "--dump") {
        // print the dfir text of generated programs (ids follow; none = all) and exit
        let ids: Vec<usize> = args.rest[pos + 1..].iter().filter_map(|x| x.parse().ok()).collect();
        for p in pgen::generate(gen_seed, gen_n) {
            if ids.is_empty() || ids.contains(&p.id) {
                println!("// program {} ({})\n{}", p.id, p.mode.s(), crate::emit::dfir_text(&p));
            }
        }
        return;
    }
    if args.prop == "NONE" {
        return;
    }
    let prop = args.prop.clone();
    if !matches!(prop.as_str(), "C21" | "C23" | "C24") {
        eprintln!("dx_core serves C21, C23, C24 (got {prop})");
        std::process::exit(3);
    }
    let progs = pgen::generate(gen_seed, gen_n);
    let mut rep = Reporter::new(&prop, args.seed);
    let cx = Ctx { prop: &prop, gen_seed, gen_n };

    if let Some(case) = args.replay_case() {
        let (cs, cn) = (case["gen_seed"].as_u64().unwrap_or(0), case["gen_n"].as_u64().unwrap_or(0) as usize);
        if cs != gen_seed || cn != gen_n {
            eprintln!("replay needs a build with VERIF_GEN_SEED={cs} VERIF_GEN_N={cn} (this one: {gen_seed}/{gen_n})");
            std::process::exit(3);
        }
        let id = case["program"].as_u64().unwrap() as usize;
        if let Some((_, f)) = programs.iter().find(|(i, _)| *i == id) {
            let steps = steps_from_json(&case);
            judge(&cx, &mut rep, &progs[id], *f, &steps, false);
            rep.finish("replay", false);
        }
        return;
    }
    if args.seed != gen_seed {
        eprintln!("this binary was generated for seed {gen_seed}, asked for {}; use bin/check (vlib/drv_dxcore.py)", args.seed);
        std::process::exit(3);
    }

    let h_count = match args.tier {
        Tier::Quick => 200,
        Tier::Thorough => 2000,
        Tier::Miri => 2,
    };
    let mut matrix: BTreeMap<String, BTreeMap<String, u64>> = BTreeMap::new();
    let mut ast_cover: BTreeMap<String, u64> = BTreeMap::new();
    let mut exhaustive_total = 0usize;
    let mut depth_hist: BTreeMap<String, u64> = BTreeMap::new();
    let mut prog_list = vec![];
    for (id, f) in programs {
        let p = &progs[*id];
        assert_eq!(p.id, *id);
        let relevant = match prop.as_str() {
            "C21" => true,
            "C23" => p.mode == Mode::Deep,
            _ => p.mode == Mode::Defer,
        };
        if !relevant {
            continue;
        }
        rep.count(&format!("programs_{}", p.mode.s()));
        if p.has_loop() {
            rep.count("programs_with_root_loop");
        }
        prog_list.push(json!({"id": p.id, "mode": p.mode.s(), "nodes": p.nodes.len(), "depth": p.depth}));
        for nd in &p.nodes {
            *ast_cover.entry(pgen::cover_key(&nd.op)).or_default() += 1;
        }
        if p.mode == Mode::Deep {
            *depth_hist.entry(format!("depth{}", p.depth)).or_default() += 1;
        }
        let mut r = args.rng().fork(0xC0DE + *id as u64).fork(match prop.as_str() {
            "C21" => 21,
            "C23" => 23,
            _ => 24,
        });
        let (hs, n_ex) = histories(p, &prop, h_count, &mut r);
        exhaustive_total += n_ex;
        for (hi, steps) in hs.iter().enumerate() {
            let tr = judge(&cx, &mut rep, p, *f, steps, hi == 0);
            if hi == 0 {
                for (name, ps, col) in &tr.ops {
                    let key = if ps.is_empty() { name.clone() } else { format!("{name}<{ps}>") };
                    *matrix.entry(key).or_default().entry(col.clone()).or_default() += 1;
                }
            }
        }
    }
    rep.extra("op_matrix", json!(matrix));
    rep.extra("ast_cover", json!(ast_cover));
    rep.extra("programs", json!(prog_list));
    rep.extra("deep_depths", json!(depth_hist));
    rep.extra("gen", json!({"seed": gen_seed, "n": gen_n, "shard": shard, "histories_per_program": h_count}));
    rep.extra("exhaustive_histories", json!(exhaustive_total));
    if shard == 0 {
        rep.extra("semantic_decisions", json!(refint::SEMANTIC_DECISIONS));
    }
    let rule = match prop.as_str() {
        "C21" => "Seeded coverage-driven generator draws dataflow programs (1-3 per-tick-fed sources, a DAG of catalogue operators over (i64,i64) items, recording sinks); rustc + the real dfir_syntax! macro compile them; each is driven with all 2-tick histories of a tiny alphabet plus random histories (<= 6 ticks x <= 6 items per source per tick, keys 0..4, values 0..5) and every sink's per-tick output is compared with a reference interpreter of the documented operator semantics (sequences where the docs fix the order, multisets otherwise). Non-trivial = (program, history) with >= 2 ticks producing sink output in the reference.",
        "C23" => "Deep-feeder programs: a blocking input (anti_join/difference negative side, accumulators, sort, persist, #singleton/#handoff references, cross_singleton single side, join_multiset_half build side, defer_signal signal) is fed through 1-6 hops of map/identity/handoff()/tee/union/sort/collect from a same-tick source while the other input comes (almost) directly from the same source; judged by the reference interpreter (which has no subgraphs) plus direct per-tick invariants on probe sinks (no anti_join/difference output matches a same-lifetime negative, sort output = sorted tick input, counting fold = number of tick items). Non-trivial = (program, history) with >= 2 ticks producing sink output in the reference.",
        _ => "Deferral programs: chains of 1-4 defer_tick/defer_tick_lazy with probes at both ends, optional decaying cycles through deferrals, stateful 'tick/'static consumers, optional sink firing context.waker(); driven by mixes of run_tick_sync / run_available_sync steps. Judged: current_tick delta = ticks started (H3 hook) = ticks the documented contract gives (interpreter worklist: at least one tick, continue while non-lazy deferred data or a wake-up is pending), exit[t+d] = entry[t] for every chain, all sinks equal the reference. Non-trivial = (program, history) with >= 2 ticks producing sink output in the reference.",
    };
    rep.finish(rule, exhaustive_total > 0 && args.tier != Tier::Miri);
}
